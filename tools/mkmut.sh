#!/bin/bash
# mkmut.sh <ID>: scratch worktree /tmp/mut-<ID> of /repo HEAD + hard-link clone of /repo/target as /tmp/mut-<ID>-tgt
set -e
id=$1
git -C /repo worktree add --detach /tmp/mut-$id HEAD >/dev/null 2>&1
cp -al /repo/target /tmp/mut-$id-tgt
# a hard-linked .cargo-lock would serialise every clone behind one lock: give each clone its own
for f in $(find /tmp/mut-$id-tgt -name .cargo-lock); do rm -f $f; touch $f; done
echo "WT=/tmp/mut-$id TGT=/tmp/mut-$id-tgt"
