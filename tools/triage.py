#!/usr/bin/env python3
"""Print the N smallest replay cases of a property (development aid)."""
import json, glob, sys
pid = sys.argv[1]; n = int(sys.argv[2]) if len(sys.argv) > 2 else 5
pat = sys.argv[3] if len(sys.argv) > 3 else None
cases = []
for f in glob.glob(f"/verif/replays/{pid}/*.json"):
    d = json.load(open(f))
    if pat and pat not in d.get("what", ""): continue
    cases.append((len(d["case"].get("document", "")), f, d))
cases.sort(key=lambda x: x[0])
for _, f, d in cases[:n]:
    c = d["case"]
    print("=" * 100); print(f)
    print("WHAT:", d["what"][:600])
    print("SDL:\n" + c.get("schema_sdl", "")[:3000])
    print("DOC:\n" + c.get("document", ""))
    print("VARS:", json.dumps(c.get("variables")), " OP:", c.get("operation_name"), " FAULTS:", c.get("faults"))
    print("OBSERVED:", json.dumps(c.get("observed"))[:1500])
    print("EXPECTED:", json.dumps(c.get("expected_data"))[:1500], c.get("expected_request_error"))
