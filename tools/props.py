"""Single table of what is claimed: property -> engine, level, texts.
`./check --manifest` turns it into MANIFEST.json."""

HOOKS = {
    "guard": "verif-hooks (cargo feature of the async-graphql crate, off by default)",
    "enable": "harness/*/Cargo.toml depend on async-graphql by path (/repo) with features=[\"verif-hooks\"]; "
              "every ./check call rebuilds the engine with cargo, so /repo's working tree is what runs",
    "baseline_off_cmd": "cd /repo && cargo nextest run --workspace --no-fail-fast --offline",
    "source_commits": [],
    "add_only": True,
}

ENGINES = {
}

PROPS = {
}

_ALL = ["C%02d" % i for i in range(1, 36)]
NOT_APPLICABLE = {k: "check not built yet (build in progress; see DESIGN.md §2 for the planned monitor)"
                  for k in _ALL if k not in PROPS}
