"""Single table of what is claimed: property -> engine, level, texts.
`./check --manifest` turns it into MANIFEST.json."""

HOOKS = {
    "guard": "verif-hooks (cargo feature of the async-graphql crate, off by default)",
    "enable": "harness/*/Cargo.toml depend on async-graphql by path (/repo) with features=[\"verif-hooks\"]; "
              "every ./check call rebuilds the engine with cargo, so /repo's working tree is what runs",
    "baseline_off_cmd": "cd /repo && cargo nextest run --workspace --no-fail-fast --offline",
    "source_commits": [],
    "add_only": True,
}

ENGINES = {
    "vh-lang": {"path": "harness/lang", "kind": "in-process generators + reference-model oracles for parser, values, scalars, SDL"},
}

PROPS = {
    "C15": {
        "engine": "vh-lang",
        "technique": "runtime round-trip monitor over generated values (print->parse, JSON->value)",
        "level_text": "Exploration: tens of thousands (quick) to millions (thorough) of generated values are pushed through the real "
                      "Display printer + parser and the JSON conversions; a strict-equality monitor compares what comes back.",
        "level_note": "Trusts serde_json on the oracle side and the harness' strict equality; says nothing about values the generator does not reach (Binary is excluded as it is not a GraphQL value).",
    },
}

_ALL = ["C%02d" % i for i in range(1, 36)]
NOT_APPLICABLE = {k: "check not built yet (build in progress; see DESIGN.md §2 for the planned monitor)"
                  for k in _ALL if k not in PROPS}
