"""Single table of what is claimed: property -> engine, level, texts.
`./check --manifest` turns it into MANIFEST.json."""

HOOKS = {
    "guard": "verif-hooks (cargo feature of the async-graphql crate, off by default)",
    "enable": "harness/*/Cargo.toml depend on async-graphql by path (/repo) with features=[\"verif-hooks\"]; "
              "every ./check call rebuilds the engine with cargo, so /repo's working tree is what runs",
    "baseline_off_cmd": "cd /repo && cargo nextest run --workspace --no-fail-fast --offline",
    "source_commits": [],
    "add_only": True,
}

ENGINES = {
    "vh-lang": {"path": "harness/lang", "kind": "in-process generators + round-trip monitors for values"},
    "vh-exec": {"path": "harness/exec", "kind": "real executor (static S1 + generated dynamic schemas) against reference executor R1 and resolver event-log monitors; fault enumeration; schedule control (vsched)"},
    "vh-ws": {"path": "harness/ws", "kind": "real http::WebSocket driven by vsched scripts; protocol trace automaton"},
    "vh-integ": {"path": "harness/integ", "kind": "in-memory GET/POST requests through the five web-framework integrations; resolver event log monitor"},
    "vh-dynck": {"path": "harness/dynck", "kind": "dynamic-schema build oracle (own validator) and work-counter monitor (verif-hooks)"},
    "vh-gate": {"path": "harness/gate", "kind": "introspection-mode matrix, secret-sentinel scanner over logged text, persisted-query store model"},
}


def _p(engine, technique, level_text, level_note, level="exploration", **kw):
    d = {"engine": engine, "technique": technique, "level_text": level_text, "level_note": level_note, "level": level}
    d.update(kw)
    return d


_R1 = ("Trusts the harness' reference executor R1 / coercion model (harness/model, written from the Oct-2021 spec), the "
       "valid-by-construction argument of the document generator, and for the static flavour the hand model of S1. "
       "Says nothing about schema shapes, documents or data the generators do not reach.")

PROPS = {
    "C01": _p("vh-exec", "runtime differential monitor: real executor vs reference executor R1 on generated documents/data (static schema S1)",
              "Exploration: 12k (quick) / 600k (thorough) generated valid operations with variables over the derive-built schema S1 are executed by "
              "the real crate with data-driven resolvers; the monitor compares response data (key order included) with R1 on the same data world.", _R1),
    "C02": _p("vh-exec", "runtime differential monitor: real executor vs reference executor R1 on generated dynamic schemas/documents/data",
              "Exploration: thousands of random dynamic type systems x generated valid operations executed by the real dynamic executor; "
              "response data compared with R1 on the same data world.", _R1),
    "C03": _p("vh-exec", "fault injection in harness resolvers + differential monitor on data and error accounting",
              "Fault enumeration: for every generated (schema, document, world), EVERY completed position x applicable fault kind is injected alone "
              "(pairs exhaustively for small trees, sampled otherwise) in static and dynamic schemas; data, error paths, locations and once-only "
              "reporting are compared with R1.", _R1 + " Static Rust resolvers cannot yield nothing for a non-null type; that kind is injected in dynamic schemas only.",
              level="fault_enumeration"),
    "C11": _p("vh-dynck", "work-counter hook (verif-hooks) read around real request checking; bound K*S^2+K0",
              "Exploration with an invariant counter: adversarial and random document families of growing size are checked by the real crate while the "
              "verif-hooks work counter is read; counted work must stay below 64*S^2+10000 (clean families stay 84x below).",
              "Counts selections visited by validation visitors, the two schema.rs walkers and FindConflicts; parser work is not counted. Bound constants are the harness' choice."),
    "C15": _p("vh-lang", "runtime round-trip monitor over generated values (print->parse, JSON->value)",
              "Exploration: tens of thousands (quick) to millions (thorough) of generated values are pushed through the real Display printer + parser "
              "and the JSON conversions; a strict-equality monitor compares what comes back.",
              "Trusts serde_json on the oracle side and the harness' strict equality; Binary is excluded as it is not a GraphQL value."),
    "C19": _p("vh-gate", "resolver event log + response scanner over the full 3x3 mode matrix",
              "Exploration, exhaustive over the 54-cell (schema mode x request mode x flavour x operation kind) matrix, random over documents: "
              "metadata sentinels must be absent when disabled, the resolver log must be empty under introspection-only, __typename must resolve.",
              "Sentinel names are unique to metadata; documents are generated, not enumerated."),
    "C21": _p("vh-gate", "sentinel scanner over the text the real Logger / Tracing / stringify_execute_doc produce",
              "Exploration: generated documents place unique sentinels in every secret position; the monitor scans the real logged text at three observation points.",
              "A leak is a substring match of a sentinel placed in a secret position; non-secret sentinels are counted to show the monitor sees real text."),
    "C25": _p("vh-ws", "trace automaton over client-in/server-out of the real WebSocket stream under vsched-controlled scripts",
              "Exploration, bounded-exhaustive over client/environment scripts (length <= 5 quick, <= 7 thorough, per protocol and init mode) plus random "
              "scripts up to length 40; every server message is judged by a protocol automaton written from the two PROTOCOL.md documents.",
              "One gate opens per step (two environment events cannot fall into one poll); legacy protocol defines no close codes, so any refusal is accepted there."),
    "C31": _p("vh-gate", "reference store model over request histories; resolver log shows which text ran",
              "Exploration: random request histories against the real ApolloPersistedQueries extension with LRU and harness stores; executed tags, lookups and "
              "store contents are compared with a reference model after every request.",
              "sha2 on the oracle side; LRU eviction never triggers at these capacities (scc rounds capacity up), stated in evidence."),
    "C33": _p("vh-dynck", "independent type-system validator as oracle for SchemaBuilder::finish(); panic monitor on built schemas",
              "Exploration: random valid type systems and 142 single-rule violation/valid-variant operators; finish() must succeed iff the harness validator "
              "(listed rules only) accepts; every built schema is introspected, exported and queried under a panic monitor.",
              "Only the rules listed in the property are judged; systems violating other spec rules are never generated."),
    "C35": _p("vh-integ", "resolver event log behind in-memory GET requests through each integration's own entry point",
              "Exploration: ~165k (quick) generated GET requests through 11 entry points of axum, poem, actix-web, warp and rocket; any mutation-resolver event "
              "after a GET, or a GET mutation answered without errors, is a violation; POST/GET-query controls prove the monitor sees events.",
              "No sockets: requests are driven through tower/Endpoint/test-service/local-client APIs."),
}

_ALL = ["C%02d" % i for i in range(1, 36)]
NOT_APPLICABLE = {k: "check not built yet (build in progress; see DESIGN.md §2 for the planned monitor)"
                  for k in _ALL if k not in PROPS}
