"""Single table of what is claimed: property -> engine, level, texts.
`./check --manifest` turns it into MANIFEST.json."""

HOOKS = {
    "guard": "verif-hooks (cargo feature of the async-graphql crate, off by default)",
    "enable": "harness/*/Cargo.toml depend on async-graphql by path (/repo) with features=[\"verif-hooks\"]; "
              "every ./check call rebuilds the engine with cargo, so /repo's working tree is what runs",
    "baseline_off_cmd": "cd /repo && cargo nextest run --workspace --no-fail-fast --offline",
    "source_commits": ["ed60420"],
    "add_only": True,
}

ENGINES = {
    "vh-lang": {"path": "harness/lang", "kind": "in-process generators + round-trip monitors for values"},
    "vh-exec": {"path": "harness/exec", "kind": "real executor (static S1 + generated dynamic schemas) against reference executor R1 and resolver event-log monitors; fault enumeration; schedule control (vsched)"},
    "vh-ws": {"path": "harness/ws", "kind": "real http::WebSocket driven by vsched scripts; protocol trace automaton"},
    "vh-integ": {"path": "harness/integ", "kind": "in-memory GET/POST requests through the five web-framework integrations; resolver event log monitor"},
    "vh-dynck": {"path": "harness/dynck", "kind": "dynamic-schema build oracle (own validator) and work-counter monitor (verif-hooks)"},
    "vh-scalars": {"path": "harness/scalars", "kind": "in-process domain models for scalars, validators, serde round trip, cursors; real schema.execute for validators and connections"},
    "vh-net": {"path": "harness/net", "kind": "own encoders (JSON, query string, multipart) + decode monitors; RFC 2046 reader; HTML/JS evaluator for the GraphiQL page; vsched for batch order and multipart/mixed interleavings"},
    "vh-conc": {"path": "harness/conc", "kind": "DataLoader under vsched (Spawn, Timer and Loader owned by the schedule), offline history checker; real-thread mode; Miri supplement"},
    "vh-crash": {"path": "harness/crash", "kind": "process-level crash monitor: parent generates hostile inputs, children run them on 2 MiB stacks; panics, aborts and stalls are observed from outside"},
    "vh-parse": {"path": "harness/parse", "kind": "independent hand-written GraphQL parser R2 (harness/r2) + token-position printer; three-way agreement and position monitors"},
    "vh-sdl": {"path": "harness/sdl", "kind": "SDL export monitor: own source model + dynamic builder + 12 derive-built schemas; R2 and crate parser read the export back; structural diff"},
    "vh-intro": {"path": "harness/intro", "kind": "introspection monitors: client-schema rebuild, three-way model diff (source / introspection / SDL via R2), visibility scanner"},
    "vh-gate": {"path": "harness/gate", "kind": "introspection-mode matrix, secret-sentinel scanner over logged text, persisted-query store model"},
}


def _p(engine, technique, level_text, level_note, level="exploration", **kw):
    d = {"engine": engine, "technique": technique, "level_text": level_text, "level_note": level_note, "level": level}
    d.update(kw)
    return d


_R1 = ("Trusts the harness' reference executor R1 / coercion model (harness/model, written from the Oct-2021 spec), the "
       "valid-by-construction argument of the document generator, and for the static flavour the hand model of S1. "
       "Says nothing about schema shapes, documents or data the generators do not reach.")

PROPS = {
    "C01": _p("vh-exec", "runtime differential monitor: real executor vs reference executor R1 on generated documents/data (static schema S1)",
              "Exploration: 12k (quick) / 600k (thorough) generated valid operations with variables over the derive-built schema S1 are executed by "
              "the real crate with data-driven resolvers; the monitor compares response data (key order included) with R1 on the same data world.", _R1),
    "C02": _p("vh-exec", "runtime differential monitor: real executor vs reference executor R1 on generated dynamic schemas/documents/data",
              "Exploration: thousands of random dynamic type systems x generated valid operations executed by the real dynamic executor; "
              "response data compared with R1 on the same data world.", _R1),
    "C03": _p("vh-exec", "fault injection in harness resolvers + differential monitor on data and error accounting",
              "Fault enumeration: for every generated (schema, document, world), EVERY completed position x applicable fault kind is injected alone "
              "(pairs exhaustively for small trees, sampled otherwise) in static and dynamic schemas; data, error paths, locations and once-only "
              "reporting are compared with R1.", _R1 + " Static Rust resolvers cannot yield nothing for a non-null type; that kind is injected in dynamic schemas only.",
              level="fault_enumeration"),
    "C04": _p("vh-exec", "offline trace checker over the resolver event log under vsched-controlled completion orders",
              "Exploration: generated queries/mutations on S1 and dynamic schemas with every resolver gated; FIFO, LIFO (later root fields first) and random "
              "orders; the log checker asserts one resolver start per response path and strictly serial mutation root fields.",
              "A resolver start is observable as a Start event logged before the resolver awaits its gate; schedules are sampled, not enumerated."),
    "C05": _p("vh-exec", "metamorphic monitor across all completion orders enumerated by vsched DFS",
              "Exploration: for each generated query with 0-2 injected failures, ALL completion orders are enumerated by DFS (capped, then LIFO/random); "
              "every order must give the same data and the same error multiset.",
              "Resolvers are deterministic by construction (data world); the per-case cap on schedules is reported in evidence."),
    "C06": _p("vh-exec", "resolver event log (received arguments) joined with the reference CoerceArgumentValues per response path",
              "Exploration: generated operations supplying arguments as literals, variables, nested variables, omitted variables, explicit nulls and defaults "
              "at every level, over S1 echo fields for every receiving Rust type and over dynamic schemas; each resolver's received values are compared "
              "with the reference coercion projected through the receiving type's view.",
              "Option<T> cannot tell null from omitted; dynamic accessors read enum-as-string/ID-as-int by value: those representations are normalised only."),
    "C07": _p("vh-scalars", "domain-model oracle over the real parse/to_value of every built-in scalar",
              "Exploration, exhaustive for 8/16-bit integers and NonZero forms: millions of values of every GraphQL kind offered to each built-in scalar; "
              "accept/reject and round trip compared with an arithmetic domain model.",
              "One-sided where the intended answer is genuinely ambiguous (integral float for an integer type, double beyond f32 range); listed in evidence assumptions."),
    "C08": _p("vh-scalars", "exact-arithmetic predicate oracle + resolver event log behind real schema.execute",
              "Exploration: 50 validated argument fields and an input object, Strict and Fast modes, literals and variables, values at/below/above every bound; "
              "the resolver runs iff the exact predicate holds, otherwise the request errors.",
              "regex crate trusted on the oracle side; multiple_of(0) excluded (intent unclear, pinned by a repo unit test)."),
    "C09": _p("vh-exec", "valid-by-construction documents + 52 rule-targeted single-edit mutants executed by the real schema; a pass-through extension and the resolver event log decide whether a request was executed",
              "Exploration: ~59k valid documents (+ validity-preserving variants) and ~76k mutants per quick run (5M requests thorough) over S1 incl. subscriptions "
              "and ~1.7k generated dynamic schemas, Strict mode: valid ones must reach execution, every mutant must be rejected before execution with a located "
              "error, and errors on accepted valid documents must have a resolver cause. Every enabled operator is applied at least 150 times (floor).",
              "The 'iff' is decided on generated documents only (validity by the generator's construction argument, invalidity by each operator's guard). Not covered: "
              "SameResponseShape across disjoint object types, oneOf and Upload rules. Ten known findings exclude sixteen operators; each class stays observed "
              "through its pinned witness."),
    "C10": _p("vh-exec", "reference-measure oracle (own AST, fragments inlined) vs real limit enforcement with each limit at m-1, m, m+1; resolver event log shows whether anything ran",
              "Exploration: generated single-operation documents (fragments, aliases, rule-feeding arguments from literals, variables, defaults, omission; "
              "directives that never prune) over S1, a second derive-built schema S10 (complexity rules of four shapes behind an interface and a union) and "
              "random dynamic schemas; the real schema is rebuilt with each of depth / complexity / recursion / directives at m-1, m, m+1, none, all-at-m, "
              "Strict and Fast, execute and execute_stream; rejected with zero resolver events exactly when the reference measure exceeds the limit. "
              "18 hand-computed calibration documents pin the conventions.",
              "__typename cost, pruned selections, unselected operations and a limit of exactly usize::MAX are not asserted (stated in evidence). "
              "Three known findings exclude rule fields below a spread of another type, rule arguments fed by an omitted variable, and sums above usize::MAX."),
    "C12": _p("vh-crash", "process-level monitor (panic hook, exit signal, progress watchdog) over hostile inputs on 8 client-controlled surfaces",
              "Exploration: 20k (quick) / >1M (thorough) hostile inputs (grammar-aware and byte-level mutations, deep nesting, forged markers, truncated bodies, "
              "WebSocket frames) executed in child processes on 2 MiB stacks; any panic, abnormal exit or repeated stall is a violation.",
              "Oracle is process-level only; content of error responses is not judged; exponential-validation families are left to C11."),
    "C11": _p("vh-dynck", "work-counter hook (verif-hooks) read around real request checking; bound K*S^2+K0",
              "Exploration with an invariant counter: adversarial and random document families of growing size are checked by the real crate while the "
              "verif-hooks work counter is read; counted work must stay below 64*S^2+10000 (clean families stay 84x below).",
              "Counts selections visited by validation visitors, the two schema.rs walkers and FindConflicts; parser work is not counted. Bound constants are the harness' choice."),
    "C13": _p("vh-parse", "three-way agreement monitor: generator AST = independent parser R2 = crate parser; R2 decides near-miss mutants",
              "Exploration: 20k documents + 80k near-miss mutants (quick), 3M + 12M (thorough), executable and type-system, with ignored-token noise; "
              "accept/reject and the denoted tree are compared with an independent recursive-descent parser.",
              "R2 (harness/r2, Oct-2021 grammar) is trusted where it is asserted; edition-dependent constructs are not asserted (listed in evidence assumptions)."),
    "C14": _p("vh-parse", "token-table position oracle for AST nodes; metamorphic (plain vs hostile layout) monitor for error positions",
              "Exploration: every Positioned node of the crate's tree is compared with the printer's token table (line terminators LF/CRLF/CR, BOM, tabs, "
              "comments, non-ASCII); parser error positions must map to the same token under a hostile re-layout.",
              "Validation/execution error locations are covered by the executor checks (C03) for LF layouts only."),
    "C15": _p("vh-lang", "runtime round-trip monitor over generated values (print->parse, JSON->value)",
              "Exploration: tens of thousands (quick) to millions (thorough) of generated values are pushed through the real Display printer + parser "
              "and the JSON conversions; a strict-equality monitor compares what comes back.",
              "Trusts serde_json on the oracle side and the harness' strict equality; Binary is excluded as it is not a GraphQL value."),
    "C16": _p("vh-scalars", "round-trip monitor over a generated family of serde types",
              "Exploration: a 22-variant recursive type family covering every serde data-model shape, nested to depth 4, random values; "
              "from_value(to_value(x)) must equal x.",
              "char, i128/u128, non-finite floats and Option<Option<T>> are outside the stated model and only exercised one-sidedly."),
    "C17": _p("vh-sdl", "exported SDL parsed back by the independent parser R2 and by the crate's parse_schema; both normalised and diffed structurally against the source description the schema was built from",
              "Exploration: 800 (quick) / 1500 (thorough) generated dynamic schemas with hostile description / deprecation-reason / default / directive-argument "
              "text, applied directives, interface inheritance and federation attributes, plus 12 derive-built schemas with hand models; exports under 16 option "
              "sets per generated schema in quick (all 768 = 2^8 x 3 indent widths in thorough and for the derive family); Schema::sdl() = default options.",
              "Federation mode is compared modulo its additions; element order is asserted only under a sorted_* option; raw control characters inside strings are "
              "counted, not judged; repeatable is judged through R2 only. Eleven known findings exclude their text/structure classes."),
    "C18": _p("vh-intro", "client-schema rebuild from the real introspection JSON + structural diff against the source model and the SDL model (R2); raw-text scan for uniquely named hidden elements",
              "Exploration, exhaustive over the 16 visibility contexts of a hand-written static family, sampled over random dynamic type systems (descriptions, "
              "deprecations, defaults, specifiedByURL, oneOf, interface inheritance, unions, three roots, orphan types, hostile text): standard graphql-js "
              "query, legacy query and __type(name:) for every listed and some unknown names; self-consistency (I1), equality with source and SDL (I2), "
              "visibility (I3).",
              "Which built-in types/directives are listed, list order, and whether a type reachable only through hidden elements is listed are not asserted; "
              "SDL text escaping is C17's subject."),
    "C19": _p("vh-gate", "resolver event log + response scanner over the full 3x3 mode matrix",
              "Exploration, exhaustive over the 54-cell (schema mode x request mode x flavour x operation kind) matrix, random over documents: "
              "metadata sentinels must be absent when disabled, the resolver log must be empty under introspection-only, __typename must resolve.",
              "Sentinel names are unique to metadata; documents are generated, not enumerated."),
    "C20": _p("vh-exec", "reference-executor trace (contained objects/fields) + hand-written hint table vs Response.cache_control; exhaustive law grid through BatchResponse::cache_control",
              "Exploration: generated documents over S1 (object/field cache hints) reaching Dog/Cat/Person through object, interface and union fields with and "
              "without type-conditioned fragments, Strict and Fast validation; the response policy must be at least as restrictive as the combination of the "
              "hints of everything the response contains (per the reference executor's trace) and equal to it for object-only selections; header rendering and "
              "real batches are judged too. Combination laws are complete over a 12-policy grid (144 pairs, 1728 triples x 6 orders x 2 groupings).",
              "exhaustive applies to the law grid only (extra combination_laws). Only error-free responses equal to the reference are judged; exactness only where the "
              "static and run-time readings of 'contains' agree. Four known findings exclude selections on abstract types, named fragments below them, and unexecuted operations."),
    "C22": _p("vh-exec", "offline join, by response path, of the views resolvers recorded (selection_set walked recursively; look_ahead probed for every field name) with the resolver events of the same run and the harness AST",
              "Exploration: generated documents (named/inline/nested fragments, @skip/@include from literals, variables, defaulted variables; aliases, repeated keys, "
              "variables in arguments) on S1 and random dynamic schemas; every resolver that ran below a field must be listed in both views with its written "
              "arguments (variables substituted); no view lists more occurrences of a selection than the document keeps after directives.",
              "'Resolved arguments' = written arguments with variables substituted; schema defaults are not demanded of a view. Unresolved-but-kept entries are accepted."),
    "C21": _p("vh-gate", "sentinel scanner over the text the real Logger / Tracing / stringify_execute_doc produce",
              "Exploration: generated documents place unique sentinels in every secret position; the monitor scans the real logged text at three observation points.",
              "A leak is a substring match of a sentinel placed in a secret position; non-secret sentinels are counted to show the monitor sees real text."),
    "C23": _p("vh-net", "decode-equivalence monitor over own encoders; vsched-controlled batch completion orders",
              "Exploration: random logical requests encoded as JSON body, batch element, GET query string and multipart operations must decode alike; "
              "17 malformed classes must be rejected; execute_batch keeps order under every completion order (DFS for n<=5).",
              "The harness' encoders define what a well-formed encoding is; ambiguous malformed classes are counted, not judged."),
    "C24": _p("vh-net", "binding-model oracle over own multipart encoder; end-to-end resolver read",
              "Exploration: generated multipart bodies (field permutations, several paths per file, batch paths, missing/extra files, sizes and counts around "
              "the limits) decoded by the real crate; bindings, limits and what a mutation resolver reads are compared with the model.",
              "Per-field size limit applying to operations/map parts is reported, not judged."),
    "C26": _p("vh-net", "independent RFC 2046 reader over the bytes of create_multipart_mixed_stream under vsched interleavings",
              "Exploration, exhaustive over all interleavings of <=4 responses, <=4 heartbeat ticks and end-of-stream (DFS), random beyond; "
              "framing, order, exactly-once, heartbeats and the closing delimiter are judged by an independent reader.",
              "select!'s internal RNG makes simultaneously-ready cases sampled rather than enumerated."),
    "C25": _p("vh-ws", "trace automaton over client-in/server-out of the real WebSocket stream under vsched-controlled scripts",
              "Exploration, bounded-exhaustive over client/environment scripts (length <= 5 quick, <= 7 thorough, per protocol and init mode) plus random "
              "scripts up to length 40; every server message is judged by a protocol automaton written from the two PROTOCOL.md documents.",
              "One gate opens per step (two environment events cannot fall into one poll); legacy protocol defines no close codes, so any refusal is accepted there."),
    "C27": _p("vh-exec", "offline monitor over the response sequence of execute_stream polled by vsched (event arrival and every resolver are gates); faults keyed by (path, node id) give every error a provenance",
              "Exploration, bounded-exhaustive over schedules for small cases (DFS) plus LIFO/random beyond: subscriptions with 1-3 aliased root fields on S1 "
              "and on a dynamic schema built from the same model, 0-4 single-node faults; each response must equal the reference executor's result for its own "
              "event alone (data, errors by path and by cause), one response per produced event in order, the stream ends; streamed queries/mutations yield "
              "exactly one response, the one execute() gives.",
              "Error locations, the shape of a root-nulled event and continuation after a root failure are not asserted. 'Exactly one response' for a streamed "
              "query is read as 'the response of that query'."),
    "C28": _p("vh-conc", "offline history checker (rules D1-D6) over DataLoader runs whose Spawn, Timer and Loader are owned by vsched",
              "Exploration, exhaustive DFS over all interleavings for <=3 requests over 3 keys x batch sizes 1-3 x cache modes x fault plans x cancellations; "
              "random walks up to 12 requests; thorough adds a real-thread mode and a Miri run over the scc paths.",
              "Values carry batch ids so provenance is unambiguous; real-thread histories use the relaxed cache reading; Miri is supplementary."),
    "C29": _p("vh-conc", "reference cache model (NoCache/HashMap/LRU) over sequential operation histories",
              "Exploration: random histories (<=40 ops, <=5 keys, one or two key types) of load/feed/clear/enable/get_cached_values compared with a reference "
              "cache model; panics are violations.",
              "Where the insertion order inside one batch is unspecified the model keeps the set of possible LRU states."),
    "C30": _p("vh-exec", "hook-trace monitor (recording pass-through extensions) + differential response monitor across stacks of 0-3 extensions",
              "Exploration: generated queries/mutations (valid, syntax error, unknown field, unknown operation) on S1 and dynamic schemas executed with 0,1,2,3 "
              "recording pass-through extensions; responses (data, errors, extensions, cache policy, headers) must be identical, hooks nested in registration order, "
              "lifecycle hooks once and in order, resolve hooks = positions completed by the reference executor.",
              "Where a response key is written twice the crate resolves per occurrence (C04 finding); there only the set of hooked positions is compared, not the count."),
    "C31": _p("vh-gate", "reference store model over request histories; resolver log shows which text ran",
              "Exploration: random request histories against the real ApolloPersistedQueries extension with LRU and harness stores; executed tags, lookups and "
              "store contents are compared with a reference model after every request.",
              "sha2 on the oracle side; LRU eviction never triggers at these capacities (scc rounds capacity up), stated in evidence."),
    "C32": _p("vh-scalars", "round-trip and closure-call monitor over all CursorType impls and connection::query_with",
              "Exploration: all 20 cursor types incl. OpaqueCursor over nested serde values, hostile cursor strings, 140+ pagination argument classes, "
              "executed connection fields; page info cursors must equal the encodings of first/last edges.",
              "A NaN cursor need only come back as a NaN (its text form cannot carry the payload)."),
    "C33": _p("vh-dynck", "independent type-system validator as oracle for SchemaBuilder::finish(); panic monitor on built schemas",
              "Exploration: random valid type systems and 142 single-rule violation/valid-variant operators; finish() must succeed iff the harness validator "
              "(listed rules only) accepts; every built schema is introspected, exported and queried under a panic monitor.",
              "Only the rules listed in the property are judged; systems violating other spec rules are never generated."),
    "C34": _p("vh-net", "own HTML tokenizer + ECMA-262 string-literal evaluator over the generated page (cross-checked with node when present)",
              "Exploration: random configuration strings (quotes, ampersands, angle brackets, backslashes, line terminators, </script>, non-ASCII) rendered by "
              "GraphiQLSource; each configured site must evaluate to the configured value and no value may end its string/script/HTML context.",
              "Script-data escaped states (<!--<script) are not modelled."),
    "C35": _p("vh-integ", "resolver event log behind in-memory GET requests through each integration's own entry point",
              "Exploration: ~165k (quick) generated GET requests through 11 entry points of axum, poem, actix-web, warp and rocket; any mutation-resolver event "
              "after a GET, or a GET mutation answered without errors, is a violation; POST/GET-query controls prove the monitor sees events.",
              "No sockets: requests are driven through tower/Endpoint/test-service/local-client APIs."),
}

_ALL = ["C%02d" % i for i in range(1, 36)]
NOT_APPLICABLE = {k: "check not built yet (build in progress; see DESIGN.md §2 for the planned monitor)"
                  for k in _ALL if k not in PROPS}
