#!/usr/bin/env python3
"""Merge the 'findings' of a proposed_findings.json into known_findings.json (by id; development aid)."""
import json, sys
p = '/verif/known_findings.json'; d = json.load(open(p))
ids = {f['id']: i for i, f in enumerate(d['findings'])}
for src in sys.argv[1:]:
    for f in json.load(open(src))['findings']:
        if f['id'] in ids: d['findings'][ids[f['id']]] = f
        else: ids[f['id']] = len(d['findings']); d['findings'].append(f)
json.dump(d, open(p, 'w'), indent=1, ensure_ascii=False); print(len(d['findings']), 'findings')
