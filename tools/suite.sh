#!/bin/bash
# Run the repository's pinned test suite (hooks OFF) and print a one-line summary.
cd /repo && cargo nextest run --workspace --no-fail-fast --offline > /tmp/suite.log 2>&1
echo "EXIT $?" >> /tmp/suite.log
grep -E "Summary|FAIL|EXIT" /tmp/suite.log | sort | uniq | tail -15
