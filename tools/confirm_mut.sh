#!/bin/bash
# confirm_mut.sh <patch.diff> <demo.rs> [crate-tests-dir (default tests)] [extra cargo args for the demo]
# Confirms in a scratch worktree (/tmp/confirm/repo, persistent target /tmp/confirm/tgt) that a seeded change
# (1) applies and compiles, (2) passes the existing suite, (3) makes the demo fail, and that the demo passes without it.
set -u
C=/tmp/confirm
patch=$(readlink -f "$1"); demo=$(readlink -f "$2"); tdir=${3:-tests}; shift 3 2>/dev/null
extra="$*"
mkdir -p $C
[ -d $C/repo ] || git -C /repo worktree add --detach $C/repo HEAD >/dev/null 2>&1
[ -d $C/tgt ] || { cp -al /repo/target $C/tgt; for f in $(find $C/tgt -name .cargo-lock); do rm -f $f; touch $f; done; }
cd $C/repo && git checkout -q -- . && git clean -fdq
export CARGO_TARGET_DIR=$C/tgt CARGO_NET_OFFLINE=true
pkg=$(cd $C/repo/$tdir/.. && grep -m1 '^name' Cargo.toml | sed 's/.*"\(.*\)"/\1/')
cp "$demo" $C/repo/$tdir/zz_demo.rs
echo "## demo WITHOUT change (package $pkg)"
cargo test -p $pkg --offline --test zz_demo $extra 2>&1 | grep -E "^test result|error(\[|:)|FAILED|panicked" | head -8
git apply "$patch" || { echo "PATCH DOES NOT APPLY"; exit 3; }
echo "## demo WITH change"
cargo test -p $pkg --offline --test zz_demo $extra 2>&1 | grep -E "^test result|error(\[|:)|FAILED|panicked" | head -8
rm -f $C/repo/$tdir/zz_demo.rs
echo "## existing suite WITH change"
cargo nextest run --workspace --no-fail-fast --offline 2>&1 | grep -E "Summary|FAIL |error(\[|:)" | sort | uniq | head -20
git checkout -q -- . && git clean -fdq
