#!/usr/bin/env python3
"""Regenerate the generated tables of DESIGN.md §7 (between the ASBUILT markers) from
tools/props.py, known_findings.json and seeded/*/meta.json."""
import glob
import json
import os
import re
import sys

R = os.path.dirname(os.path.dirname(os.path.abspath(__file__)))
sys.path.insert(0, os.path.join(R, "tools"))
from props import PROPS, NOT_APPLICABLE  # noqa: E402

kf = json.load(open(f"{R}/known_findings.json"))["findings"]
seeded = []
for m in sorted(glob.glob(f"{R}/seeded/*/meta.json")):
    d = json.load(open(m))
    d["_dir"] = os.path.basename(os.path.dirname(m))
    seeded.append(d)

out = []
out.append("#### Checks registered\n")
out.append("| property | engine | level | known findings listed | repaired (`fix:` commits) | seeded changes caught / tried |")
out.append("|---|---|---|---|---|---|")
for pid in sorted(PROPS):
    p = PROPS[pid]
    known = [f["id"] for f in kf if f["property"] == pid and f["status"] == "known"]
    fixed = [f for f in kf if f["property"] == pid and f["status"] == "fixed"]
    commits = sorted({f.get("commit", "?") for f in fixed})
    mine = [s for s in seeded if s["property"] == pid]
    caught = [s for s in mine if s.get("detected_by")]
    out.append(f"| {pid} | {p['engine']} | {p.get('level', 'exploration')} | {len(known)} | {len(fixed)} ({', '.join(commits)}) | {len(caught)} / {len(mine)} |")
if NOT_APPLICABLE:
    out.append("\nNot claimed: " + ", ".join(f"{k} ({v})" for k, v in sorted(NOT_APPLICABLE.items())))

out.append("\n#### Genuine defects repaired in /repo (each reported by its check first; entry kept as a regression case)\n")
seen = set()
for f in kf:
    if f["status"] == "fixed":
        key = (f["property"], f.get("commit"))
        line = f.get("line") or f"fixed: property={f['property']} {f.get('commit')} {f['what']}"
        out.append(f"* `{f['id']}` — {line}")
out.append("\n#### Known findings (genuine defects listed, not repaired)\n")
for f in kf:
    if f["status"] == "known":
        why = f.get("why_not_fixed", "")
        out.append(f"* `{f['id']}` ({f['property']}) — {f['what']}" + (f" **Not repaired because:** {why}" if why else ""))

out.append("\n#### Seeded changes (written by independent sub-agents from the property text only) and what catches them\n")
out.append("| seeded change | breaks | needs, to manifest | caught by (tier, violations) | notes |")
out.append("|---|---|---|---|---|")
for s in seeded:
    det = "; ".join(f"{d['check']} {d['tier']} ({d.get('violations', '?')})" for d in s.get("detected_by", [])) or "**not caught**"
    notes = s.get("notes", "")
    out.append(f"| `seeded/{s['_dir']}` | {s['property']}: {s.get('breaks', '')} | {s.get('needs', '')} | {det} | {notes} |")

block = "\n".join(out)
p = f"{R}/DESIGN.md"
s = open(p).read()
b, e = "<!-- ASBUILT:BEGIN -->", "<!-- ASBUILT:END -->"
if b not in s:
    print("markers missing in DESIGN.md")
    sys.exit(1)
s = s[: s.index(b) + len(b)] + "\n" + block + "\n" + s[s.index(e):]
open(p, "w").write(s)
print(f"DESIGN.md §7 tables regenerated: {len(PROPS)} checks, {len(seeded)} seeded changes")
