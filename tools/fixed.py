#!/usr/bin/env python3
"""fixed.py <property> <id> <commit> <what> [witness]  — add or flip an entry to status=fixed."""
import json, sys
prop, fid, commit, what = sys.argv[1:5]
wit = sys.argv[5] if len(sys.argv) > 5 else None
p = '/verif/known_findings.json'; d = json.load(open(p))
e = next((f for f in d['findings'] if f['id'] == fid), None)
if e is None:
    e = {"property": prop, "id": fid}; d['findings'].append(e)
e.update({"property": prop, "status": "fixed", "commit": commit, "what": e.get("what", what) if what == "-" else what,
          "line": f"fixed: property={prop} {commit} {what if what != '-' else e.get('what','')}"})
e.pop("excludes_features", None)
if wit: e["witness"] = wit
json.dump(d, open(p, 'w'), indent=1, ensure_ascii=False); print("fixed", fid)
