#!/usr/bin/env python3
"""Validate MANIFEST.json and every evidence file against the given schemas (uses the tooling venv's jsonschema)."""
import json, sys, glob, os
import jsonschema
R = os.path.dirname(os.path.dirname(os.path.abspath(__file__)))
ok = True
m = json.load(open(f"{R}/MANIFEST.json")); jsonschema.validate(m, json.load(open("/root/.vp/MANIFEST.schema.json")))
print("MANIFEST ok:", len(m["checks"]), "checks")
es = json.load(open("/root/.vp/EVIDENCE.schema.json"))
for f in sorted(glob.glob(f"{R}/evidence/*.json")):
    try:
        jsonschema.validate(json.load(open(f)), es); print("ok", os.path.basename(f))
    except Exception as e:
        ok = False; print("BAD", f, str(e)[:300])
sys.exit(0 if ok else 1)
