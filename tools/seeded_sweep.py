#!/usr/bin/env python3
"""Run every seeded change (seeded/*/meta.json) against the checks named in its detected_by (or given on the command
line) in the scratch rig of tools/evalmut.sh and print one line per (change, check). Usage: seeded_sweep.py [tier] [ids...]"""
import glob, json, os, re, subprocess, sys
R = os.path.dirname(os.path.dirname(os.path.abspath(__file__)))
tier = sys.argv[1] if len(sys.argv) > 1 else "quick"
only = sys.argv[2:]
subprocess.run([f"{R}/tools/evalmut.sh", "sync"], check=False)
for m in sorted(glob.glob(f"{R}/seeded/*/meta.json")):
    d = json.load(open(m)); sid = d["id"]
    if only and sid not in only: continue
    checks = sorted({x["check"] for x in d.get("detected_by", [])} | {d["property"]})
    p = subprocess.run([f"{R}/tools/evalmut.sh", "run", os.path.join(os.path.dirname(m), "patch.diff"), tier] + checks,
                       stdout=subprocess.PIPE, stderr=subprocess.STDOUT, text=True)
    if "PATCH DOES NOT APPLY" in p.stdout:
        print(f"{sid}: PATCH DOES NOT APPLY at this HEAD", flush=True); continue
    for line in p.stdout.splitlines():
        if line.startswith("== "):
            mm = re.match(r"== (\S+) \S+ rc=(\d+) violation_lines=(\d+) \| .*?violations=(\d+)", line)
            if mm: print(f"{sid}: {mm.group(1)} rc={mm.group(2)} violations={mm.group(4)}", flush=True)
            else: print(f"{sid}: {line[:160]}", flush=True)
