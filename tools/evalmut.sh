#!/bin/bash
# Evaluate checks against a seeded change WITHOUT touching /repo (used while other work builds against /repo):
# a scratch worktree /tmp/eval/repo plus a copy of /verif at /tmp/eval/verif whose harness points at that worktree.
#   evalmut.sh setup | sync | run <patch.diff> <quick|thorough> <ID>... | clean
set -u
E=/tmp/eval
sync_verif() {
  mkdir -p $E/verif
  rsync -rlpc --delete --exclude harness/target --exclude .git --exclude 'replays/*' /verif/ $E/verif/
  sed -i "s#path = \"/repo#path = \"$E/repo#g" $E/verif/harness/Cargo.toml $E/verif/harness/*/Cargo.toml
}
case "$1" in
  setup)
    mkdir -p $E
    git -C /repo worktree add --detach $E/repo HEAD >/dev/null 2>&1 || true
    sync_verif
    [ -d $E/verif/harness/target ] || { cp -al /verif/harness/target $E/verif/harness/target; for f in $(find $E/verif/harness/target -name .cargo-lock); do rm -f $f; touch $f; done; }
    (cd $E/verif/harness && CARGO_NET_OFFLINE=true cargo build --release --offline --workspace 2>&1 | tail -1)
    ;;
  sync) sync_verif ;;
  run)
    patch=$2; tier=$3; shift 3
    git -C $E/repo checkout -q -- . ; git -C $E/repo clean -fdq
    git -C $E/repo apply "$patch" || { echo "PATCH DOES NOT APPLY: $patch"; exit 3; }
    for id in "$@"; do
      out=$(cd $E/verif && VERIF_ENGINE_ONLY=1 timeout 3600 ./check $id $tier 2>&1)
      rc=$?
      nv=$(echo "$out" | grep -c '^VIOLATION')
      echo "== $id $tier rc=$rc violation_lines=$nv | $(echo "$out" | grep '^SUMMARY' | tail -1 | cut -c1-160)"
      echo "$out" | grep -A1 '^VIOLATION' | head -4 | cut -c1-400
      echo "$out" | grep '^INCONCLUSIVE' | head -2 | cut -c1-300
    done
    git -C $E/repo checkout -q -- . ; git -C $E/repo clean -fdq
    ;;
  clean)
    git -C /repo worktree remove --force $E/repo 2>/dev/null; rm -rf $E; git -C /repo worktree prune ;;
esac
