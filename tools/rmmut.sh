#!/bin/bash
# rmmut.sh <ID>: remove the scratch worktree and its build output
id=$1
git -C /repo worktree remove --force /tmp/mut-$id 2>/dev/null; rm -rf /tmp/mut-$id /tmp/mut-$id-tgt; git -C /repo worktree prune
