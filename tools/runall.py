#!/usr/bin/env python3
"""Run every registered check (quick by default) and print one line per check."""
import subprocess, sys, time, os, json
sys.path.insert(0, os.path.dirname(os.path.abspath(__file__)))
from props import PROPS
tier = sys.argv[1] if len(sys.argv) > 1 else "quick"
only = sys.argv[2:]
os.makedirs("/tmp/runall", exist_ok=True)
for pid in sorted(PROPS):
    if only and pid not in only: continue
    t0 = time.time()
    p = subprocess.run(["./check", pid, tier], cwd="/verif", stdout=subprocess.PIPE, stderr=subprocess.STDOUT, text=True)
    open(f"/tmp/runall/{pid}.{tier}.log", "w").write(p.stdout)
    lines = p.stdout.splitlines()
    summ = next((l for l in reversed(lines) if l.startswith("SUMMARY")), "")
    nv = sum(1 for l in lines if l.startswith("VIOLATION")); nk = sum(1 for l in lines if l.startswith("KNOWN-FINDING")); ni = sum(1 for l in lines if l.startswith("INCONCLUSIVE"))
    print(f"{pid} rc={p.returncode} t={time.time()-t0:.0f}s viol_lines={nv} known={nk} inconcl={ni} | {summ[:150]}", flush=True)
