//! Pinned witnesses of known / fixed findings for the executor checks: fixed
//! documents over S1 whose exact (wrong) observation forms the signature.

use serde_json::{Value as J, json};
use vh_core::Run;
use vh_core::vsched::FifoChooser;
use vh_model::doc::*;
use vh_model::gen_doc::GenDoc;
use vh_model::world::{Fault, World};
use vh_model::Val;
use vh_schema::compare::observe;
use vh_schema::{Env, s1};

use crate::common::*;

fn field(doc: &mut Doc, name: &str, args: Vec<(&str, Val)>, sel: Vec<Sel>) -> Sel {
    let id = doc.fresh_id();
    Sel::Field(FieldSel {
        id,
        alias: None,
        name: name.into(),
        args: args.into_iter().map(|(k, v)| (k.to_string(), v)).collect(),
        dirs: vec![],
        sel,
    })
}

fn case_of(doc: Doc, world: World) -> Case {
    let gd = GenDoc { doc, op_name: None, vars: json!({}), features: Default::default() };
    Case::new(s1::model(), gd, world, false)
}

fn op(kind: OpKind, sel: Vec<Sel>) -> Op {
    Op { kind, name: if kind == OpKind::Query { None } else { Some("W".into()) }, vars: vec![], dirs: vec![], sel }
}

/// C04: the same response key twice, and the same fragment spread twice.
pub fn c04(run: &Run) {
    let schema = AnySchema::S1(s1::schema());
    let mut obs: Vec<String> = vec![];
    // mutation { incr(by: 1) { value } incr(by: 1) { value } }
    let mut d = Doc::default();
    let v1 = field(&mut d, "value", vec![], vec![]);
    let a = field(&mut d, "incr", vec![("by", Val::Int(1))], vec![v1]);
    let v2 = field(&mut d, "value", vec![], vec![]);
    let b = field(&mut d, "incr", vec![("by", Val::Int(1))], vec![v2]);
    d.ops = vec![op(OpKind::Mutation, vec![a, b])];
    let case = case_of(d, World::new(7));
    let (_, events, _) = run_scheduled(&schema, &case, &mut FifoChooser);
    run.eval();
    obs.push(format!("[{}] {}", case.printed.text, crate::c04::check_once(&events).join("; ")));
    // { ...F ...F } fragment F on Query { echoInt(v: 1) }
    let mut d = Doc::default();
    let e = field(&mut d, "echoInt", vec![("v", Val::Int(1))], vec![]);
    let s1id = d.fresh_id();
    let s2id = d.fresh_id();
    d.frags = vec![Frag { name: "F".into(), cond: "Query".into(), sel: vec![e] }];
    d.ops = vec![op(
        OpKind::Query,
        vec![Sel::Spread { id: s1id, name: "F".into(), dirs: vec![] }, Sel::Spread { id: s2id, name: "F".into(), dirs: vec![] }],
    )];
    let case = case_of(d, World::new(7));
    let (_, events, _) = run_scheduled(&schema, &case, &mut FifoChooser);
    run.eval();
    obs.push(format!("[{}] {}", case.printed.text, crate::c04::check_once(&events).join("; ")));
    let clean = obs.iter().all(|o| o.ends_with("] "));
    if clean {
        run.count("witness_C04_merged_fields_now_clean", 1);
    } else {
        run.violation(
            &format!("C04-merged-fields-resolved-per-occurrence|{}", obs.join(" | ")),
            &format!("pinned witness: {}", obs.join(" | ")),
            json!({"witness": "C04-merged-fields", "observed": obs}),
        );
    }
}

fn execute(schema: &AnySchema, case: &Case) -> (J, usize, Vec<String>) {
    let env = Env::new(case.ts.clone(), case.world.clone());
    let resp = schema.execute(case.request(&env));
    let o = observe(&resp);
    let paths = o.errors.iter().map(|e| e.path.as_ref().map(|p| vh_model::exec::path_str(p)).unwrap_or("<none>".into())).collect();
    (o.data, o.errors.len(), paths)
}

/// C03: a failing field selected twice reports its error twice.
pub fn c03_merged(run: &Run) {
    let schema = AnySchema::S1(s1::schema());
    let mut d = Doc::default();
    let a = field(&mut d, "echoOpt", vec![("v", Val::Int(1))], vec![]);
    let b = field(&mut d, "echoOpt", vec![("v", Val::Int(1))], vec![]);
    let n = field(&mut d, "dog", vec![], vec![]);
    let _ = n;
    d.ops = vec![op(OpKind::Query, vec![a, b])];
    // echoOpt is String! so use a nullable field instead: dog(i: 1) { risky risky }
    let mut d = Doc::default();
    let r1 = field(&mut d, "risky", vec![], vec![]);
    let r2 = field(&mut d, "risky", vec![], vec![]);
    let dog = field(&mut d, "dog", vec![("i", Val::Int(1))], vec![r1, r2]);
    d.ops = vec![op(OpKind::Query, vec![dog])];
    // find a world in which dog(i:1) is not null
    let mut seed = 1u64;
    let case = loop {
        let c = case_of(d.clone(), World::new(seed));
        if c.reference().data["dog"].is_object() {
            break c;
        }
        seed += 1;
    };
    let faulted = Case { world: case.world.with_faults(&[("dog.risky".into(), Fault::Err)]), ..case };
    let (data, nerr, paths) = execute(&schema, &faulted);
    run.eval();
    let observed = format!("{} -> data {} ; {} error(s) at {:?}", faulted.printed.text, data, nerr, paths);
    if nerr == 1 && data["dog"]["risky"].is_null() {
        run.count("witness_C03_merged_now_clean", 1);
    } else {
        run.violation(
            &format!("C03-merged-field-error-reported-per-occurrence|{observed}"),
            &format!("pinned witness: {observed}"),
            json!({"witness": "C03-merged-field-error-twice", "observed": observed}),
        );
    }
}

/// C03: a non-finite float at a Float! position yields null without an error.
pub fn c03_float(run: &Run) {
    let schema = AnySchema::S1(s1::schema());
    let mut d = Doc::default();
    let w = field(&mut d, "weight", vec![], vec![]);
    let dog = field(&mut d, "dog", vec![("i", Val::Int(2))], vec![w]);
    d.ops = vec![op(OpKind::Query, vec![dog])];
    let mut seed = 1u64;
    let case = loop {
        let c = case_of(d.clone(), World::new(seed));
        if c.reference().data["dog"].is_object() {
            break c;
        }
        seed += 1;
    };
    let faulted = Case { world: case.world.with_faults(&[("dog.weight".into(), Fault::BadLeaf)]), ..case };
    let (data, nerr, paths) = execute(&schema, &faulted);
    run.eval();
    let observed = format!("{} with a NaN weight -> data {} ; {} error(s) at {:?}", faulted.printed.text, data, nerr, paths);
    // expected: Float! cannot be null -> error at dog.weight and dog: null
    if nerr == 1 && data["dog"].is_null() {
        run.count("witness_C03_float_now_clean", 1);
    } else {
        run.violation(
            &format!("C03-static-nonfinite-float-null-without-error|{observed}"),
            &format!("pinned witness: {observed}"),
            json!({"witness": "C03-static-nonfinite-float", "observed": observed}),
        );
    }
}

/// C06: (a) a variable value of the wrong kind does not fail the request before
/// execution; (b) dynamic resolvers receive values without nested coercion.
pub fn c06(run: &Run) {
    use vh_model::types::{ArgDef, FieldDef, Kind, Ty, TypeDef, TypeSystem};
    use vh_model::doc::VarDef;
    // (a) static S1: query($v: Range, $n: String) { echoInt(v: 1) echoFilter(f: {range: $v, name: $n}) }  with {"v": 3.5}
    let schema = AnySchema::S1(s1::schema());
    let mut d = Doc::default();
    let a = field(&mut d, "echoInt", vec![("v", Val::Int(1))], vec![]);
    // validation checks variable values through the arguments that use them and skips an argument that also
    // mentions a variable the request does not supply ($n here): the bad value of $v then reaches execution
    let b = field(&mut d, "echoFilter", vec![("f", Val::Obj(vec![("range".into(), Val::Var("v".into())), ("name".into(), Val::Var("n".into()))]))], vec![]);
    d.ops = vec![Op {
        kind: OpKind::Query,
        name: None,
        vars: vec![
            VarDef { name: "v".into(), ty: Ty::named("Range"), default: None },
            VarDef { name: "n".into(), ty: Ty::named("String"), default: None },
        ],
        dirs: vec![],
        sel: vec![a, b],
    }];
    let gd = GenDoc { doc: d, op_name: None, vars: json!({"v": 3.5}), features: Default::default() };
    let case = Case::new(s1::model(), gd, World::new(3), false);
    let env = Env::new(case.ts.clone(), case.world.clone());
    let resp = schema.execute(case.request(&env));
    run.eval();
    let o = observe(&resp);
    let ran: Vec<String> = env.log.snapshot().iter().filter(|e| e.kind == vh_schema::Ek::Start).map(|e| e.path.clone()).collect();
    let observed = format!(
        "{} with {{\"v\": 3.5}} -> resolvers ran {:?}; {} error(s) at {:?}",
        case.printed.text,
        ran,
        o.errors.len(),
        o.errors.iter().map(|e| e.path.as_ref().map(|p| vh_model::exec::path_str(p)).unwrap_or("<none>".into())).collect::<Vec<_>>()
    );
    if ran.is_empty() && !o.errors.is_empty() {
        run.count("witness_C06_variable_coercion_now_clean", 1);
    } else {
        run.violation(
            &format!("C06-no-variable-coercion-step|{observed}"),
            &format!("pinned witness: {observed}"),
            json!({"witness": "C06-no-variable-coercion-step", "observed": observed}),
        );
    }
    // (b) dynamic: input In { a: Int = 5 }  type Query { f(x: In, l: [Int]): Int }   { f(x: {}, l: 3) }
    let mut ts = TypeSystem::new("Query");
    ts.add(TypeDef {
        name: "In".into(),
        kind: Kind::Input { fields: vec![ArgDef { name: "a".into(), ty: Ty::named("Int"), default: Some(Val::Int(5)) }], oneof: false },
    });
    ts.add(TypeDef {
        name: "Query".into(),
        kind: Kind::Object {
            fields: vec![FieldDef {
                name: "f".into(),
                args: vec![
                    ArgDef { name: "x".into(), ty: Ty::named("In"), default: None },
                    ArgDef { name: "l".into(), ty: Ty::named("Int").list(), default: None },
                ],
                ty: Ty::named("Int"),
            }],
            implements: vec![],
        },
    });
    let ts = std::sync::Arc::new(ts);
    let dschema = AnySchema::Dyn(vh_schema::dynb::build(&ts).expect("witness schema builds"));
    let mut d = Doc::default();
    let f = field(&mut d, "f", vec![("x", Val::Obj(vec![])), ("l", Val::Int(3))], vec![]);
    d.ops = vec![op(OpKind::Query, vec![f])];
    let gd = GenDoc { doc: d, op_name: None, vars: json!({}), features: Default::default() };
    let case = Case::new(ts.clone(), gd, World::new(3), false);
    let env = Env::new(case.ts.clone(), case.world.clone());
    let _ = dschema.execute(case.request(&env));
    run.eval();
    let got: Vec<String> = env
        .log
        .snapshot()
        .iter()
        .filter(|e| e.kind == vh_schema::Ek::Start)
        .map(|e| e.args.as_ref().map(|a| a.gql()).unwrap_or_default())
        .collect();
    let observed = format!("input In {{ a: Int = 5 }} type Query {{ f(x: In, l: [Int]): Int }}: {} -> resolver received {:?}", case.printed.text, got);
    if got == vec!["{x: {a: 5}, l: [3]}".to_string()] {
        run.count("witness_C06_dynamic_nested_coercion_now_clean", 1);
    } else {
        run.violation(
            &format!("C06-dynamic-values-without-nested-coercion|{observed}"),
            &format!("pinned witness: {observed}"),
            json!({"witness": "C06-dynamic-values-without-nested-coercion", "observed": observed}),
        );
    }
}
