//! C30 — extensions are transparent and run their hooks in lifecycle order.

use std::cell::RefCell;
use std::sync::Arc;

use async_graphql::extensions::*;
use async_graphql::parser::types::ExecutableDocument;
use async_graphql::{Request, Response, ServerError, ServerResult, ValidationResult, Value, Variables};
use serde_json::{Value as J, json};
use vh_core::{Run, catch, rng};
use vh_model::doc::OpKind;
use vh_model::gen_doc::gen_doc;
use vh_model::gen_ts::gen_type_system;
use vh_schema::{Env, dynb, s1};

use crate::common::*;

thread_local! {
    static HOOKS: RefCell<Vec<(usize, &'static str, bool, String)>> = const { RefCell::new(Vec::new()) };
}

fn log(k: usize, hook: &'static str, enter: bool, tag: &str) {
    HOOKS.with(|h| h.borrow_mut().push((k, hook, enter, tag.to_string())));
}

/// Pass-through extension number `k` (1-based, registration order) that records every hook.
struct Recorder(usize);
struct RecorderExt(usize);

impl ExtensionFactory for Recorder {
    fn create(&self) -> Arc<dyn Extension> {
        Arc::new(RecorderExt(self.0))
    }
}

#[async_graphql::async_trait::async_trait]
impl Extension for RecorderExt {
    async fn request(&self, ctx: &ExtensionContext<'_>, next: NextRequest<'_>) -> Response {
        log(self.0, "request", true, "");
        let r = next.run(ctx).await;
        log(self.0, "request", false, "");
        r
    }
    async fn prepare_request(&self, ctx: &ExtensionContext<'_>, request: Request, next: NextPrepareRequest<'_>) -> ServerResult<Request> {
        log(self.0, "prepare_request", true, "");
        let r = next.run(ctx, request).await;
        log(self.0, "prepare_request", false, "");
        r
    }
    async fn parse_query(
        &self,
        ctx: &ExtensionContext<'_>,
        query: &str,
        variables: &Variables,
        next: NextParseQuery<'_>,
    ) -> ServerResult<ExecutableDocument> {
        log(self.0, "parse_query", true, "");
        let r = next.run(ctx, query, variables).await;
        log(self.0, "parse_query", false, "");
        r
    }
    async fn validation(&self, ctx: &ExtensionContext<'_>, next: NextValidation<'_>) -> Result<ValidationResult, Vec<ServerError>> {
        log(self.0, "validation", true, "");
        let r = next.run(ctx).await;
        log(self.0, "validation", false, "");
        r
    }
    async fn execute(&self, ctx: &ExtensionContext<'_>, operation_name: Option<&str>, next: NextExecute<'_>) -> Response {
        log(self.0, "execute", true, "");
        let r = next.run(ctx, operation_name).await;
        log(self.0, "execute", false, "");
        r
    }
    async fn resolve(&self, ctx: &ExtensionContext<'_>, info: ResolveInfo<'_>, next: NextResolve<'_>) -> ServerResult<Option<Value>> {
        let tag = info.path_node.to_string();
        log(self.0, "resolve", true, &tag);
        let r = next.run(ctx, info).await;
        log(self.0, "resolve", false, &tag);
        r
    }
}

const LIFECYCLE: [&str; 5] = ["request", "prepare_request", "parse_query", "validation", "execute"];

/// Check nesting, lifecycle order and (optionally) the resolve count.
fn check_hooks(
    n_ext: usize,
    hooks: &[(usize, &'static str, bool, String)],
    expect_all: bool,
    resolve_positions: Option<(&[(String, vh_model::Ty)], bool)>,
) -> Vec<String> {
    let mut out = vec![];
    let mut stack: Vec<(usize, &'static str, &str)> = vec![];
    for (k, hook, enter, tag) in hooks {
        if *enter {
            if *k > 1 {
                match stack.last() {
                    Some((pk, ph, pt)) if *pk == k - 1 && ph == hook && pt == tag => {}
                    other => out.push(format!("extension {k} entered {hook}({tag}) but the enclosing hook is {other:?}, expected extension {} in the same hook", k - 1)),
                }
            }
            stack.push((*k, hook, tag));
        } else {
            match stack.pop() {
                Some((pk, ph, pt)) if pk == *k && ph == *hook && pt == tag => {}
                other => out.push(format!("extension {k} left {hook}({tag}) but the innermost open hook is {other:?}")),
            }
            if *k < n_ext {
                // the inner extension must have run in between (pass-through chain)
            }
        }
        if out.len() > 3 {
            return out;
        }
    }
    if !stack.is_empty() {
        out.push(format!("hooks left open at the end: {stack:?}"));
    }
    for k in 1..=n_ext {
        let seq: Vec<&str> = hooks.iter().filter(|h| h.0 == k && h.2 && h.1 != "resolve").map(|h| h.1).collect();
        // each at most once, in lifecycle order (a prefix when the request fails early)
        let is_prefix = seq.len() <= LIFECYCLE.len() && seq.iter().zip(LIFECYCLE.iter()).all(|(a, b)| a == b);
        if !is_prefix {
            out.push(format!("extension {k}: lifecycle hooks ran as {seq:?}, expected a prefix of {LIFECYCLE:?}"));
        }
        if expect_all && seq.len() != LIFECYCLE.len() {
            out.push(format!("extension {k}: a successful request ran only {seq:?}"));
        }
        if let Some((positions, exact_count)) = resolve_positions {
            // (R) one resolve hook per completed position. Where the same response key was written more than
            // once in a selection set the crate resolves it once per occurrence (known finding of C04, judged
            // there): the hook then legitimately runs once per resolution, so only the *set* of hooked
            // positions is compared for such documents.
            let hooked: Vec<&str> = hooks.iter().filter(|h| h.0 == k && h.2 && h.1 == "resolve").map(|h| h.3.as_str()).collect();
            let want: std::collections::BTreeSet<&str> = positions.iter().map(|p| p.0.as_str()).collect();
            let got: std::collections::BTreeSet<&str> = hooked.iter().copied().collect();
            if want != got {
                let missing: Vec<&&str> = want.difference(&got).take(4).collect();
                let extra: Vec<&&str> = got.difference(&want).take(4).collect();
                out.push(format!("extension {k}: resolve hook positions differ from the resolved fields and list items: no hook for {missing:?}, hook without a resolved position {extra:?}"));
            } else if exact_count && hooked.len() != positions.len() {
                out.push(format!("extension {k}: resolve hook ran {} times, {} fields and list items were resolved", hooked.len(), positions.len()));
            }
        }
    }
    out
}

fn full(resp: &Response) -> J {
    let mut j = serde_json::to_value(resp).unwrap_or(J::Null);
    j["__cache_control"] = json!(format!("{:?}", resp.cache_control));
    let mut headers: Vec<String> = resp.http_headers.iter().map(|(k, v)| format!("{k}:{v:?}")).collect();
    headers.sort();
    j["__http_headers"] = json!(headers);
    j
}

fn build(ts: Option<&Arc<vh_model::TypeSystem>>, n_ext: usize) -> Option<AnySchema> {
    match ts {
        None => {
            let mut b = s1::builder();
            for k in 1..=n_ext {
                b = b.extension(Recorder(k));
            }
            Some(AnySchema::S1(b.finish()))
        }
        Some(ts) => {
            let mut b = dynb::builder(ts);
            for k in 1..=n_ext {
                b = b.extension(Recorder(k));
            }
            b.finish().ok().map(AnySchema::Dyn)
        }
    }
}

pub fn main() {
    let mut run = Run::from_args(
        "exploration",
        "generated queries and mutations (valid ones, plus variants with a syntax error, an unknown field or an unknown \
         operation name) executed on schemas with 0, 1, 2 and 3 recording pass-through extensions (static S1 and \
         generated dynamic schemas); the monitor asserts (T) identical response JSON, cache policy and headers across \
         the stacks, (N) hooks nested in registration order, (L) request, prepare_request, parse_query, validation, \
         execute each at most once and in that order (all five for a request that executes), (R) resolve hook count = \
         number of fields and list items the reference executor completes. Non-trivial = request that executes with \
         >= 2 extensions; distinct by (document, variables, world, stack size)",
    );
    run.assume("__typename is answered without a resolve hook (it has no resolver)");
    let cases = run.scale(3_000, 150_000);
    run.set_floors(3000, 500);
    run.require_counter("hook_events");
    let shards = n_shards(&run);
    let run = &run;
    let statics = static_family(run);
    let statics = &statics;
    std::thread::scope(|sc| {
        for shard in 0..shards {
            sc.spawn(move || {
                let mut r = shard_rng(run, 30, shard);
                let s1ts = s1::model();
                let s1schemas: Vec<AnySchema> = (0..=3).map(|n| build(None, n).unwrap()).collect();
                // the generated derive-built family (harness/gens), each member with 0..3 recorders like S1
                let family: Vec<(&'static str, Arc<vh_model::TypeSystem>, Vec<AnySchema>)> = statics
                    .iter()
                    .filter_map(|m| m.exec.as_ref().map(|e| (m, e)))
                    .map(|(m, e)| {
                        let stacks = (0..=3usize)
                            .map(|n| AnySchema::Gen(e.with_extensions((1..=n).map(|k| Arc::new(Recorder(k)) as Arc<dyn ExtensionFactory>).collect())))
                            .collect();
                        (m.name, m.ts.clone(), stacks)
                    })
                    .collect();
                let mut dynamic: Option<(Arc<vh_model::TypeSystem>, Vec<AnySchema>)> = None;
                let mut i = shard;
                while i < cases {
                    i += shards;
                    let (ts, schemas) = if r.bool() {
                        // static flavour: S1, or (a third of these) a member of the generated family
                        if !family.is_empty() && r.chance(1, 3) {
                            let f = &family[r.below(family.len())];
                            run.count(&format!("static_cases_{}", f.0), 1);
                            (f.1.clone(), f.2.clone())
                        } else {
                            run.count("static_cases_S1", 1);
                            (s1ts.clone(), s1schemas.clone())
                        }
                    } else {
                        if dynamic.is_none() || r.chance(1, 8) {
                            let ts = Arc::new(gen_type_system(&mut r, &ts_opts(run)));
                            let v: Vec<Option<AnySchema>> = (0..=3).map(|n| catch(|| build(Some(&ts), n)).ok().flatten()).collect();
                            if v.iter().all(|x| x.is_some()) {
                                dynamic = Some((ts, v.into_iter().map(|x| x.unwrap()).collect()));
                            }
                        }
                        match &dynamic {
                            Some(d) => d.clone(),
                            None => continue,
                        }
                    };
                    let mut o = doc_opts(run);
                    o.max_depth = 3;
                    o.kind = if ts.mutation.is_some() && r.chance(1, 5) { OpKind::Mutation } else { OpKind::Query };
                    let gd = gen_doc(&ts, &mut r, &o);
                    let world = world_for(schemas[0].flavour(), r.next_u64());
                    let mut case = Case::new(ts.clone(), gd, world, r.bool());
                    let variant = r.below(8);
                    let mut valid = true;
                    match variant {
                        0 => {
                            // syntax error: cut the text inside the operation
                            let cut = case.printed.text.len() / 2;
                            let mut t: String = case.printed.text.chars().take(cut.max(1)).collect();
                            t.push_str(" {{{");
                            case.printed.text = t;
                            valid = false;
                        }
                        1 => {
                            case.printed.text = case.printed.text.replacen('{', "{ zzUnknownField ", 1);
                            valid = false;
                        }
                        2 => {
                            case.gd.op_name = Some("NoSuchOperation".into());
                            valid = false;
                        }
                        _ => {}
                    }
                    one(run, &schemas, &case, valid);
                }
            });
        }
    });
    run.extra("static_schemas", static_family_extra(statics));
    run.finish_code_exit();
}

fn one(run: &Run, schemas: &[AnySchema], case: &Case, valid: bool) {
    let reference = if valid { Some(case.reference()) } else { None };
    if let Some(r) = &reference {
        run.count(if r.merged_groups > 0 { "cases_with_repeated_key_set_compare" } else { "cases_exact_resolve_count" }, 1);
    }
    let executes = reference.as_ref().map(|r| r.request_error.is_none()).unwrap_or(false);
    let mut base: Option<J> = None;
    for (n, schema) in schemas.iter().enumerate() {
        HOOKS.with(|h| h.borrow_mut().clear());
        let env = Env::new(case.ts.clone(), case.world.clone());
        // one request in four arrives with its document already parsed (as the persisted-query path and callers of
        // Request::set_parsed_query do): the lifecycle — parse_query hook included — must be the same
        let preparsed = valid && case.hash() % 4 == 0;
        let mut request = case.request(&env);
        if preparsed {
            if let Ok(doc) = async_graphql::parser::parse_query(&case.printed.text) {
                request.set_parsed_query(doc);
                run.count("requests_with_preparsed_document", 1);
            }
        }
        let resp = match catch(|| schema.execute(request)) {
            Ok(r) => r,
            Err(p) => {
                run.violation(&format!("C30-panic:{:x}", case.hash()), &format!("executor panicked with {n} extensions: {p}"), case.replay_json(schema.flavour()));
                return;
            }
        };
        run.eval();
        let hooks = HOOKS.with(|h| h.borrow().clone());
        run.count("hook_events", hooks.len() as u64);
        let j = full(&resp);
        if executes && n >= 2 {
            run.nontrivial(rng::mix(&[case.hash(), n as u64]));
        }
        run.seen("variants", if valid { "valid" } else { "invalid" });
        let mut problems = vec![];
        match &base {
            None => base = Some(j.clone()),
            Some(b) => {
                if *b != j {
                    problems.push(format!("response with {n} pass-through extensions differs from the response without extensions: {j} vs {b}"));
                }
            }
        }
        if n > 0 {
            let positions = match &reference {
                Some(r) if executes && r.errors.is_empty() => Some((r.positions.as_slice(), r.merged_groups == 0)),
                _ => None,
            };
            problems.extend(check_hooks(n, &hooks, executes, positions));
        }
        if !problems.is_empty() {
            let mut rj = case.replay_json(schema.flavour());
            rj["extensions"] = json!(n);
            rj["hooks"] = json!(hooks.iter().take(200).map(|h| format!("{}:{}:{}:{}", h.0, h.1, if h.2 { "enter" } else { "exit" }, h.3)).collect::<Vec<_>>());
            problems.truncate(4);
            run.violation(
                &format!("C30:{:x}", rng::mix(&[case.hash(), n as u64])),
                &format!("[{} ext={n}] {} | doc: {}", schema.flavour(), problems.join("; "), case.printed.text),
                rj,
            );
            return;
        }
        run.sample_upto(
            3,
            json!({"flavour": schema.flavour(), "extensions": n, "document": case.printed.text,
                   "hooks": hooks.iter().take(30).map(|h| format!("{}:{}:{}:{}", h.0, h.1, if h.2 { "enter" } else { "exit" }, h.3)).collect::<Vec<_>>()}),
        );
    }
}
