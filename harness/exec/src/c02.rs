//! C02 — query results follow spec field collection and completion (dynamic schemas).

use std::sync::Arc;

use serde_json::json;
use vh_core::{Run, catch, rng};
use vh_model::doc::OpKind;
use vh_model::gen_doc::gen_doc;
use vh_model::gen_ts::gen_type_system;
use vh_schema::compare::{ErrMode, compare, observe};
use vh_schema::{Env, dynb};

use crate::common::*;

pub fn main() {
    let mut run = Run::from_args(
        "exploration",
        "random dynamic type systems (objects, interfaces incl. inheritance, unions, enums, custom scalars with \
         validators, input objects incl. oneOf) built through async_graphql::dynamic; valid-by-construction operations \
         (aliases, repeated keys, inline/named fragments on object/interface/union conditions, @skip/@include from \
         literals, variables and variable defaults, variables in every supply mode) executed by the real executor with \
         data-driven resolvers; response data compared (key order included) with the reference executor R1 on the same \
         data world. Non-trivial = document uses at least one fragment, directive, repeated key or variable; distinct by \
         hash of (schema, document, variables, world)",
    );
    run.assume("reference executor R1 and coercion model (harness/model) implement GraphQL spec Oct-2021 §6");
    run.assume("documents are valid by construction (response-key table argument in gen_doc.rs)");
    let schemas = run.scale(2_000, 50_000);
    let docs_per = run.scale(12, 20);
    run.set_floors(1000, 300);
    run.require_counter("resolver_events");
    let shards = n_shards(&run);
    let run = &run;
    std::thread::scope(|sc| {
        for shard in 0..shards {
            sc.spawn(move || {
                let mut r = shard_rng(run, 2, shard);
                let mut i = shard;
                while i < schemas {
                    i += shards;
                    let ts = Arc::new(gen_type_system(&mut r, &ts_opts(run)));
                    let schema = match catch(|| dynb::build(&ts)) {
                        Ok(Ok(s)) => s,
                        Ok(Err(e)) => {
                            run.count("schema_build_failed", 1);
                            run.sample_upto(8, json!({"schema_build_failed": e, "sdl": ts.sdl()}));
                            continue;
                        }
                        Err(p) => {
                            run.violation(
                                &format!("C02-build-panic:{:x}", rng::hash_str(&ts.sdl())),
                                &format!("building a valid dynamic schema panicked: {p}"),
                                json!({"schema_sdl": ts.sdl()}),
                            );
                            continue;
                        }
                    };
                    run.count("schemas_built", 1);
                    let schema = AnySchema::Dyn(schema);
                    for _ in 0..docs_per {
                        let mut o = doc_opts(run);
                        o.kind = if ts.mutation.is_some() && r.chance(1, 5) { OpKind::Mutation } else { OpKind::Query };
                        let gd = gen_doc(&ts, &mut r, &o);
                        let world = world_for("dynamic", r.next_u64());
                        let case = Case::new(ts.clone(), gd, world, r.bool());
                        one(run, &schema, &case);
                    }
                }
            });
        }
    });
    run.finish_code_exit();
}

pub fn one(run: &Run, schema: &AnySchema, case: &Case) {
    let tag = run.prop.clone();
    let reference = case.reference();
    let env = Env::new(case.ts.clone(), case.world.clone());
    let resp = match catch(|| schema.execute(case.request(&env))) {
        Ok(r) => r,
        Err(p) => {
            run.violation(
                &format!("{tag}-panic:{:x}", case.hash()),
                &format!("executor panicked: {p}"),
                case.replay_json(schema.flavour()),
            );
            return;
        }
    };
    run.eval();
    run.count("resolver_events", env.log.len() as u64);
    for f in &case.gd.features {
        run.seen("features", f);
    }
    if !case.gd.features.is_empty() {
        run.nontrivial(case.hash());
    }
    run.sample(json!({"document": case.printed.text, "variables": case.gd.vars, "response": serde_json::to_value(&resp).unwrap_or_default()}));
    let obs = observe(&resp);
    let mode = if reference.errors.is_empty() { ErrMode::NoErrorsExpected } else { ErrMode::DataOnly };
    if !reference.errors.is_empty() {
        run.count("cases_with_reference_field_errors", 1);
    }
    let diffs = compare(&obs, &reference, &case.printed, mode);
    if !diffs.is_empty() {
        let mut rj = case.replay_json(schema.flavour());
        rj["observed"] = obs.raw.clone();
        rj["expected_data"] = reference.data.clone();
        rj["expected_request_error"] = json!(reference.request_error);
        run.violation(&format!("{tag}:{:x}", case.hash()), &format!("{} | doc: {}", diffs.join("; "), case.printed.text), rj);
    }
}
