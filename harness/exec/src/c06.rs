//! C06 — resolvers receive exactly the spec-coerced argument values.
//! Monitor: the Start events of the resolver log carry what each resolver
//! received; they are joined by response path with the reference executor's
//! CoerceArgumentValues result, projected through the view of the receiving
//! type (Option<T> cannot tell null from omitted, MaybeUndefined<T> and the
//! dynamic ObjectAccessor can).

use std::collections::BTreeMap;
use std::sync::Arc;

use serde_json::{Value as J, json};
use vh_core::{Rng, Run, catch, rng};
use vh_model::doc::OpKind;
use vh_model::gen_doc::gen_doc;
use vh_model::gen_ts::gen_type_system;
use vh_model::{ArgDef, Kind, Ty, TypeSystem, Val};
use vh_schema::compare::observe;
use vh_schema::{Ek, Env, dynb, s1};

use crate::common::*;

/// (type or "Type.field", name) pairs of S1 whose Rust type is MaybeUndefined<T>.
fn maybe_undefined(owner: &str, name: &str) -> bool {
    matches!((owner, name), ("Query.echoMaybe", "v") | ("Filter", "note")) || vh_schema::genrt::mu_by_name(owner, name)
}

/// Project a coerced value through what a static Rust type of that GraphQL type can see.
fn project_static_value(ts: &TypeSystem, ty: &Ty, v: &Val) -> Val {
    match (ty.nullable(), v) {
        (_, Val::Null) => Val::Null,
        (Ty::List(item), Val::List(xs)) => Val::List(xs.iter().map(|x| project_static_value(ts, item, x)).collect()),
        (Ty::Named(n), Val::Obj(m)) => match ts.kind(n) {
            Kind::Input { fields, oneof } => {
                if *oneof {
                    return Val::Obj(
                        m.iter()
                            .map(|(k, x)| {
                                let fty = fields.iter().find(|f| &f.name == k).map(|f| f.ty.clone()).unwrap_or(Ty::named("String"));
                                (k.clone(), project_static_value(ts, &fty, x))
                            })
                            .collect(),
                    );
                }
                let mut out = vec![];
                for f in fields {
                    match m.iter().find(|(k, _)| k == &f.name) {
                        Some((_, x)) => out.push((f.name.clone(), project_static_value(ts, &f.ty, x))),
                        None if maybe_undefined(n, &f.name) => {}
                        None => out.push((f.name.clone(), Val::Null)),
                    }
                }
                Val::Obj(out)
            }
            _ => v.clone(),
        },
        _ => v.clone(),
    }
}

fn project_static(ts: &TypeSystem, owner: &str, defs: &[ArgDef], expected: &[(String, Val)]) -> Val {
    let mut out = vec![];
    for d in defs {
        match expected.iter().find(|(k, _)| k == &d.name) {
            Some((_, v)) => out.push((d.name.clone(), project_static_value(ts, &d.ty, v))),
            None if maybe_undefined(owner, &d.name) => {}
            None => out.push((d.name.clone(), Val::Null)),
        }
    }
    Val::Obj(out)
}

/// Dynamic resolvers see values through accessors that read an enum given as a
/// string or as an enum alike, and numbers by value; normalise those
/// representations (only), keeping structure, nulls, omissions and defaults.
fn normalise_dynamic(ts: &TypeSystem, ty: &Ty, v: &Val) -> Val {
    match (ty.nullable(), v) {
        (_, Val::Null) => Val::Null,
        (Ty::List(item), Val::List(xs)) => Val::List(xs.iter().map(|x| normalise_dynamic(ts, item, x)).collect()),
        (Ty::Named(n), v) => match (ts.kind(n), v) {
            (Kind::Enum(_), Val::Str(s)) => Val::Enum(s.clone()),
            (Kind::Scalar(vh_model::ScalarKind::ID), Val::Int(i)) => Val::Str(i.to_string()),
            (Kind::Scalar(vh_model::ScalarKind::Float), Val::Int(i)) => Val::Float(*i as f64),
            (Kind::Input { fields, .. }, Val::Obj(m)) => Val::Obj(
                m.iter()
                    .map(|(k, x)| match fields.iter().find(|f| &f.name == k) {
                        Some(f) => (k.clone(), normalise_dynamic(ts, &f.ty, x)),
                        None => (k.clone(), x.clone()),
                    })
                    .collect(),
            ),
            _ => v.clone(),
        },
        _ => v.clone(),
    }
}

/// Apply the reference coercion to what a dynamic resolver received (input-field
/// defaults, single value -> list); top-level presence/absence is kept.
pub fn recoerce_dynamic(ts: &TypeSystem, defs: &[ArgDef], received: &Val) -> Val {
    let Val::Obj(m) = received else { return received.clone() };
    let empty = vh_model::coerce::Vars::new();
    Val::Obj(
        m.iter()
            .map(|(k, v)| match defs.iter().find(|d| &d.name == k) {
                Some(d) => match vh_model::coerce::coerce(ts, &d.ty, v, Some(&empty), true) {
                    Ok(vh_model::coerce::C::V(x)) => (k.clone(), x),
                    _ => (k.clone(), v.clone()),
                },
                None => (k.clone(), v.clone()),
            })
            .collect(),
    )
}

pub fn normalise_dynamic_args(ts: &TypeSystem, defs: &[ArgDef], m: &[(String, Val)]) -> Val {
    Val::Obj(
        m.iter()
            .map(|(k, v)| match defs.iter().find(|d| &d.name == k) {
                Some(d) => (k.clone(), normalise_dynamic(ts, &d.ty, v)),
                None => (k.clone(), v.clone()),
            })
            .collect(),
    )
}

pub fn main() {
    let mut run = Run::from_args(
        "exploration",
        "(an evaluation is one executed request or one resolver call whose received arguments were compared) generated operations over S1 (echo fields for every receiving Rust type: T, Option<T>, MaybeUndefined<T>, Vec, \
         nested lists, enums, ID, Float, input objects with defaults, oneOf) and over generated dynamic schemas; argument \
         values supplied as literals, variables, nested variables, omitted variables, explicit nulls, with defaults at \
         variable, argument and input-field level; 10% of cases carry a variable value of the wrong JSON kind. Each \
         resolver logs what it received; the monitor joins the log with R1's CoerceArgumentValues per response path: equal \
         after projection through the receiving type's view, no resolver event where coercion fails (and an error in the \
         response), no event at all when variable coercion fails. Non-trivial = call with at least one argument supplied \
         by variable, default or null; distinct by (path, canonical received args, document hash)",
    );
    run.assume("reference coercion (harness/model/coerce.rs) implements spec §3 input coercion, §6.1.2 and §6.4.1");
    run.assume("Option<T> cannot distinguish null from omitted; MaybeUndefined<T> and dynamic ObjectAccessor can: expected values are projected accordingly");
    run.assume("dynamic accessors read enum-as-string, ID-as-int and Float-as-int by value; those representations are normalised, structure/defaults/nulls are not");
    let cases = run.scale(10_000, 500_000);
    run.set_floors(5000, 1000);
    run.require_counter("calls_compared");
    run.require_counter("hostile_values_executed_without_validation");
    run.require_counter("calls_with_failing_coercion");
    let shards = n_shards(&run);
    let run = &run;
    crate::witness::c06(run);
    let statics = static_family(run);
    let statics = &statics;
    std::thread::scope(|sc| {
        for shard in 0..shards {
            sc.spawn(move || {
                let mut r = shard_rng(run, 6, shard);
                let s1ts = s1::model();
                let s1schema = AnySchema::S1(s1::schema());
                let mut dynamic: Option<(Arc<TypeSystem>, AnySchema)> = None;
                let mut i = shard;
                while i < cases {
                    i += shards;
                    let (ts, schema) = if r.bool() {
                        // static flavour: S1, or (a third of these) a member of the generated derive-built family
                        match pick_family(run, statics, &mut r) {
                            Some(m) => (m.ts.clone(), m.schema.clone()),
                            None => (s1ts.clone(), s1schema.clone()),
                        }
                    } else {
                        if dynamic.is_none() || r.chance(1, 10) {
                            let ts = Arc::new(gen_type_system(&mut r, &ts_opts(run)));
                            if let Ok(Ok(s)) = catch(|| dynb::build(&ts)) {
                                dynamic = Some((ts, AnySchema::Dyn(s)));
                            }
                        }
                        match &dynamic {
                            Some(d) => d.clone(),
                            None => continue,
                        }
                    };
                    let mut o = doc_opts(run);
                    o.max_depth = 3;
                    o.fragments = r.chance(1, 3);
                    o.directives = r.chance(1, 3);
                    o.nested_omitted_variables = run.feature("nested_omitted_variable");
                    o.kind = if ts.mutation.is_some() && r.chance(1, 6) { OpKind::Mutation } else { OpKind::Query };
                    let mut gd = gen_doc(&ts, &mut r, &o);
                    if r.chance(1, 10) && run.feature("bad_variable_value") {
                        corrupt_variable(&mut gd.vars, &mut r);
                    }
                    let world = world_for(schema.flavour(), r.next_u64());
                    let case = Case::new(ts.clone(), gd, world, r.bool());
                    one(run, &schema, &case);
                }
            });
        }
    });
    hostile_values_without_validation(run);
    run.extra("static_schemas", static_family_extra(statics));
    run.finish_code_exit();
}

/// "A value that does not match the declared input type is never passed to a resolver": with
/// `ValidationMode::Fast` the argument rules of validation do not run, so execution-time coercion is the only
/// guard. Valid documents over S1 get ONE value-level invalidating edit (the rule-targeted operators of C09 that
/// change argument values, plus a oneOf object with two members) and are executed on a Fast-mode schema: where the
/// reference coercion of a field's arguments fails, that resolver must not be invoked and an error must be
/// reported for it; every resolver that does run must still have received the reference values.
fn hostile_values_without_validation(run: &Run) {
    use crate::c09::ops;
    const OPS: &[&str] = &[
        "wrong_kind_literal",
        "wrong_kind_literal_beside_unsupplied_variable",
        "null_for_non_null",
        "unknown_enum_value",
        "missing_required_input_field",
        "missing_required_argument",
        "non_object_literal_for_input_object",
    ];
    let cases = run.scale(6_000, 200_000);
    let shards = n_shards(run);
    let all = ops::operators();
    let table: Vec<&ops::OpDef> = all.iter().filter(|o| OPS.contains(&o.name)).collect();
    let table = &table;
    std::thread::scope(|sc| {
        for shard in 0..shards {
            sc.spawn(move || {
                let mut r = shard_rng(run, 606, shard);
                let ts = s1::model();
                let fast = AnySchema::S1(s1::builder().validation_mode(async_graphql::ValidationMode::Fast).finish());
                let mut i = shard;
                while i < cases {
                    i += shards;
                    let mut o = doc_opts(run);
                    o.max_depth = 2;
                    o.fragments = r.chance(1, 3);
                    o.directives = false;
                    o.kind = OpKind::Query;
                    let gd = gen_doc(&ts, &mut r, &o);
                    let Some(mo) = crate::c09::main_op(&gd) else { continue };
                    let sites = ops::collect(&ts, &gd.doc);
                    let cx = ops::Cx { ts: &ts, gd: &gd, sites: &sites, main_op: mo, salt: r.next_u64() };
                    let (name, mutant) = if r.chance(1, 5) {
                        ("oneof_two_members", oneof_two_members(&ts, &gd, &mut r))
                    } else {
                        let op = *r.pick(table);
                        (op.name, (op.f)(&cx, &mut r).map(|m| m.gd))
                    };
                    let Some(mgd) = mutant else {
                        run.count("hostile_operator_not_applicable", 1);
                        continue;
                    };
                    // an edit of one occurrence of a response key that is written twice makes the document
                    // invalid in another way (fields that cannot merge): not this phase's subject
                    let world = world_for("static", r.next_u64());
                    let case = Case::new(ts.clone(), mgd, world, r.bool());
                    // judged on the world the case runs in (a selection set below a null parent is never collected)
                    if case.reference().merged_groups > 0 || textually_repeated_key(&case.gd.doc) {
                        run.count("hostile_skipped_merged_key", 1);
                        continue;
                    }
                    run.count("hostile_values_executed_without_validation", 1);
                    run.count(&format!("hostile_{name}"), 1);
                    one(run, &fast, &case);
                }
            });
        }
    });
}

/// Some selection set of the document writes the same response key twice (whether or not it is executed).
fn textually_repeated_key(doc: &vh_model::doc::Doc) -> bool {
    fn set(sels: &[vh_model::doc::Sel]) -> bool {
        let mut keys = std::collections::BTreeSet::new();
        for s in sels {
            match s {
                vh_model::doc::Sel::Field(f) => {
                    if !keys.insert(f.key().to_string()) || set(&f.sel) {
                        return true;
                    }
                }
                vh_model::doc::Sel::Inline { sel, .. } => {
                    if set(sel) {
                        return true;
                    }
                }
                _ => {}
            }
        }
        false
    }
    doc.ops.iter().any(|o| set(&o.sel)) || doc.frags.iter().any(|f| set(&f.sel))
}

/// Give a oneOf input-object literal a second member (valid on its own).
fn oneof_two_members(ts: &TypeSystem, gd: &vh_model::gen_doc::GenDoc, r: &mut Rng) -> Option<vh_model::gen_doc::GenDoc> {
    fn visit(ts: &TypeSystem, ty: &Ty, v: &mut Val, r: &mut Rng, done: &mut bool) {
        if *done {
            return;
        }
        match (ty.nullable(), v) {
            (Ty::List(item), Val::List(xs)) => {
                for x in xs.iter_mut() {
                    visit(ts, item, x, r, done);
                }
            }
            (Ty::Named(n), Val::Obj(m)) => {
                if let Kind::Input { fields, oneof } = ts.kind(n).clone() {
                    if oneof {
                        if m.len() == 1 && !matches!(m[0].1, Val::Var(_)) {
                            let others: Vec<&ArgDef> = fields.iter().filter(|f| f.name != m[0].0).collect();
                            if !others.is_empty() {
                                let f = *r.pick(&others);
                                let lit = vh_model::gen_ts::gen_input_literal(ts, &f.ty.clone().nn(), r, 1);
                                m.push((f.name.clone(), lit));
                                *done = true;
                            }
                        }
                    } else {
                        for (k, x) in m.iter_mut() {
                            if let Some(f) = fields.iter().find(|f| &f.name == k) {
                                visit(ts, &f.ty, x, r, done);
                            }
                        }
                    }
                }
            }
            _ => {}
        }
    }
    fn walk(ts: &TypeSystem, parent: &str, sels: &mut Vec<vh_model::doc::Sel>, r: &mut Rng, done: &mut bool) {
        for s in sels.iter_mut() {
            match s {
                vh_model::doc::Sel::Field(f) => {
                    let Some(fd) = ts.field(parent, &f.name).cloned() else { continue };
                    for (k, v) in f.args.iter_mut() {
                        if let Some(a) = fd.args.iter().find(|a| &a.name == k) {
                            visit(ts, &a.ty, v, r, done);
                        }
                    }
                    let child = fd.ty.name().to_string();
                    walk(ts, &child, &mut f.sel, r, done);
                }
                vh_model::doc::Sel::Inline { cond, sel, .. } => {
                    let p = cond.clone().unwrap_or_else(|| parent.to_string());
                    walk(ts, &p, sel, r, done);
                }
                _ => {}
            }
        }
    }
    let mut g = gd.clone();
    let mut done = false;
    let root = ts.query.clone();
    for op in g.doc.ops.iter_mut() {
        walk(ts, &root, &mut op.sel, r, &mut done);
    }
    if done { Some(g) } else { None }
}

fn corrupt_variable(vars: &mut J, r: &mut Rng) {
    let Some(m) = vars.as_object_mut() else { return };
    if m.is_empty() {
        return;
    }
    let keys: Vec<String> = m.keys().cloned().collect();
    let k = r.pick(&keys).clone();
    let bad = match &m[&k] {
        J::Number(_) => json!({"not": "a number"}),
        J::String(_) => json!([[1.5]]),
        J::Bool(_) => json!("yes"),
        J::Array(_) => json!({"x": 1}),
        J::Object(_) => json!(3.5),
        J::Null => return,
    };
    m.insert(k, bad);
}

fn one(run: &Run, schema: &AnySchema, case: &Case) {
    let reference = case.reference();
    let env = Env::new(case.ts.clone(), case.world.clone());
    let resp = match catch(|| schema.execute(case.request(&env))) {
        Ok(r) => r,
        Err(p) => {
            run.violation(&format!("C06-panic:{:x}", case.hash()), &format!("executor panicked: {p}"), case.replay_json(schema.flavour()));
            return;
        }
    };
    run.eval();
    let obs = observe(&resp);
    let events = env.log.snapshot();
    let starts: Vec<&vh_schema::Event> = events.iter().filter(|e| e.kind == Ek::Start).collect();
    let mut problems: Vec<String> = vec![];
    if let Some(req) = &reference.request_error {
        run.count("requests_failing_variable_coercion", 1);
        if !starts.is_empty() {
            problems.push(format!("variable coercion fails ({req}) but resolvers ran: {:?}", starts.iter().map(|e| &e.path).collect::<Vec<_>>()));
        }
        if obs.errors.is_empty() {
            problems.push(format!("variable coercion fails ({req}) but the response reports no error"));
        }
    } else {
        if reference.merged_groups > 0 && !run.feature("repeated_key") {
            run.count("cases_skipped_repeated_key", 1);
            return;
        }
        let mut by_path: BTreeMap<&str, Vec<&vh_schema::Event>> = BTreeMap::new();
        for e in &starts {
            by_path.entry(e.path.as_str()).or_default().push(e);
        }
        for call in &reference.calls {
            let Some(fd) = case.ts.field(&call.parent_ty, &call.field) else { continue };
            let evs = by_path.get(call.path.as_str());
            match &call.args {
                None => {
                    run.count("calls_with_failing_coercion", 1);
                    if evs.is_some() {
                        problems.push(format!("argument coercion of {} fails in the reference but the resolver was invoked", call.path));
                    }
                    // "... or the request fails with an error": an error for this field (by its path), or an error
                    // that carries no path at all (request-level: e.g. raised while the complexity of the field
                    // was computed, or an argument error of a field reached through an interface).
                    // Whether such an error should carry the path is not C06's subject.
                    // An error whose position was discarded by another error's propagation may be dropped (§6.4.4):
                    // demanded only while the parent object of the field survives in the response data.
                    let parent_survives = {
                        let segs: Vec<&str> = call.path.split('.').collect();
                        let mut cur = Some(&obs.data);
                        for seg in &segs[..segs.len() - 1] {
                            cur = match cur {
                                Some(J::Object(m)) => m.get(*seg),
                                Some(J::Array(a)) => seg.parse::<usize>().ok().and_then(|i| a.get(i)),
                                _ => None,
                            };
                        }
                        matches!(cur, Some(J::Object(_)))
                    };
                    if !parent_survives {
                        run.count("failing_coercion_in_discarded_position", 1);
                    }
                    if parent_survives
                        && !obs.errors.iter().any(|e| match &e.path {
                            Some(p) => vh_model::exec::path_str(p) == call.path,
                            None => true,
                        })
                    {
                        problems.push(format!("argument coercion of {} fails in the reference but no error is reported for it", call.path));
                    }
                }
                Some(expected) => {
                    let Some(evs) = evs else { continue }; // parent nulled / not reached: not this monitor's business
                    let owner = format!("{}.{}", call.parent_ty, call.field);
                    let (want, label) = if schema.flavour() == "static" {
                        (project_static(&case.ts, &owner, &fd.args, expected), "projected through the Rust types")
                    } else {
                        (Val::Obj(expected.clone()), "as coerced")
                    };
                    for e in evs {
                        let got_raw = e.args.clone().unwrap_or(Val::Obj(vec![]));
                        let got = if schema.flavour() == "static" {
                            got_raw.clone()
                        } else if run.feature("dynamic_nested_coercion") {
                            match &got_raw {
                                Val::Obj(m) => normalise_dynamic_args(&case.ts, &fd.args, m),
                                other => other.clone(),
                            }
                        } else {
                            // while the finding "dynamic resolvers receive values without nested coercion"
                            // is open, compare what the received value denotes (own coercion applied to it)
                            recoerce_dynamic(&case.ts, &fd.args, &got_raw)
                        };
                        run.count("calls_compared", 1);
                        run.eval();
                        if !fd.args.is_empty() {
                            run.nontrivial(rng::mix(&[rng::hash_str(&call.path), rng::hash_str(&got.canon()), rng::hash_str(&case.printed.text)]));
                        }
                        if got.canon() != want.canon() {
                            problems.push(format!(
                                "resolver {} ({owner}) received {} but spec coercion gives {} ({label})",
                                call.path,
                                got.gql(),
                                want.gql()
                            ));
                        }
                    }
                }
            }
        }
    }
    for f in &case.gd.features {
        run.seen("features", f);
    }
    run.sample_upto(
        5,
        json!({"flavour": schema.flavour(), "document": case.printed.text, "variables": case.gd.vars,
               "received": starts.iter().take(6).map(|e| format!("{} <- {}", e.path, e.args.as_ref().map(|a| a.gql()).unwrap_or_default())).collect::<Vec<_>>()}),
    );
    if !problems.is_empty() {
        let mut rj = case.replay_json(schema.flavour());
        rj["observed"] = obs.raw.clone();
        rj["received"] = json!(starts.iter().map(|e| format!("{} <- {}", e.path, e.args.as_ref().map(|a| a.gql()).unwrap_or_default())).collect::<Vec<_>>());
        problems.truncate(4);
        run.violation(
            &format!("C06:{:x}", case.hash()),
            &format!("[{}] {} | doc: {} | vars: {}", schema.flavour(), problems.join("; "), case.printed.text, case.gd.vars),
            rj,
        );
    }
}
