//! C22 — stub (being built).
pub fn main() {
    println!("INCONCLUSIVE property=C22 reason=check not built yet");
    std::process::exit(2);
}
