//! C22 — look-ahead and selection views list every sub-field that will be resolved.
//!
//! Monitor: with `Env.record_views` every harness resolver of a field that has
//! a selection set logs what `ctx.field().selection_set()` (walked recursively)
//! and `ctx.look_ahead().field(..)` (asked for every field name of the schema
//! at every level) report below it. Offline the views are joined, by response
//! path, with the resolver Start events of the same execution and with the
//! document the harness generated:
//!   * every resolver that ran below a field must be listed in the views that
//!     field's resolver was given — by name and by its resolved arguments;
//!   * a view must not list more occurrences of a sub-field than the document
//!     has left after @skip/@include (so a pruned selection must be absent),
//!     let alone more than the document has at all.

use std::collections::{BTreeMap, HashMap};
use std::path::Path;
use std::sync::Arc;

use serde_json::{Value as J, json};
use vh_core::{Rng, Run, catch, rng};
use vh_model::coerce::Vars;
use vh_model::doc::*;
use vh_model::exec::{RefResult, eval_dirs};
use vh_model::gen_doc::gen_doc;
use vh_model::gen_ts::gen_type_system;
use vh_model::{TypeSystem, Val};
use vh_schema::compare::json_eq;
use vh_schema::{Ek, Env, dynb, s1};

use crate::common::*;

// ---------------------------------------------------------------- what the document says

/// One occurrence of a field below a given field node, reached through any
/// inline fragment / fragment spread (type conditions ignored, as the views do).
struct Occ<'a> {
    keys: Vec<String>,
    names: Vec<String>,
    node: &'a FieldSel,
    /// false when the occurrence itself, an enclosing fragment or an enclosing field is removed by @skip/@include
    kept: bool,
}

fn expand<'a>(doc: &'a Doc, vars: &Vars, sel: &'a [Sel], keys: &[String], names: &[String], kept: bool, depth: usize, out: &mut Vec<Occ<'a>>) {
    if depth > 40 {
        return;
    }
    for s in sel {
        match s {
            Sel::Field(f) => {
                let k = kept && eval_dirs(&f.dirs, vars);
                let mut ks = keys.to_vec();
                ks.push(f.key().to_string());
                let mut ns = names.to_vec();
                ns.push(f.name.clone());
                out.push(Occ { keys: ks.clone(), names: ns.clone(), node: f, kept: k });
                expand(doc, vars, &f.sel, &ks, &ns, k, depth + 1, out);
            }
            Sel::Inline { dirs, sel, .. } => expand(doc, vars, sel, keys, names, kept && eval_dirs(dirs, vars), depth + 1, out),
            Sel::Spread { name, dirs, .. } => {
                if let Some(fr) = doc.frag(name) {
                    expand(doc, vars, &fr.sel, keys, names, kept && eval_dirs(dirs, vars), depth + 1, out);
                }
            }
        }
    }
}

/// A written argument value with variables substituted by what the request supplied, else by the
/// variable's default; `None` = the variable is neither supplied nor defaulted (the argument is omitted).
fn resolve_written(v: &Val, raw_vars: &J, defs: &[VarDef]) -> Option<Val> {
    match v {
        Val::Var(x) => match raw_vars.get(x) {
            Some(j) => Some(Val::from_json(j)),
            None => defs.iter().find(|d| &d.name == x).and_then(|d| d.default.clone()),
        },
        Val::List(xs) => Some(Val::List(xs.iter().map(|x| resolve_written(x, raw_vars, defs).unwrap_or(Val::Null)).collect())),
        Val::Obj(m) => Some(Val::Obj(m.iter().filter_map(|(k, x)| resolve_written(x, raw_vars, defs).map(|x| (k.clone(), x))).collect())),
        other => Some(other.clone()),
    }
}

/// `seen` carries everything `want` says (objects may carry more keys: omitted / defaulted input fields are not judged).
fn covers(seen: &J, want: &J) -> bool {
    match (seen, want) {
        (J::Object(s), J::Object(w)) => w.iter().all(|(k, wv)| s.get(k).map(|sv| covers(sv, wv)).unwrap_or(false)),
        (J::Array(s), J::Array(w)) => s.len() == w.len() && s.iter().zip(w).all(|(a, b)| covers(a, b)),
        _ => json_eq(seen, want),
    }
}

/// Does the argument map a view reported agree with the arguments written on `node`?
fn args_agree(seen: &J, node: &FieldSel, raw_vars: &J, defs: &[VarDef]) -> Result<(usize, usize), String> {
    let Some(seen) = seen.as_object() else { return Err(format!("argument view is not a map: {seen}")) };
    if let Some(e) = seen.get("<error>") {
        return Err(format!("arguments() failed: {e}"));
    }
    let mut compared = 0;
    let mut with_vars = 0;
    for (k, v) in &node.args {
        match resolve_written(v, raw_vars, defs) {
            // omitted: absent or null are both readings of "no value"
            None => {
                if let Some(s) = seen.get(k) {
                    if !s.is_null() {
                        return Err(format!("argument {k} is written as an omitted variable but the view reports {s}"));
                    }
                }
            }
            Some(want) => {
                let want = want.json();
                let Some(s) = seen.get(k) else { return Err(format!("argument {k} (resolved {want}) is missing from the view")) };
                if !covers(s, &want) {
                    return Err(format!("argument {k}: the view reports {s}, written value resolves to {want}"));
                }
                compared += 1;
                if v.contains_var() {
                    with_vars += 1;
                }
            }
        }
    }
    Ok((compared, with_vars))
}

// ---------------------------------------------------------------- the join

struct ViewEv {
    lookahead: bool,
    /// (address below the field, name for selection views / response key for look-ahead views, args)
    entries: Vec<(Vec<String>, Option<String>, J)>,
}

fn parse_view(extra: &str) -> Option<ViewEv> {
    let v: J = serde_json::from_str(extra).ok()?;
    let lookahead = match v.get("view")?.as_str()? {
        "selection" => false,
        "lookahead" => true,
        _ => return None,
    };
    let mut entries = vec![];
    for e in v.get("entries")?.as_array()? {
        let addr: Vec<String> = e.get(0)?.as_array()?.iter().filter_map(|s| s.as_str().map(|s| s.to_string())).collect();
        let what = e.get(1)?.as_str().map(|s| s.to_string());
        entries.push((addr, what, e.get(2).cloned().unwrap_or(J::Null)));
    }
    Some(ViewEv { lookahead, entries })
}

fn rel_keys(parent: &str, child: &str) -> Option<Vec<String>> {
    let rest = child.strip_prefix(parent)?.strip_prefix('.')?;
    Some(rest.split('.').filter(|s| s.parse::<usize>().is_err()).map(|s| s.to_string()).collect())
}

pub struct Stats {
    pub problems: Vec<String>,
}

/// Judge one execution. `events` is the resolver log, `reference` R1's run of the same case.
fn judge(run: &Run, case: &Case, reference: &RefResult, events: &[vh_schema::Event]) -> Stats {
    let mut problems = vec![];
    let Some(op) = case.gd.doc.op(case.gd.op_name.as_deref()) else { return Stats { problems } };
    let mut nodes: HashMap<usize, &FieldSel> = HashMap::new();
    walk_sels(&case.gd.doc, &mut |s| {
        if let Sel::Field(f) = s {
            nodes.insert(f.id, f);
        }
    });
    let calls: HashMap<&str, &vh_model::exec::Call> = reference.calls.iter().map(|c| (c.path.as_str(), c)).collect();
    let starts: Vec<&vh_schema::Event> = events.iter().filter(|e| e.kind == Ek::Start).collect();
    let start_field: HashMap<&str, &str> = starts.iter().map(|e| (e.path.as_str(), e.field.as_str())).collect();
    // views by path
    let mut views: BTreeMap<&str, Vec<ViewEv>> = BTreeMap::new();
    for e in events.iter().filter(|e| e.kind == Ek::View) {
        if let Some(v) = parse_view(&e.extra) {
            views.entry(e.path.as_str()).or_default().push(v);
        }
    }
    for (p, vs) in &views {
        let Some(call) = calls.get(p) else {
            run.count("views_without_reference_call", 1);
            continue;
        };
        let field_nodes: Vec<&FieldSel> = call.field_ids.iter().filter_map(|id| nodes.get(id).copied()).collect();
        if field_nodes.is_empty() {
            continue;
        }
        let mut occ: Vec<Occ> = vec![];
        for n in &field_nodes {
            expand(&case.gd.doc, &reference.vars, &n.sel, &[], &[], true, 0, &mut occ);
        }
        let pruned = occ.iter().filter(|o| !o.kept).count();
        // ---- 2. nothing pruned, nothing invented
        for v in vs {
            run.count(if v.lookahead { "lookahead_views_joined" } else { "views_joined" }, 1);
            run.count("view_entries_checked", v.entries.len() as u64);
            let mut counts: BTreeMap<(Vec<String>, Option<String>), usize> = BTreeMap::new();
            for (addr, what, _) in &v.entries {
                *counts.entry((addr.clone(), what.clone())).or_insert(0) += 1;
            }
            for ((addr, what), n) in counts {
                let Some(what) = what else {
                    problems.push(format!("look-ahead at {p}: field({}) exists() but has no selection_fields()", addr.join(").field(")));
                    continue;
                };
                let same = |o: &&Occ| if v.lookahead { o.names == addr && o.node.key() == what } else { o.keys == addr && o.node.name == what };
                let all = occ.iter().filter(same).count();
                let kept = occ.iter().filter(same).filter(|o| o.kept).count();
                let kind = if v.lookahead { "look-ahead" } else { "selection" };
                if n > all {
                    problems.push(format!(
                        "{kind} view of {p} lists {n} × /{}={what} but the document has {all} such selection(s) below that field",
                        addr.join("/")
                    ));
                } else if n > kept {
                    problems.push(format!(
                        "{kind} view of {p} lists {n} × /{}={what} but only {kept} of the document's {all} are left after @skip/@include",
                        addr.join("/")
                    ));
                }
            }
            if pruned > 0 {
                run.count("pruned_selections_checked", pruned as u64);
            }
        }
        // ---- 1. every resolver that ran below p is listed, with its arguments
        for s in &starts {
            let Some(keys) = rel_keys(p, &s.path) else { continue };
            if keys.is_empty() {
                continue;
            }
            let Some(ccall) = calls.get(s.path.as_str()) else {
                run.count("child_events_without_reference_call", 1);
                continue;
            };
            let Some(cnode) = ccall.field_ids.first().and_then(|id| nodes.get(id).copied()) else { continue };
            // names of the fields along the way
            let mut names = vec![];
            let mut ok = true;
            let rest = s.path[p.len() + 1..].split('.').collect::<Vec<_>>();
            let mut cur = p.to_string();
            for seg in rest {
                cur = format!("{cur}.{seg}");
                if seg.parse::<usize>().is_ok() {
                    continue;
                }
                match start_field.get(cur.as_str()) {
                    Some(f) => names.push(f.to_string()),
                    None => ok = false,
                }
            }
            for lookahead in [false, true] {
                let evs: Vec<&ViewEv> = vs.iter().filter(|v| v.lookahead == lookahead).collect();
                if evs.is_empty() || (lookahead && !ok) {
                    continue;
                }
                let kind = if lookahead { "look-ahead" } else { "selection" };
                let cands: Vec<&(Vec<String>, Option<String>, J)> = evs
                    .iter()
                    .flat_map(|v| v.entries.iter())
                    .filter(|(addr, what, _)| {
                        if lookahead {
                            *addr == names && what.as_deref() == Some(keys.last().unwrap().as_str())
                        } else {
                            *addr == keys && what.as_deref() == Some(s.field.as_str())
                        }
                    })
                    .collect();
                if cands.is_empty() {
                    problems.push(format!(
                        "resolver {}.{} ran at {} but the {kind} view of {p} does not list /{}",
                        s.parent_ty,
                        s.field,
                        s.path,
                        if lookahead { names.join("/") } else { keys.join("/") }
                    ));
                    continue;
                }
                let mut verdicts = vec![];
                for c in &cands {
                    verdicts.push(args_agree(&c.2, cnode, &case.gd.vars, &op.vars));
                }
                match verdicts.iter().find_map(|v| v.as_ref().ok()) {
                    Some((compared, with_vars)) => {
                        run.count(if lookahead { "child_events_matched_lookahead" } else { "child_events_matched" }, 1);
                        run.count("args_compared", *compared as u64);
                        run.count("args_with_variables_compared", *with_vars as u64);
                    }
                    None => problems.push(format!(
                        "resolver {}.{} ran at {} but no entry of the {kind} view of {p} carries its arguments: {}",
                        s.parent_ty,
                        s.field,
                        s.path,
                        verdicts.iter().filter_map(|v| v.as_ref().err().cloned()).collect::<Vec<_>>().join(" / ")
                    )),
                }
            }
        }
    }
    Stats { problems }
}

// ---------------------------------------------------------------- cases

#[derive(Clone)]
struct Spec {
    flavour: &'static str,
    case_seed: u64,
}

fn build_case(run: &Run, spec: &Spec, s1ts: &Arc<TypeSystem>, s1schema: &AnySchema) -> Option<(Case, AnySchema)> {
    let mut r = Rng::new(spec.case_seed);
    if spec.flavour == "static" {
        let mut o = doc_opts(run);
        o.kind = if r.chance(1, 6) { OpKind::Mutation } else { OpKind::Query };
        let gd = gen_doc(s1ts, &mut r, &o);
        let world = world_for("static", r.next_u64());
        Some((Case::new(s1ts.clone(), gd, world, r.bool()), s1schema.clone()))
    } else {
        let ts = Arc::new(gen_type_system(&mut r, &ts_opts(run)));
        let schema = match catch(|| dynb::build(&ts)) {
            Ok(Ok(s)) => s,
            _ => {
                run.count("schema_build_failed", 1);
                return None;
            }
        };
        let mut o = doc_opts(run);
        o.kind = if ts.mutation.is_some() && r.chance(1, 5) { OpKind::Mutation } else { OpKind::Query };
        let gd = gen_doc(&ts, &mut r, &o);
        let world = world_for("dynamic", r.next_u64());
        Some((Case::new(ts, gd, world, r.bool()), AnySchema::Dyn(schema)))
    }
}

fn one(run: &Run, spec: &Spec, case: &Case, schema: &AnySchema) {
    let reference = case.reference();
    let mut env = Env::new(case.ts.clone(), case.world.clone());
    env.record_views = true;
    let resp = match catch(|| schema.execute(case.request(&env))) {
        Ok(r) => r,
        Err(p) => {
            run.violation(
                &format!("C22-panic:{:x}", case.hash()),
                &format!("executor panicked while resolvers read their views: {p}"),
                replay_json(spec, case),
            );
            return;
        }
    };
    run.eval();
    let events = env.log.snapshot();
    run.count("resolver_events", events.iter().filter(|e| e.kind == Ek::Start).count() as u64);
    if reference.request_error.is_some() {
        run.count("requests_rejected_before_execution", 1);
        return;
    }
    let stats = judge(run, case, &reference, &events);
    let has_views = events.iter().any(|e| e.kind == Ek::View);
    for f in &case.gd.features {
        run.seen("features", f);
    }
    run.seen("flavours", spec.flavour);
    let f = &case.gd.features;
    if has_views && (f.contains("named_fragment") || f.contains("inline_fragment")) && (f.contains("directive") || f.contains("variable") || f.contains("alias")) {
        run.nontrivial(case.hash());
    }
    if has_views {
        run.sample(json!({
            "flavour": spec.flavour, "document": case.printed.text, "variables": case.gd.vars,
            "views": events.iter().filter(|e| e.kind == Ek::View && e.extra.starts_with('{')).take(2)
                .map(|e| json!({"path": e.path, "field": format!("{}.{}", e.parent_ty, e.field), "recorded": serde_json::from_str::<J>(&e.extra).unwrap_or(J::Null)})).collect::<Vec<_>>(),
            "response": serde_json::to_value(&resp).unwrap_or_default(),
        }));
    }
    if !stats.problems.is_empty() {
        let mut rj = replay_json(spec, case);
        rj["problems"] = json!(stats.problems);
        run.violation(
            &format!("C22:{:x}", case.hash()),
            &format!("{} | doc: {} | variables: {}", stats.problems.iter().take(4).cloned().collect::<Vec<_>>().join("; "), case.printed.text, case.gd.vars),
            rj,
        );
    }
}

fn replay_json(spec: &Spec, case: &Case) -> J {
    let mut rj = case.replay_json(spec.flavour);
    rj["case_seed"] = json!(spec.case_seed.to_string());
    rj["note"] = json!("the case (schema, document, variables, world) is regenerated from case_seed by the deterministic generators; the text is recorded for the reader");
    rj
}

fn replay(run: &Run, path: &Path) {
    let Some(v) = std::fs::read_to_string(path).ok().and_then(|t| serde_json::from_str::<J>(&t).ok()) else {
        run.inconclusive(&format!("cannot read replay file {}", path.display()));
        return;
    };
    let c = &v["case"];
    let (Some(seed), Some(flavour)) = (c["case_seed"].as_str().and_then(|s| s.parse::<u64>().ok()), c["flavour"].as_str()) else {
        run.inconclusive("replay file has no case_seed / flavour");
        return;
    };
    let spec = Spec { flavour: if flavour == "static" { "static" } else { "dynamic" }, case_seed: seed };
    let ts = s1::model();
    let schema = AnySchema::S1(s1::schema());
    let Some((case, schema)) = build_case(run, &spec, &ts, &schema) else {
        run.inconclusive("schema of the replayed case does not build");
        return;
    };
    if Some(case.printed.text.as_str()) != c["document"].as_str() {
        run.inconclusive("regenerated document differs from the recorded one (generator changed or features differ)");
        return;
    }
    println!("REPLAY {} document {}", spec.flavour, case.printed.text);
    one(run, &spec, &case, &schema);
}

pub fn main() {
    let mut run = Run::from_args(
        "exploration",
        "valid-by-construction operations (named / inline / nested fragments on object, interface and union conditions, \
         @skip/@include from literals, variables and defaulted variables, aliases, repeated keys, variables in arguments incl. \
         nested in lists and input objects, omitted and null variables) over the derive-built schema S1 and over random \
         dynamic schemas; every resolver of a field with a selection set records ctx.field().selection_set() recursively and \
         ctx.look_ahead().field(n) for every field name at every level; views are joined by response path with the resolver \
         Start events of the same run. Non-trivial = a view was recorded and the document combines a fragment with a directive, \
         a variable or an alias; distinct by hash of (schema, document, variables, world)",
    );
    run.assume("documents are valid by construction; the reference executor R1 names, per response path, the field nodes that were merged there (their written arguments and directives are read from the harness AST)");
    run.assume("'resolved arguments' = the arguments as written with variables replaced by the supplied value, else by the variable's default; an argument whose variable is neither supplied nor defaulted may be absent or null; argument defaults of the schema and defaulted / omitted input-object fields are not demanded of a view (extra keys are tolerated); enum literals and enum values supplied as JSON strings are not told apart");
    run.assume("where several field nodes share a response key the views of all resolver runs at that path are taken together (the library resolves such nodes one by one)");
    run.assume("a view may list a selection that is never resolved when its type condition does not match, its parent is null / failed or a list is empty; only pruned (@skip/@include) and non-existent selections are rejected, by counting occurrences per (address, name)");
    if let Some(p) = run.replay.clone() {
        replay(&run, &p);
        run.finish_code_exit();
    }
    let cases = run.scale(30_000, 1_200_000);
    run.set_floors(run.scale(2_000, 100_000), run.scale(300, 20_000));
    for c in ["resolver_events", "views_joined", "lookahead_views_joined", "child_events_matched", "child_events_matched_lookahead", "pruned_selections_checked", "args_compared", "args_with_variables_compared"] {
        run.require_counter(c);
    }
    let shards = n_shards(&run);
    let ts = s1::model();
    let schema = AnySchema::S1(s1::schema());
    let run = &run;
    std::thread::scope(|sc| {
        for shard in 0..shards {
            let ts = ts.clone();
            let schema = schema.clone();
            sc.spawn(move || {
                let mut i = shard;
                while i < cases {
                    let spec = Spec { flavour: if i % 3 == 2 { "dynamic" } else { "static" }, case_seed: rng::mix(&[run.seed, 22, i]) };
                    i += shards;
                    let Some((case, sch)) = build_case(run, &spec, &ts, &schema) else { continue };
                    one(run, &spec, &case, &sch);
                }
            });
        }
    });
    run.finish_code_exit();
}
