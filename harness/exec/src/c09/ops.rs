//! G4 — rule-targeted invalidating operators over the harness' own document
//! AST. Every operator takes a document that is valid by construction (G2),
//! applies ONE structural edit and returns the mutant together with the spec
//! rule (October 2021, §5 / §6.1.2) the edit certainly violates. An operator
//! returns `None` where its applicability guard does not hold; it never
//! "tries its luck". The soundness argument of each operator is the comment
//! in front of it.

use serde_json::{Value as J, json};
use vh_core::Rng;
use vh_model::doc::*;
use vh_model::gen_doc::GenDoc;
use vh_model::gen_ts::gen_input_literal;
use vh_model::{ArgDef, FieldDef, Kind, ScalarKind, Ty, TypeSystem, Val};

// ------------------------------------------------------------------ sites

#[derive(Clone, Debug, PartialEq)]
pub enum Root {
    Op(usize),
    Frag(usize),
}

/// A selection set of the document: `path` descends from the root's
/// selection set through the selections with the given indices.
#[derive(Clone, Debug)]
pub struct SetSite {
    pub root: Root,
    pub path: Vec<usize>,
    /// the type the selections of this set are selected on
    pub parent: String,
}

#[derive(Clone, Debug)]
pub struct FieldSite {
    pub set: SetSite,
    pub idx: usize,
    /// None for `__typename`
    pub fd: Option<FieldDef>,
}

#[derive(Clone, Debug)]
pub enum VSeg {
    Item(usize),
    Field(usize),
}

/// A value position inside the arguments of a field or of a directive.
#[derive(Clone, Debug)]
pub struct ValPos {
    pub set: SetSite,
    pub idx: usize,
    /// Some(k): argument of the k-th directive of the selection; None: field argument
    pub dir: Option<usize>,
    pub arg: usize,
    pub vpath: Vec<VSeg>,
    /// declared type of this position
    pub ty: Ty,
    /// the argument / input field at this position declares a default value
    pub loc_default: bool,
    pub val: Val,
}

pub struct Sites {
    pub sets: Vec<SetSite>,
    pub fields: Vec<FieldSite>,
    /// every selection (set, index) with its kind: 'f' field, 't' __typename, 'i' inline, 's' spread
    pub sels: Vec<(SetSite, usize, char)>,
    pub vals: Vec<ValPos>,
}

pub fn set_ref<'a>(doc: &'a Doc, s: &SetSite) -> &'a Vec<Sel> {
    let mut cur: &Vec<Sel> = match &s.root {
        Root::Op(i) => &doc.ops[*i].sel,
        Root::Frag(i) => &doc.frags[*i].sel,
    };
    for &i in &s.path {
        cur = match &cur[i] {
            Sel::Field(f) => &f.sel,
            Sel::Inline { sel, .. } => sel,
            Sel::Spread { .. } => panic!("path through a spread"),
        };
    }
    cur
}

pub fn set_mut<'a>(doc: &'a mut Doc, s: &SetSite) -> &'a mut Vec<Sel> {
    let mut cur: &mut Vec<Sel> = match &s.root {
        Root::Op(i) => &mut doc.ops[*i].sel,
        Root::Frag(i) => &mut doc.frags[*i].sel,
    };
    for &i in &s.path {
        cur = match &mut cur[i] {
            Sel::Field(f) => &mut f.sel,
            Sel::Inline { sel, .. } => sel,
            Sel::Spread { .. } => panic!("path through a spread"),
        };
    }
    cur
}

pub fn field_mut<'a>(doc: &'a mut Doc, f: &FieldSite) -> &'a mut FieldSel {
    match &mut set_mut(doc, &f.set)[f.idx] {
        Sel::Field(x) => x,
        _ => panic!("not a field"),
    }
}

pub fn field_ref<'a>(doc: &'a Doc, f: &FieldSite) -> &'a FieldSel {
    match &set_ref(doc, &f.set)[f.idx] {
        Sel::Field(x) => x,
        _ => panic!("not a field"),
    }
}

pub fn dirs_mut<'a>(doc: &'a mut Doc, set: &SetSite, idx: usize) -> &'a mut Vec<Dir> {
    match &mut set_mut(doc, set)[idx] {
        Sel::Field(f) => &mut f.dirs,
        Sel::Inline { dirs, .. } => dirs,
        Sel::Spread { dirs, .. } => dirs,
    }
}

fn dirs_ref<'a>(doc: &'a Doc, set: &SetSite, idx: usize) -> &'a Vec<Dir> {
    match &set_ref(doc, set)[idx] {
        Sel::Field(f) => &f.dirs,
        Sel::Inline { dirs, .. } => dirs,
        Sel::Spread { dirs, .. } => dirs,
    }
}

fn args_mut<'a>(doc: &'a mut Doc, p: &ValPos) -> &'a mut Vec<(String, Val)> {
    match p.dir {
        Some(k) => &mut dirs_mut(doc, &p.set, p.idx)[k].args,
        None => match &mut set_mut(doc, &p.set)[p.idx] {
            Sel::Field(f) => &mut f.args,
            _ => panic!("field arguments of a non-field"),
        },
    }
}

fn args_ref<'a>(doc: &'a Doc, p: &ValPos) -> &'a Vec<(String, Val)> {
    match p.dir {
        Some(k) => &dirs_ref(doc, &p.set, p.idx)[k].args,
        None => match &set_ref(doc, &p.set)[p.idx] {
            Sel::Field(f) => &f.args,
            _ => panic!("field arguments of a non-field"),
        },
    }
}

fn val_mut<'a>(doc: &'a mut Doc, p: &ValPos) -> &'a mut Val {
    let mut cur = &mut args_mut(doc, p)[p.arg].1;
    for s in &p.vpath {
        cur = match (s, cur) {
            (VSeg::Item(i), Val::List(xs)) => &mut xs[*i],
            (VSeg::Field(i), Val::Obj(m)) => &mut m[*i].1,
            _ => panic!("value path does not match the value"),
        };
    }
    cur
}

fn collect_val(ts: &TypeSystem, base: &ValPos, ty: &Ty, v: &Val, vpath: Vec<VSeg>, loc_default: bool, out: &mut Vec<ValPos>) {
    out.push(ValPos { vpath: vpath.clone(), ty: ty.clone(), loc_default, val: v.clone(), ..base.clone() });
    match (ty.nullable(), v) {
        (Ty::List(item), Val::List(xs)) => {
            for (i, x) in xs.iter().enumerate() {
                let mut p = vpath.clone();
                p.push(VSeg::Item(i));
                collect_val(ts, base, item, x, p, false, out);
            }
        }
        (Ty::List(item), Val::Obj(_)) => {
            // a single value at a list position is the only item of the list: descend with the item type
            let mut t: &Ty = item;
            while let Ty::List(i) = t.nullable() {
                t = i;
            }
            if let (Ty::Named(n), Val::Obj(m)) = (t.nullable(), v) {
                collect_obj(ts, base, n, m, vpath, out);
            }
        }
        (Ty::Named(n), Val::Obj(m)) => collect_obj(ts, base, n, m, vpath, out),
        _ => {}
    }
}

fn collect_obj(ts: &TypeSystem, base: &ValPos, n: &str, m: &[(String, Val)], vpath: Vec<VSeg>, out: &mut Vec<ValPos>) {
    if let Some(Kind::Input { fields, .. }) = ts.get(n).map(|t| &t.kind) {
        for (i, (k, x)) in m.iter().enumerate() {
            if let Some(d) = fields.iter().find(|d| &d.name == k) {
                let mut p = vpath.clone();
                p.push(VSeg::Field(i));
                collect_val(ts, base, &d.ty, x, p, d.default.is_some(), out);
            }
        }
    }
}

fn bool_nn() -> Ty {
    Ty::named("Boolean").nn()
}

pub fn collect(ts: &TypeSystem, doc: &Doc) -> Sites {
    let mut s = Sites { sets: vec![], fields: vec![], sels: vec![], vals: vec![] };
    fn dirs_vals(ts: &TypeSystem, set: &SetSite, idx: usize, dirs: &[Dir], out: &mut Vec<ValPos>) {
        for (k, d) in dirs.iter().enumerate() {
            if d.name != "skip" && d.name != "include" {
                continue;
            }
            for (ai, (an, av)) in d.args.iter().enumerate() {
                if an == "if" {
                    let base = ValPos {
                        set: set.clone(),
                        idx,
                        dir: Some(k),
                        arg: ai,
                        vpath: vec![],
                        ty: bool_nn(),
                        loc_default: false,
                        val: Val::Null,
                    };
                    collect_val(ts, &base, &bool_nn(), av, vec![], false, out);
                }
            }
        }
    }
    fn walk(ts: &TypeSystem, root: &Root, path: Vec<usize>, parent: &str, sels: &[Sel], s: &mut Sites) {
        let set = SetSite { root: root.clone(), path: path.clone(), parent: parent.to_string() };
        s.sets.push(set.clone());
        for (i, sel) in sels.iter().enumerate() {
            match sel {
                Sel::Field(f) => {
                    let fd = if f.name == "__typename" { None } else { ts.field(parent, &f.name).cloned() };
                    if f.name != "__typename" && fd.is_none() {
                        // cannot happen for a valid base document
                        continue;
                    }
                    s.sels.push((set.clone(), i, if fd.is_some() { 'f' } else { 't' }));
                    s.fields.push(FieldSite { set: set.clone(), idx: i, fd: fd.clone() });
                    dirs_vals(ts, &set, i, &f.dirs, &mut s.vals);
                    if let Some(fd) = &fd {
                        for (ai, (an, av)) in f.args.iter().enumerate() {
                            if let Some(ad) = fd.arg(an) {
                                let base = ValPos {
                                    set: set.clone(),
                                    idx: i,
                                    dir: None,
                                    arg: ai,
                                    vpath: vec![],
                                    ty: ad.ty.clone(),
                                    loc_default: ad.default.is_some(),
                                    val: Val::Null,
                                };
                                collect_val(ts, &base, &ad.ty, av, vec![], ad.default.is_some(), &mut s.vals);
                            }
                        }
                        if !f.sel.is_empty() {
                            let mut p = path.clone();
                            p.push(i);
                            walk(ts, root, p, fd.ty.name(), &f.sel, s);
                        }
                    }
                }
                Sel::Inline { cond, dirs, sel, .. } => {
                    s.sels.push((set.clone(), i, 'i'));
                    dirs_vals(ts, &set, i, dirs, &mut s.vals);
                    let mut p = path.clone();
                    p.push(i);
                    walk(ts, root, p, cond.as_deref().unwrap_or(parent), sel, s);
                }
                Sel::Spread { dirs, .. } => {
                    s.sels.push((set.clone(), i, 's'));
                    dirs_vals(ts, &set, i, dirs, &mut s.vals);
                }
            }
        }
    }
    for (i, op) in doc.ops.iter().enumerate() {
        let root_ty = match op.kind {
            OpKind::Query => ts.query.clone(),
            OpKind::Mutation => ts.mutation.clone().unwrap_or_default(),
            OpKind::Subscription => ts.subscription.clone().unwrap_or_default(),
        };
        walk(ts, &Root::Op(i), vec![], &root_ty, &op.sel, &mut s);
    }
    for (i, fr) in doc.frags.iter().enumerate() {
        walk(ts, &Root::Frag(i), vec![], &fr.cond, &fr.sel, &mut s);
    }
    s
}

// ------------------------------------------------------------------ operator plumbing

pub struct Mutant {
    pub gd: GenDoc,
    /// what was edited, for humans
    pub note: String,
}

pub struct Cx<'a> {
    pub ts: &'a TypeSystem,
    pub gd: &'a GenDoc,
    pub sites: &'a Sites,
    /// index of the operation that the request selects
    pub main_op: usize,
    /// salt for generated names, so that several mutants of one base never collide with base names
    pub salt: u64,
}

pub struct OpDef {
    pub name: &'static str,
    pub rule: &'static str,
    /// only meaningful for subscription operations
    pub subscription: bool,
    pub f: fn(&Cx<'_>, &mut Rng) -> Option<Mutant>,
}

const NO_FIELD: &str = "zzNoSuchField";
const NO_ARG: &str = "zzNoSuchArg";
const NO_TYPE: &str = "ZzNoSuchType";
const NO_DIR: &str = "zzNoSuchDirective";
const NO_ENUM: &str = "ZZ_NO_SUCH_VALUE";
const NO_FRAG: &str = "ZzUndefinedFragment";

fn typename(doc: &mut Doc) -> Sel {
    let id = doc.fresh_id();
    Sel::Field(FieldSel { id, alias: None, name: "__typename".into(), args: vec![], dirs: vec![], sel: vec![] })
}

fn nonnull_literal(ts: &TypeSystem, ty: &Ty, r: &mut Rng) -> Val {
    gen_input_literal(ts, &ty.clone().nn(), r, 1)
}

/// A valid selection of field `fd` (required arguments as literals, `{ __typename }` below a composite).
fn valid_field(ts: &TypeSystem, doc: &mut Doc, fd: &FieldDef, alias: Option<String>, r: &mut Rng) -> FieldSel {
    let mut args = vec![];
    for a in &fd.args {
        if a.ty.is_nonnull() && a.default.is_none() {
            args.push((a.name.clone(), nonnull_literal(ts, &a.ty, r)));
        }
    }
    let sel = if ts.is_composite(fd.ty.name()) { vec![typename(doc)] } else { vec![] };
    let id = doc.fresh_id();
    FieldSel { id, alias, name: fd.name.clone(), args, dirs: vec![], sel }
}

fn has_dir(dirs: &[Dir], n: &str) -> bool {
    dirs.iter().any(|d| d.name == n)
}

fn pick_opt<'a, T>(r: &mut Rng, xs: &'a [T]) -> Option<&'a T> {
    if xs.is_empty() { None } else { Some(r.pick(xs)) }
}

fn out(cx: &Cx<'_>, doc: Doc, note: String) -> Option<Mutant> {
    let mut gd = cx.gd.clone();
    gd.doc = doc;
    Some(Mutant { gd, note })
}

fn out_vars(cx: &Cx<'_>, doc: Doc, vars: J, note: String) -> Option<Mutant> {
    let mut gd = cx.gd.clone();
    gd.doc = doc;
    gd.vars = vars;
    Some(Mutant { gd, note })
}

fn is_sub_root(cx: &Cx<'_>, s: &SetSite) -> bool {
    s.path.is_empty() && matches!(&s.root, Root::Op(i) if cx.gd.doc.ops[*i].kind == OpKind::Subscription)
}

/// Field sites that are real fields (not `__typename`).
fn real_fields<'a>(cx: &'a Cx<'_>) -> Vec<&'a FieldSite> {
    cx.sites.fields.iter().filter(|f| f.fd.is_some()).collect()
}

/// Selection sets into which another selection may be inserted without touching
/// the single-root-field rule of subscriptions.
fn insertable_sets<'a>(cx: &'a Cx<'_>) -> Vec<&'a SetSite> {
    cx.sites.sets.iter().filter(|s| !is_sub_root(cx, s)).collect()
}

fn supplied(vars: &J, name: &str) -> bool {
    vars.as_object().map(|m| m.contains_key(name)).unwrap_or(false)
}

/// Does the value mention a variable that the request does not supply?
fn has_unsupplied_var(v: &Val, vars: &J) -> bool {
    let mut names = vec![];
    v.vars(&mut names);
    names.iter().any(|n| !supplied(vars, n))
}

// ------------------------------------------------------------------ 5.3 fields

/// 5.3.1 Field Selections: the target field must be defined on the type in
/// scope. `zzNoSuchField` is checked not to be a field of any type.
fn unknown_field(cx: &Cx<'_>, r: &mut Rng) -> Option<Mutant> {
    if cx.ts.types.iter().any(|t| cx.ts.fields(&t.name).iter().any(|f| f.name == NO_FIELD)) {
        return None;
    }
    let mut doc = cx.gd.doc.clone();
    let fields = real_fields(cx);
    if !fields.is_empty() && r.chance(2, 3) {
        let f = *r.pick(&fields);
        let fs = field_mut(&mut doc, f);
        let old = std::mem::replace(&mut fs.name, NO_FIELD.into());
        return out(cx, doc, format!("renamed field {}.{old} to {NO_FIELD}", f.set.parent));
    }
    let sets: Vec<&SetSite> = insertable_sets(cx).into_iter().filter(|s| cx.ts.is_composite(&s.parent)).collect();
    let s = *pick_opt(r, &sets)?;
    let id = doc.fresh_id();
    let n = set_ref(&doc, s).len();
    set_mut(&mut doc, s).insert(
        r.below(n + 1),
        Sel::Field(FieldSel { id, alias: None, name: NO_FIELD.into(), args: vec![], dirs: vec![], sel: vec![] }),
    );
    out(cx, doc, format!("inserted field {NO_FIELD} into a selection on {}", s.parent))
}

/// 5.3.3 Leaf Field Selections: a field of scalar/enum type must not have a selection set.
fn selection_on_leaf(cx: &Cx<'_>, r: &mut Rng) -> Option<Mutant> {
    let c: Vec<&FieldSite> = real_fields(cx)
        .into_iter()
        .filter(|f| cx.ts.is_leaf(f.fd.as_ref().unwrap().ty.name()) && field_ref(&cx.gd.doc, f).sel.is_empty())
        .collect();
    let f = *pick_opt(r, &c)?;
    let mut doc = cx.gd.doc.clone();
    let t = typename(&mut doc);
    field_mut(&mut doc, f).sel = vec![t];
    out(cx, doc, format!("gave leaf field {}.{} a selection set", f.set.parent, f.fd.as_ref().unwrap().name))
}

/// 5.3.3: a field of object/interface/union type must have a selection set.
fn no_selection_on_composite(cx: &Cx<'_>, r: &mut Rng) -> Option<Mutant> {
    let c: Vec<&FieldSite> = real_fields(cx)
        .into_iter()
        .filter(|f| cx.ts.is_composite(f.fd.as_ref().unwrap().ty.name()) && !field_ref(&cx.gd.doc, f).sel.is_empty())
        .collect();
    let f = *pick_opt(r, &c)?;
    let mut doc = cx.gd.doc.clone();
    field_mut(&mut doc, f).sel.clear();
    out(cx, doc, format!("removed the selection set of composite field {}.{}", f.set.parent, f.fd.as_ref().unwrap().name))
}

/// 5.3.3 for the meta field: `__typename` is of type String!, a leaf.
fn typename_with_selection(cx: &Cx<'_>, r: &mut Rng) -> Option<Mutant> {
    let c: Vec<&FieldSite> = cx.sites.fields.iter().filter(|f| f.fd.is_none() && !is_sub_root(cx, &f.set)).collect();
    let f = *pick_opt(r, &c)?;
    let mut doc = cx.gd.doc.clone();
    let t = typename(&mut doc);
    field_mut(&mut doc, f).sel = vec![t];
    out(cx, doc, format!("gave __typename (on {}) a selection set", f.set.parent))
}

/// 5.4.1 Argument Names for the meta field: `__typename` takes no arguments.
fn typename_with_unknown_argument(cx: &Cx<'_>, r: &mut Rng) -> Option<Mutant> {
    let c: Vec<&FieldSite> = cx.sites.fields.iter().filter(|f| f.fd.is_none() && !is_sub_root(cx, &f.set)).collect();
    let f = *pick_opt(r, &c)?;
    let mut doc = cx.gd.doc.clone();
    field_mut(&mut doc, f).args.push((NO_ARG.into(), Val::Int(1)));
    out(cx, doc, format!("added argument {NO_ARG} to __typename (on {})", f.set.parent))
}

/// 5.7.1 Directives Are Defined, on the meta field.
fn typename_with_unknown_directive(cx: &Cx<'_>, r: &mut Rng) -> Option<Mutant> {
    let c: Vec<&FieldSite> = cx.sites.fields.iter().filter(|f| f.fd.is_none() && !is_sub_root(cx, &f.set)).collect();
    let f = *pick_opt(r, &c)?;
    let mut doc = cx.gd.doc.clone();
    field_mut(&mut doc, f).dirs.push(Dir { name: NO_DIR.into(), args: vec![] });
    out(cx, doc, format!("added @{NO_DIR} to __typename (on {})", f.set.parent))
}

// ------------------------------------------------------------------ 5.3.2 field merging

/// A different field of the same parent type, written validly under F's response key.
fn other_field_under_key(cx: &Cx<'_>, doc: &mut Doc, f: &FieldSite, parent: &str, r: &mut Rng) -> Option<FieldSel> {
    let fs = field_ref(&cx.gd.doc, f);
    let key = fs.key().to_string();
    let cands: Vec<&FieldDef> = cx.ts.fields(parent).iter().filter(|g| g.name != fs.name).collect();
    let g = *pick_opt(r, &cands)?;
    Some(valid_field(cx.ts, doc, g, Some(key), r))
}

/// F's own field with a different argument set (one literal changed, or an optional argument added).
fn same_field_other_args(cx: &Cx<'_>, doc: &mut Doc, f: &FieldSite, r: &mut Rng) -> Option<FieldSel> {
    let fs = field_ref(&cx.gd.doc, f).clone();
    let fd = f.fd.as_ref()?;
    let mut order: Vec<&ArgDef> = fd.args.iter().collect();
    r.shuffle(&mut order);
    for a in order {
        let mut args = fs.args.clone();
        match args.iter().position(|(k, _)| k == &a.name) {
            Some(i) => {
                if args[i].1.contains_var() {
                    continue;
                }
                let mut changed = false;
                for _ in 0..8 {
                    let v = nonnull_literal(cx.ts, &a.ty, r);
                    if v.canon() != args[i].1.canon() {
                        args[i].1 = v;
                        changed = true;
                        break;
                    }
                }
                if !changed {
                    continue;
                }
            }
            None => args.push((a.name.clone(), nonnull_literal(cx.ts, &a.ty, r))),
        }
        let sel = if cx.ts.is_composite(fd.ty.name()) { vec![typename(doc)] } else { vec![] };
        let id = doc.fresh_id();
        return Some(FieldSel { id, alias: Some(fs.key().to_string()), name: fs.name.clone(), args, dirs: vec![], sel });
    }
    None
}

fn conflict_candidates<'a>(cx: &'a Cx<'_>) -> Vec<&'a FieldSite> {
    real_fields(cx).into_iter().filter(|f| !is_sub_root(cx, &f.set)).collect()
}

/// 5.3.2 Field Selection Merging: two fields with the same response key in
/// ONE selection set share the parent type, so FieldsInSetCanMerge demands the
/// same field name; here the names differ.
fn conflict_same_scope_different_field(cx: &Cx<'_>, r: &mut Rng) -> Option<Mutant> {
    let c = conflict_candidates(cx);
    let f = *pick_opt(r, &c)?;
    let mut doc = cx.gd.doc.clone();
    let g = other_field_under_key(cx, &mut doc, f, &f.set.parent, r)?;
    let note = format!("added `{}: {}` beside `{}` in one selection set on {}", g.key(), g.name, field_ref(&cx.gd.doc, f).name, f.set.parent);
    let n = set_ref(&doc, &f.set).len();
    set_mut(&mut doc, &f.set).insert(r.below(n + 1), Sel::Field(g));
    out(cx, doc, note)
}

/// 5.3.2: same response key, same field, same parent type, but the argument
/// sets are not identical (a literal with another value, or an extra argument).
fn conflict_same_scope_different_args(cx: &Cx<'_>, r: &mut Rng) -> Option<Mutant> {
    let c: Vec<&FieldSite> = conflict_candidates(cx).into_iter().filter(|f| !f.fd.as_ref().unwrap().args.is_empty()).collect();
    let f = *pick_opt(r, &c)?;
    let mut doc = cx.gd.doc.clone();
    let g = same_field_other_args(cx, &mut doc, f, r)?;
    let note = format!("added `{}: {}(…)` with other arguments beside the same field on {}", g.key(), g.name, f.set.parent);
    let n = set_ref(&doc, &f.set).len();
    set_mut(&mut doc, &f.set).insert(r.below(n + 1), Sel::Field(g));
    out(cx, doc, note)
}

/// Type conditions under which the conflicting twin may be written so that the
/// pair still MUST be identical: the parent type itself (parent types equal), or
/// an interface the parent object implements that declares the other field
/// (one parent is not an object type).
fn twin_conditions(cx: &Cx<'_>, f: &FieldSite) -> Vec<String> {
    let mut v = vec![f.set.parent.clone()];
    if cx.ts.is_object(&f.set.parent) {
        let name = &field_ref(&cx.gd.doc, f).name;
        for i in cx.ts.implements_closure(&f.set.parent) {
            if cx.ts.fields(&i).iter().any(|g| &g.name != name) {
                v.push(i);
            }
        }
    }
    v
}

/// 5.3.2 with the second field inside `... on T { }`: fragments do not open a
/// new scope (CollectFields / "fields in set" look through them). T is the
/// parent type (parent types equal) or an interface of it (a non-object parent):
/// in both cases the spec demands identical names, and they differ.
fn conflict_behind_inline_fragment(cx: &Cx<'_>, r: &mut Rng) -> Option<Mutant> {
    let c = conflict_candidates(cx);
    let f = *pick_opt(r, &c)?;
    let conds = twin_conditions(cx, f);
    let cond = r.pick(&conds).clone();
    let mut doc = cx.gd.doc.clone();
    let g = if cond == f.set.parent && !f.fd.as_ref().unwrap().args.is_empty() && r.chance(1, 3) {
        same_field_other_args(cx, &mut doc, f, r)?
    } else {
        other_field_under_key(cx, &mut doc, f, &cond, r)?
    };
    let note = format!("added `... on {cond} {{ {}: {} }}` beside `{}` on {}", g.key(), g.name, field_ref(&cx.gd.doc, f).name, f.set.parent);
    let id = doc.fresh_id();
    let n = set_ref(&doc, &f.set).len();
    set_mut(&mut doc, &f.set).insert(r.below(n + 1), Sel::Inline { id, cond: Some(cond), dirs: vec![], sel: vec![Sel::Field(g)] });
    out(cx, doc, note)
}

/// 5.3.2 with the second field inside a named fragment spread in the same selection set.
fn conflict_behind_fragment_spread(cx: &Cx<'_>, r: &mut Rng) -> Option<Mutant> {
    let c = conflict_candidates(cx);
    let f = *pick_opt(r, &c)?;
    let conds = twin_conditions(cx, f);
    let cond = r.pick(&conds).clone();
    let mut doc = cx.gd.doc.clone();
    let g = other_field_under_key(cx, &mut doc, f, &cond, r)?;
    let name = format!("ZzCf{}", cx.salt % 1000);
    let note = format!("added `...{name}` (fragment {name} on {cond} {{ {}: {} }}) beside `{}` on {}", g.key(), g.name, field_ref(&cx.gd.doc, f).name, f.set.parent);
    doc.frags.push(Frag { name: name.clone(), cond, sel: vec![Sel::Field(g)] });
    let id = doc.fresh_id();
    let n = set_ref(&doc, &f.set).len();
    set_mut(&mut doc, &f.set).insert(r.below(n + 1), Sel::Spread { id, name, dirs: vec![] });
    out(cx, doc, note)
}

/// 5.3.2, nested: F is written a second time with the same name and arguments
/// (so the two merge and their selection sets are merged too); the copy selects,
/// under the response key of one of F's children, a different field of F's type.
fn conflict_nested(cx: &Cx<'_>, r: &mut Rng) -> Option<Mutant> {
    let mut c: Vec<(&FieldSite, &FieldSite)> = vec![];
    for f in conflict_candidates(cx) {
        let fd = f.fd.as_ref().unwrap();
        if !cx.ts.is_composite(fd.ty.name()) {
            continue;
        }
        let mut child_path = f.set.path.clone();
        child_path.push(f.idx);
        for ch in &cx.sites.fields {
            if ch.fd.is_some() && ch.set.root == f.set.root && ch.set.path == child_path {
                c.push((f, ch));
            }
        }
    }
    let (f, ch) = *pick_opt(r, &c)?;
    let mut doc = cx.gd.doc.clone();
    let inner = other_field_under_key(cx, &mut doc, ch, &ch.set.parent, r)?;
    let mut copy = field_ref(&cx.gd.doc, f).clone();
    copy.id = doc.fresh_id();
    copy.dirs.clear();
    let note = format!(
        "wrote `{}` a second time with a selection `{{ {}: {} }}` that conflicts with its child `{}`",
        copy.name,
        inner.key(),
        inner.name,
        field_ref(&cx.gd.doc, ch).name
    );
    copy.sel = vec![Sel::Field(inner)];
    let n = set_ref(&doc, &f.set).len();
    set_mut(&mut doc, &f.set).insert(r.below(n + 1), Sel::Field(copy));
    out(cx, doc, note)
}

// ------------------------------------------------------------------ 5.4 arguments

/// 5.4.1 Argument Names: every argument must be defined on the field.
fn unknown_argument_on_field(cx: &Cx<'_>, r: &mut Rng) -> Option<Mutant> {
    let c: Vec<&FieldSite> = real_fields(cx).into_iter().filter(|f| f.fd.as_ref().unwrap().arg(NO_ARG).is_none()).collect();
    let f = *pick_opt(r, &c)?;
    let mut doc = cx.gd.doc.clone();
    let fs = field_mut(&mut doc, f);
    let n = fs.args.len();
    fs.args.insert(r.below(n + 1), (NO_ARG.into(), Val::Int(1)));
    out(cx, doc, format!("added argument {NO_ARG} to {}.{}", f.set.parent, f.fd.as_ref().unwrap().name))
}

/// Selections a directive can be attached to and where the validator is not
/// known to look away (`__typename` has its own operators).
fn directive_hosts<'a>(cx: &'a Cx<'_>) -> Vec<&'a (SetSite, usize, char)> {
    cx.sites.sels.iter().filter(|(_, _, k)| *k != 't').collect()
}

/// 5.4.1 for directives: `@skip` only defines `if`.
fn unknown_argument_on_directive(cx: &Cx<'_>, r: &mut Rng) -> Option<Mutant> {
    let hosts = directive_hosts(cx);
    let (set, idx, _) = *pick_opt(r, &hosts)?;
    let mut doc = cx.gd.doc.clone();
    let dirs = dirs_mut(&mut doc, set, *idx);
    if let Some(d) = dirs.iter_mut().find(|d| d.name == "skip" || d.name == "include") {
        d.args.push((NO_ARG.into(), Val::Int(1)));
    } else {
        dirs.push(Dir { name: "skip".into(), args: vec![("if".into(), Val::Bool(false)), (NO_ARG.into(), Val::Int(1))] });
    }
    out(cx, doc, format!("gave a @skip/@include directive the argument {NO_ARG}"))
}

/// 5.4.2 Argument Uniqueness.
fn duplicate_argument(cx: &Cx<'_>, r: &mut Rng) -> Option<Mutant> {
    let c: Vec<&FieldSite> = real_fields(cx).into_iter().filter(|f| !field_ref(&cx.gd.doc, f).args.is_empty()).collect();
    let hosts: Vec<&(SetSite, usize, char)> =
        directive_hosts(cx).into_iter().filter(|(s, i, _)| dirs_ref(&cx.gd.doc, s, *i).iter().any(|d| !d.args.is_empty())).collect();
    let mut doc = cx.gd.doc.clone();
    if !hosts.is_empty() && (c.is_empty() || r.chance(1, 4)) {
        let (set, idx, _) = *r.pick(&hosts);
        let d = dirs_mut(&mut doc, set, *idx).iter_mut().find(|d| !d.args.is_empty()).unwrap();
        let a = d.args[0].clone();
        d.args.push(a);
        let dn = d.name.clone();
        return out(cx, doc, format!("wrote argument `if` of @{dn} twice"));
    }
    let f = *pick_opt(r, &c)?;
    let fs = field_mut(&mut doc, f);
    let i = r.below(fs.args.len());
    let a = fs.args[i].clone();
    let note = format!("wrote argument {} of {}.{} twice", a.0, f.set.parent, fs.name);
    fs.args.insert(i + 1, a);
    out(cx, doc, note)
}

/// 5.4.2.1 Required Arguments: a non-null argument without default must be given.
fn missing_required_argument(cx: &Cx<'_>, r: &mut Rng) -> Option<Mutant> {
    let mut c: Vec<(&FieldSite, String)> = vec![];
    for f in real_fields(cx) {
        for a in &f.fd.as_ref().unwrap().args {
            if a.ty.is_nonnull() && a.default.is_none() && field_ref(&cx.gd.doc, f).args.iter().any(|(k, _)| k == &a.name) {
                c.push((f, a.name.clone()));
            }
        }
    }
    let (f, an) = pick_opt(r, &c)?.clone();
    let mut doc = cx.gd.doc.clone();
    field_mut(&mut doc, f).args.retain(|(k, _)| k != &an);
    out(cx, doc, format!("removed required argument {an} of {}.{}", f.set.parent, f.fd.as_ref().unwrap().name))
}

/// 5.4.2.1 for directives: `@skip(if: Boolean!)`.
fn missing_required_directive_argument(cx: &Cx<'_>, r: &mut Rng) -> Option<Mutant> {
    let hosts = directive_hosts(cx);
    let (set, idx, _) = *pick_opt(r, &hosts)?;
    let mut doc = cx.gd.doc.clone();
    let dirs = dirs_mut(&mut doc, set, *idx);
    if let Some(d) = dirs.iter_mut().find(|d| d.name == "skip" || d.name == "include") {
        d.args.retain(|(k, _)| k != "if");
    } else {
        dirs.push(Dir { name: "skip".into(), args: vec![] });
    }
    out(cx, doc, "a @skip/@include directive without its required argument `if`".into())
}

// ------------------------------------------------------------------ 5.5 fragments

fn insert_inline(cx: &Cx<'_>, r: &mut Rng, cond: &str, named: bool, tag: &str) -> Option<(Doc, String)> {
    let sets = insertable_sets(cx);
    let s = *pick_opt(r, &sets)?;
    let mut doc = cx.gd.doc.clone();
    let t = typename(&mut doc);
    let id = doc.fresh_id();
    let n = set_ref(&doc, s).len();
    let at = r.below(n + 1);
    if named {
        let name = format!("Zz{tag}{}", cx.salt % 1000);
        doc.frags.push(Frag { name: name.clone(), cond: cond.to_string(), sel: vec![t] });
        set_mut(&mut doc, s).insert(at, Sel::Spread { id, name: name.clone(), dirs: vec![] });
        Some((doc, format!("spread `...{name}` (fragment {name} on {cond}) inside a selection on {}", s.parent)))
    } else {
        set_mut(&mut doc, s).insert(at, Sel::Inline { id, cond: Some(cond.to_string()), dirs: vec![], sel: vec![t] });
        Some((doc, format!("inserted `... on {cond} {{ __typename }}` into a selection on {}", s.parent)))
    }
}

/// 5.5.1.2 Fragment Spread Type Existence.
fn fragment_on_unknown_type(cx: &Cx<'_>, r: &mut Rng) -> Option<Mutant> {
    if cx.ts.get(NO_TYPE).is_some() {
        return None;
    }
    let named = r.chance(1, 3);
    let (doc, note) = insert_inline(cx, r, NO_TYPE, named, "Ut")?;
    out(cx, doc, note)
}

/// 5.5.1.3 Fragments On Composite Types: scalar, enum and input types cannot be type conditions.
fn fragment_on_noncomposite_type(cx: &Cx<'_>, r: &mut Rng) -> Option<Mutant> {
    let c: Vec<&str> = cx.ts.types.iter().filter(|t| !cx.ts.is_composite(&t.name)).map(|t| t.name.as_str()).collect();
    let cond = pick_opt(r, &c)?.to_string();
    let named = r.chance(1, 3);
    let (doc, note) = insert_inline(cx, r, &cond, named, "Nc")?;
    out(cx, doc, note)
}

/// 5.5.1.4 Fragments Must Be Used.
fn unused_fragment(cx: &Cx<'_>, r: &mut Rng) -> Option<Mutant> {
    let comps: Vec<&str> = cx.ts.types.iter().filter(|t| cx.ts.is_composite(&t.name)).map(|t| t.name.as_str()).collect();
    let cond = pick_opt(r, &comps)?.to_string();
    let mut doc = cx.gd.doc.clone();
    let t = typename(&mut doc);
    let name = format!("ZzUnused{}", cx.salt % 1000);
    let at = r.below(doc.frags.len() + 1);
    doc.frags.insert(at, Frag { name: name.clone(), cond: cond.clone(), sel: vec![t] });
    out(cx, doc, format!("added fragment {name} on {cond} that nothing spreads"))
}

/// 5.5.2.1 Fragment Spread Target Defined.
fn undefined_fragment_spread(cx: &Cx<'_>, r: &mut Rng) -> Option<Mutant> {
    if cx.gd.doc.frag(NO_FRAG).is_some() {
        return None;
    }
    let sets = insertable_sets(cx);
    let s = *pick_opt(r, &sets)?;
    let mut doc = cx.gd.doc.clone();
    let id = doc.fresh_id();
    let n = set_ref(&doc, s).len();
    set_mut(&mut doc, s).insert(r.below(n + 1), Sel::Spread { id, name: NO_FRAG.into(), dirs: vec![] });
    out(cx, doc, format!("spread the undefined fragment {NO_FRAG} inside a selection on {}", s.parent))
}

/// 5.5.2.2 Fragment Spreads Must Not Form Cycles: a cycle of 1–3 new fragments
/// on the type in scope, entered from a used selection set; or an existing
/// (used) fragment that spreads itself.
fn fragment_cycle(cx: &Cx<'_>, r: &mut Rng) -> Option<Mutant> {
    let mut doc = cx.gd.doc.clone();
    if !doc.frags.is_empty() && r.chance(1, 3) {
        let i = r.below(doc.frags.len());
        let id = doc.fresh_id();
        let name = doc.frags[i].name.clone();
        let n = doc.frags[i].sel.len();
        doc.frags[i].sel.insert(r.below(n + 1), Sel::Spread { id, name: name.clone(), dirs: vec![] });
        return out(cx, doc, format!("made fragment {name} spread itself"));
    }
    let sets = insertable_sets(cx);
    let s = *pick_opt(r, &sets)?;
    let len = 1 + r.below(3);
    let names: Vec<String> = (0..len).map(|k| format!("ZzCy{}x{k}", cx.salt % 1000)).collect();
    for k in 0..len {
        let t = typename(&mut doc);
        let id = doc.fresh_id();
        let next = names[(k + 1) % len].clone();
        doc.frags.push(Frag { name: names[k].clone(), cond: s.parent.clone(), sel: vec![t, Sel::Spread { id, name: next, dirs: vec![] }] });
    }
    let id = doc.fresh_id();
    let n = set_ref(&doc, s).len();
    set_mut(&mut doc, s).insert(r.below(n + 1), Sel::Spread { id, name: names[0].clone(), dirs: vec![] });
    out(cx, doc, format!("added a fragment cycle of length {len} on {} and spread it", s.parent))
}

/// 5.5.2.3 Fragment Spread Is Possible: the possible types of the condition
/// and of the type in scope are disjoint.
fn impossible_fragment_spread(cx: &Cx<'_>, r: &mut Rng) -> Option<Mutant> {
    let sets = insertable_sets(cx);
    let mut order: Vec<&SetSite> = sets.clone();
    r.shuffle(&mut order);
    for s in order.into_iter().take(6) {
        let p = cx.ts.possible_types(&s.parent);
        let c: Vec<&str> = cx
            .ts
            .types
            .iter()
            .filter(|t| cx.ts.is_composite(&t.name))
            .filter(|t| {
                let q = cx.ts.possible_types(&t.name);
                !q.is_empty() && q.intersection(&p).next().is_none()
            })
            .map(|t| t.name.as_str())
            .collect();
        let Some(cond) = pick_opt(r, &c) else { continue };
        let cond = cond.to_string();
        let mut doc = cx.gd.doc.clone();
        let t = typename(&mut doc);
        let id = doc.fresh_id();
        let n = set_ref(&doc, s).len();
        let at = r.below(n + 1);
        let note;
        if r.chance(1, 3) {
            let name = format!("ZzIm{}", cx.salt % 1000);
            doc.frags.push(Frag { name: name.clone(), cond: cond.clone(), sel: vec![t] });
            set_mut(&mut doc, s).insert(at, Sel::Spread { id, name: name.clone(), dirs: vec![] });
            note = format!("spread fragment {name} on {cond} inside a selection on {} (no common possible type)", s.parent);
        } else {
            set_mut(&mut doc, s).insert(at, Sel::Inline { id, cond: Some(cond.clone()), dirs: vec![], sel: vec![t] });
            note = format!("inserted `... on {cond}` into a selection on {} (no common possible type)", s.parent);
        }
        return out(cx, doc, note);
    }
    None
}

// ------------------------------------------------------------------ 5.6 values

#[derive(PartialEq, Clone, Copy)]
enum NK {
    Int,
    Float,
    Str,
    Bool,
    Id,
    Enum,
    Input,
    Other,
}

fn named_kind(ts: &TypeSystem, n: &str) -> NK {
    match ts.get(n).map(|t| &t.kind) {
        Some(Kind::Scalar(ScalarKind::Int)) => NK::Int,
        Some(Kind::Scalar(ScalarKind::Float)) => NK::Float,
        Some(Kind::Scalar(ScalarKind::String)) => NK::Str,
        Some(Kind::Scalar(ScalarKind::Boolean)) => NK::Bool,
        Some(Kind::Scalar(ScalarKind::ID)) => NK::Id,
        Some(Kind::Enum(_)) => NK::Enum,
        Some(Kind::Input { .. }) => NK::Input,
        _ => NK::Other,
    }
}

/// Literals that the spec's input coercion (§3.5.x, §3.9, §3.10) rejects for a
/// position whose innermost named type is of kind `k`, whatever list wrappers
/// surround it (a non-list literal at a list position is coerced as its only
/// item). An object literal is offered only to scalars and enums.
fn wrong_literals(k: NK) -> Vec<Val> {
    let s = Val::Str("x".into());
    let b = Val::Bool(true);
    let i = Val::Int(1);
    let f = Val::Float(1.5);
    let e = Val::Enum("ZZ_NOT_A_VALUE".into());
    let o = Val::Obj(vec![("zz".into(), Val::Int(1))]);
    match k {
        NK::Int => vec![s, b, f, e, o],
        NK::Float => vec![s, b, e, o],
        NK::Str => vec![i, f, b, e, o],
        NK::Bool => vec![i, f, Val::Str("true".into()), e, o],
        NK::Id => vec![f, b, e, o],
        NK::Enum => vec![i, f, b, Val::Str("zz not a member".into()), o],
        NK::Input | NK::Other => vec![],
    }
}

/// Replace the value at `p`; returns the mutated document and the top-level argument value after the edit.
fn replace_val(cx: &Cx<'_>, p: &ValPos, v: Val) -> (Doc, Val) {
    let mut doc = cx.gd.doc.clone();
    *val_mut(&mut doc, p) = v;
    let top = args_ref(&doc, p)[p.arg].1.clone();
    (doc, top)
}

fn where_of(cx: &Cx<'_>, p: &ValPos) -> String {
    let host = match &set_ref(&cx.gd.doc, &p.set)[p.idx] {
        Sel::Field(f) => format!("{}.{}", p.set.parent, f.name),
        Sel::Inline { .. } => "inline fragment".into(),
        Sel::Spread { name, .. } => format!("...{name}"),
    };
    let an = &args_ref(&cx.gd.doc, p)[p.arg].0;
    let dir = p.dir.map(|k| format!(" @{}", dirs_ref(&cx.gd.doc, &p.set, p.idx)[k].name)).unwrap_or_default();
    format!("{host}{dir}({an}:) depth {}", p.vpath.len())
}

fn literal_positions<'a>(cx: &'a Cx<'_>, kinds: &[NK]) -> Vec<&'a ValPos> {
    cx.sites
        .vals
        .iter()
        .filter(|p| !matches!(p.val, Val::Var(_) | Val::Null))
        .filter(|p| kinds.contains(&named_kind(cx.ts, p.ty.name())))
        // a literal that is itself a list sits at a list position; replacing it by a scalar is still the
        // single-item case, so it qualifies. An object literal at a scalar position cannot occur in a valid base.
        .collect()
}

const SCALARISH: [NK; 6] = [NK::Int, NK::Float, NK::Str, NK::Bool, NK::Id, NK::Enum];

/// 5.6.1 Values of Correct Type: a literal of a kind the position's type does
/// not accept, in an argument whose variables (if any) are all supplied.
fn wrong_kind_literal(cx: &Cx<'_>, r: &mut Rng) -> Option<Mutant> {
    let mut c = literal_positions(cx, &SCALARISH);
    r.shuffle(&mut c);
    for p in c.into_iter().take(8) {
        let k = named_kind(cx.ts, p.ty.name());
        let mut w = wrong_literals(k);
        if p.ty.list_depth() == 0 && k != NK::Enum {
            // a list literal where no list is expected
            w.push(Val::List(vec![p.val.clone()]));
        }
        let v = r.pick(&w).clone();
        let (doc, top) = replace_val(cx, p, v.clone());
        if has_unsupplied_var(&top, &cx.gd.vars) {
            continue;
        }
        return out(cx, doc, format!("{}: literal {} where {} is expected", where_of(cx, p), v.gql(), p.ty));
    }
    None
}

/// 5.6.1 as above, but another part of the same argument mentions a variable
/// the request does not supply. G2 never leaves a nested variable unsupplied, so
/// the operator first makes the (validity-preserving) edit itself: inside an
/// input-object literal it sets an absent nullable field to a fresh nullable
/// variable `$zzOpt` (declared without default, omitted from the request: legal),
/// or appends `$zzOpt` to a list literal whose items are nullable. Then, as the
/// invalidating edit, a scalar/enum position of the same argument receives a
/// literal of a wrong kind: wrong whatever the variable's value is.
fn wrong_kind_literal_beside_unsupplied_variable(cx: &Cx<'_>, r: &mut Rng) -> Option<Mutant> {
    let mut c: Vec<&ValPos> = cx
        .sites
        .vals
        .iter()
        .filter(|p| p.dir.is_none() && matches!(p.val, Val::Obj(_) | Val::List(_)))
        .filter(|p| matches!(&p.set.root, Root::Frag(_)) || p.set.root == Root::Op(cx.main_op))
        .collect();
    r.shuffle(&mut c);
    if cx.gd.doc.ops[cx.main_op].vars.iter().any(|v| v.name == "zzOpt") {
        return None;
    }
    for p in c.into_iter().take(12) {
        let var_ty: Ty;
        let note: String;
        let new_val = match (&p.val, p.ty.nullable()) {
            (Val::List(xs), Ty::List(item)) if !item.is_nonnull() && SCALARISH.contains(&named_kind(cx.ts, item.name())) && item.list_depth() == 0 => {
                let mut xs = xs.clone();
                let w = r.pick(&wrong_literals(named_kind(cx.ts, item.name()))).clone();
                note = format!("list literal given the item {} and the unsupplied variable $zzOpt: {item}", w.gql());
                xs.push(w);
                let at = r.below(xs.len() + 1);
                xs.insert(at, Val::Var("zzOpt".into()));
                var_ty = (**item).clone();
                Val::List(xs)
            }
            (Val::Obj(m), _) => {
                let Some(Kind::Input { fields, oneof: false }) = cx.ts.get(p.ty.name()).map(|t| &t.kind) else { continue };
                let absent_nullable: Vec<&ArgDef> = fields.iter().filter(|d| !d.ty.is_nonnull() && !m.iter().any(|(k, _)| k == &d.name)).collect();
                let Some(d1) = pick_opt(r, &absent_nullable) else { continue };
                let scalarish: Vec<&ArgDef> = fields
                    .iter()
                    .filter(|d| d.name != d1.name && SCALARISH.contains(&named_kind(cx.ts, d.ty.name())))
                    .filter(|d| match m.iter().find(|(k, _)| k == &d.name) {
                        Some((_, v)) => !v.contains_var(),
                        None => true,
                    })
                    .collect();
                let Some(d2) = pick_opt(r, &scalarish) else { continue };
                let w = r.pick(&wrong_literals(named_kind(cx.ts, d2.ty.name()))).clone();
                let mut m = m.clone();
                m.retain(|(k, _)| k != &d2.name);
                m.push((d2.name.clone(), w.clone()));
                m.push((d1.name.clone(), Val::Var("zzOpt".into())));
                var_ty = d1.ty.clone();
                note = format!("input object {}: field {} given {} (expects {}), field {} set to the unsupplied variable $zzOpt: {}", p.ty.name(), d2.name, w.gql(), d2.ty, d1.name, d1.ty);
                Val::Obj(m)
            }
            _ => continue,
        };
        let (mut doc, top) = replace_val(cx, p, new_val);
        if !has_unsupplied_var(&top, &cx.gd.vars) && supplied(&cx.gd.vars, "zzOpt") {
            continue;
        }
        doc.ops[cx.main_op].vars.push(VarDef { name: "zzOpt".into(), ty: var_ty, default: None });
        return out(cx, doc, format!("{}: {note}", where_of(cx, p)));
    }
    None
}

/// 5.6.1 / §3.9 Enums, input coercion: "GraphQL has a constant literal to
/// represent enum input values. GraphQL string literals must not be accepted
/// as an enum input": the string spells a member, it is still not an enum value.
fn string_literal_for_enum(cx: &Cx<'_>, r: &mut Rng) -> Option<Mutant> {
    let mut c = literal_positions(cx, &[NK::Enum]);
    r.shuffle(&mut c);
    for p in c.into_iter().take(8) {
        let Some(Kind::Enum(members)) = cx.ts.get(p.ty.name()).map(|t| &t.kind) else { continue };
        let m = match &p.val {
            Val::Enum(e) => e.clone(),
            _ => r.pick(members).clone(),
        };
        let (doc, top) = replace_val(cx, p, Val::Str(m.clone()));
        if has_unsupplied_var(&top, &cx.gd.vars) {
            continue;
        }
        return out(cx, doc, format!("{}: string literal \"{m}\" where enum {} is expected", where_of(cx, p), p.ty));
    }
    None
}

/// 5.6.1 / §3.10 Input Objects, input coercion: only an object literal (or a
/// variable) is accepted for an input object type.
fn non_object_literal_for_input_object(cx: &Cx<'_>, r: &mut Rng) -> Option<Mutant> {
    let mut c = literal_positions(cx, &[NK::Input]);
    r.shuffle(&mut c);
    for p in c.into_iter().take(8) {
        let v = r.pick(&[Val::Int(1), Val::Str("x".into()), Val::Bool(true), Val::Float(1.5), Val::Enum("ZZ_NOT_A_VALUE".into())]).clone();
        let (doc, top) = replace_val(cx, p, v.clone());
        if has_unsupplied_var(&top, &cx.gd.vars) {
            continue;
        }
        return out(cx, doc, format!("{}: literal {} where input object {} is expected", where_of(cx, p), v.gql(), p.ty));
    }
    None
}

/// 5.6.1: `null` is not a value of a non-null type.
fn null_for_non_null(cx: &Cx<'_>, r: &mut Rng) -> Option<Mutant> {
    let mut c: Vec<&ValPos> = cx.sites.vals.iter().filter(|p| p.ty.is_nonnull() && p.val != Val::Null).collect();
    r.shuffle(&mut c);
    for p in c.into_iter().take(8) {
        let (doc, top) = replace_val(cx, p, Val::Null);
        if has_unsupplied_var(&top, &cx.gd.vars) {
            continue;
        }
        return out(cx, doc, format!("{}: null where {} is expected", where_of(cx, p), p.ty));
    }
    None
}

/// 5.6.1 / §3.9: an enum literal that is not a member of the enum.
fn unknown_enum_value(cx: &Cx<'_>, r: &mut Rng) -> Option<Mutant> {
    let mut c = literal_positions(cx, &[NK::Enum]);
    r.shuffle(&mut c);
    for p in c.into_iter().take(8) {
        let Some(Kind::Enum(members)) = cx.ts.get(p.ty.name()).map(|t| &t.kind) else { continue };
        if members.iter().any(|m| m == NO_ENUM) {
            continue;
        }
        let (doc, top) = replace_val(cx, p, Val::Enum(NO_ENUM.into()));
        if has_unsupplied_var(&top, &cx.gd.vars) {
            continue;
        }
        return out(cx, doc, format!("{}: enum literal {NO_ENUM} is not a value of {}", where_of(cx, p), p.ty.name()));
    }
    None
}

fn object_positions<'a>(cx: &'a Cx<'_>) -> Vec<(&'a ValPos, Vec<ArgDef>, bool)> {
    cx.sites
        .vals
        .iter()
        .filter_map(|p| match (&p.val, cx.ts.get(p.ty.name()).map(|t| &t.kind)) {
            (Val::Obj(_), Some(Kind::Input { fields, oneof })) => Some((p, fields.clone(), *oneof)),
            _ => None,
        })
        .collect()
}

/// 5.6.2 Input Object Field Names.
fn unknown_input_field(cx: &Cx<'_>, r: &mut Rng) -> Option<Mutant> {
    let mut c = object_positions(cx);
    r.shuffle(&mut c);
    for (p, defs, _) in c.into_iter().take(8) {
        if defs.iter().any(|d| d.name == NO_FIELD) {
            continue;
        }
        let Val::Obj(mut m) = p.val.clone() else { continue };
        let n = m.len();
        m.insert(r.below(n + 1), (NO_FIELD.into(), Val::Int(1)));
        let (doc, top) = replace_val(cx, p, Val::Obj(m));
        if has_unsupplied_var(&top, &cx.gd.vars) {
            continue;
        }
        return out(cx, doc, format!("{}: input object {} given the undefined field {NO_FIELD}", where_of(cx, p), p.ty.name()));
    }
    None
}

/// 5.6.3 Input Object Field Uniqueness.
fn duplicate_input_field(cx: &Cx<'_>, r: &mut Rng) -> Option<Mutant> {
    let mut c = object_positions(cx);
    r.shuffle(&mut c);
    for (p, _, _) in c.into_iter().take(8) {
        let Val::Obj(mut m) = p.val.clone() else { continue };
        if m.is_empty() {
            continue;
        }
        let i = r.below(m.len());
        let e = m[i].clone();
        m.insert(i + 1, e.clone());
        let (doc, top) = replace_val(cx, p, Val::Obj(m));
        if has_unsupplied_var(&top, &cx.gd.vars) {
            continue;
        }
        return out(cx, doc, format!("{}: input object {} has field {} twice", where_of(cx, p), p.ty.name(), e.0));
    }
    None
}

/// 5.6.4 Input Object Required Fields.
fn missing_required_input_field(cx: &Cx<'_>, r: &mut Rng) -> Option<Mutant> {
    let mut c = object_positions(cx);
    r.shuffle(&mut c);
    for (p, defs, oneof) in c {
        if oneof {
            continue;
        }
        let Val::Obj(mut m) = p.val.clone() else { continue };
        let req: Vec<&ArgDef> = defs.iter().filter(|d| d.ty.is_nonnull() && d.default.is_none() && m.iter().any(|(k, _)| k == &d.name)).collect();
        let Some(d) = pick_opt(r, &req) else { continue };
        m.retain(|(k, _)| k != &d.name);
        let (doc, top) = replace_val(cx, p, Val::Obj(m));
        if has_unsupplied_var(&top, &cx.gd.vars) {
            continue;
        }
        return out(cx, doc, format!("{}: input object {} without its required field {}", where_of(cx, p), p.ty.name(), d.name));
    }
    None
}

// ------------------------------------------------------------------ 5.7 directives

/// 5.7.1 Directives Are Defined.
fn unknown_directive(cx: &Cx<'_>, r: &mut Rng) -> Option<Mutant> {
    let hosts = directive_hosts(cx);
    let (set, idx, _) = *pick_opt(r, &hosts)?;
    let mut doc = cx.gd.doc.clone();
    let dirs = dirs_mut(&mut doc, set, *idx);
    let n = dirs.len();
    dirs.insert(r.below(n + 1), Dir { name: NO_DIR.into(), args: vec![] });
    out(cx, doc, format!("added @{NO_DIR} to a selection on {}", set.parent))
}

/// 5.7.2 Directives Are In Valid Locations: `@skip`/`@include` are declared
/// for FIELD | FRAGMENT_SPREAD | INLINE_FRAGMENT, not for operations.
fn directive_on_operation(cx: &Cx<'_>, r: &mut Rng) -> Option<Mutant> {
    let mut doc = cx.gd.doc.clone();
    let i = r.below(doc.ops.len());
    let (n, v) = if r.bool() { ("skip", false) } else { ("include", true) };
    doc.ops[i].dirs.push(Dir { name: n.into(), args: vec![("if".into(), Val::Bool(v))] });
    out(cx, doc, format!("put @{n}(if: {v}) on an operation definition"))
}

/// 5.7.3 Directives Are Unique Per Location (`@skip`, `@include` are not repeatable).
fn duplicate_directive(cx: &Cx<'_>, r: &mut Rng) -> Option<Mutant> {
    let hosts = directive_hosts(cx);
    let (set, idx, _) = *pick_opt(r, &hosts)?;
    let mut doc = cx.gd.doc.clone();
    let dirs = dirs_mut(&mut doc, set, *idx);
    let name;
    if let Some(d) = dirs.iter().find(|d| d.name == "skip" || d.name == "include").cloned() {
        name = d.name.clone();
        let neutral = d.name == "include";
        dirs.push(Dir { name: d.name, args: vec![("if".into(), Val::Bool(neutral))] });
    } else {
        name = "include".to_string();
        for _ in 0..2 {
            dirs.push(Dir { name: "include".into(), args: vec![("if".into(), Val::Bool(true))] });
        }
    }
    out(cx, doc, format!("@{name} twice on one selection on {}", set.parent))
}

// ------------------------------------------------------------------ 5.8 variables

fn ops_with_vars(cx: &Cx<'_>) -> Vec<usize> {
    cx.gd.doc.ops.iter().enumerate().filter(|(_, o)| !o.vars.is_empty()).map(|(i, _)| i).collect()
}

/// 5.8.1 Variable Uniqueness.
fn duplicate_variable(cx: &Cx<'_>, r: &mut Rng) -> Option<Mutant> {
    let c = ops_with_vars(cx);
    let oi = *pick_opt(r, &c)?;
    let mut doc = cx.gd.doc.clone();
    let vi = r.below(doc.ops[oi].vars.len());
    let v = doc.ops[oi].vars[vi].clone();
    let at = r.below(doc.ops[oi].vars.len() + 1);
    doc.ops[oi].vars.insert(at, v.clone());
    out(cx, doc, format!("defined variable ${} twice", v.name))
}

/// Fields (not `__typename`) of the operation `oi` itself or of any named
/// fragment, lacking `@include`, to which `@include(if: $x)` can be attached.
fn include_hosts<'a>(cx: &'a Cx<'_>, root: Option<&Root>, frag_only: bool) -> Vec<&'a FieldSite> {
    real_fields(cx)
        .into_iter()
        .filter(|f| match (&f.set.root, root) {
            (Root::Frag(_), _) if frag_only => true,
            (_, _) if frag_only => false,
            (x, Some(y)) => x == y,
            (_, None) => true,
        })
        .filter(|f| !has_dir(&field_ref(&cx.gd.doc, f).dirs, "include"))
        .collect()
}

fn with_var(vars: &J, name: &str, v: J) -> J {
    let mut m = vars.as_object().cloned().unwrap_or_default();
    m.insert(name.to_string(), v);
    J::Object(m)
}

/// 5.8.2 Variables Are Input Types: a variable is declared with an object /
/// interface / union type (and used, so that "unused variable" cannot be the
/// reason of a rejection).
fn variable_of_output_type(cx: &Cx<'_>, r: &mut Rng) -> Option<Mutant> {
    let comps: Vec<&str> = cx.ts.types.iter().filter(|t| cx.ts.is_composite(&t.name)).map(|t| t.name.as_str()).collect();
    let ty = pick_opt(r, &comps)?.to_string();
    let mut doc = cx.gd.doc.clone();
    let c = ops_with_vars(cx);
    if !c.is_empty() && r.chance(1, 2) {
        let oi = *r.pick(&c);
        let vi = r.below(doc.ops[oi].vars.len());
        let v = &mut doc.ops[oi].vars[vi];
        let old = v.ty.to_string();
        v.ty = Ty::named(&ty);
        v.default = None;
        let name = v.name.clone();
        return out(cx, doc, format!("declared ${name} as {ty} (was {old})"));
    }
    let root = Root::Op(cx.main_op);
    let hosts = include_hosts(cx, Some(&root), false);
    let h = *pick_opt(r, &hosts)?;
    doc.ops[cx.main_op].vars.push(VarDef { name: "zzOut".into(), ty: Ty::named(&ty), default: None });
    field_mut(&mut doc, h).dirs.push(Dir { name: "include".into(), args: vec![("if".into(), Val::Var("zzOut".into()))] });
    out_vars(cx, doc, with_var(&cx.gd.vars, "zzOut", json!(true)), format!("declared and used $zzOut: {ty}"))
}

/// 5.8.2 Variables Are Input Types: the declared type does not exist at all.
fn variable_of_unknown_type(cx: &Cx<'_>, r: &mut Rng) -> Option<Mutant> {
    if cx.ts.get(NO_TYPE).is_some() {
        return None;
    }
    let c = ops_with_vars(cx);
    let oi = *pick_opt(r, &c)?;
    let mut doc = cx.gd.doc.clone();
    let vi = r.below(doc.ops[oi].vars.len());
    let v = &mut doc.ops[oi].vars[vi];
    let old = v.ty.to_string();
    v.ty = rename_named(&v.ty, NO_TYPE);
    v.default = None;
    let name = v.name.clone();
    let new = v.ty.to_string();
    out(cx, doc, format!("declared ${name} as {new} (was {old})"))
}

/// 5.6.1 Values of Correct Type applies to variable default values: a default
/// of a kind the declared type does not accept, or `null` for a non-null type.
fn wrong_kind_variable_default(cx: &Cx<'_>, r: &mut Rng) -> Option<Mutant> {
    let mut c: Vec<(usize, usize)> = vec![];
    for (oi, o) in cx.gd.doc.ops.iter().enumerate() {
        for (vi, v) in o.vars.iter().enumerate() {
            if SCALARISH.contains(&named_kind(cx.ts, v.ty.name())) {
                c.push((oi, vi));
            }
        }
    }
    let (oi, vi) = *pick_opt(r, &c)?;
    let mut doc = cx.gd.doc.clone();
    let v = &mut doc.ops[oi].vars[vi];
    let d = if v.ty.is_nonnull() && r.chance(1, 4) { Val::Null } else { r.pick(&wrong_literals(named_kind(cx.ts, v.ty.name()))).clone() };
    v.default = Some(d.clone());
    let note = format!("gave ${}: {} the default value {}", v.name, v.ty, d.gql());
    out(cx, doc, note)
}

/// 5.8.3 All Variable Uses Defined, use written directly in the operation.
fn undefined_variable(cx: &Cx<'_>, r: &mut Rng) -> Option<Mutant> {
    let root = Root::Op(cx.main_op);
    let hosts = include_hosts(cx, Some(&root), false);
    let h = *pick_opt(r, &hosts)?;
    let mut doc = cx.gd.doc.clone();
    field_mut(&mut doc, h).dirs.push(Dir { name: "include".into(), args: vec![("if".into(), Val::Var("zzUndef".into()))] });
    out_vars(cx, doc, with_var(&cx.gd.vars, "zzUndef", json!(true)), "used the undefined variable $zzUndef in the operation".into())
}

/// 5.8.3, use written inside a named fragment (every fragment of a G2
/// document is spread, transitively, by the operation).
fn undefined_variable_in_fragment(cx: &Cx<'_>, r: &mut Rng) -> Option<Mutant> {
    let hosts = include_hosts(cx, None, true);
    let h = *pick_opt(r, &hosts)?;
    let mut doc = cx.gd.doc.clone();
    field_mut(&mut doc, h).dirs.push(Dir { name: "include".into(), args: vec![("if".into(), Val::Var("zzUndef".into()))] });
    out_vars(cx, doc, with_var(&cx.gd.vars, "zzUndef", json!(true)), "used the undefined variable $zzUndef inside a named fragment".into())
}

/// 5.8.4 All Variables Used.
fn unused_variable(cx: &Cx<'_>, r: &mut Rng) -> Option<Mutant> {
    let mut doc = cx.gd.doc.clone();
    let oi = r.below(doc.ops.len());
    let ty = r.pick(&["Int", "String", "Boolean", "ID", "[Int!]"]).to_string();
    let at = r.below(doc.ops[oi].vars.len() + 1);
    doc.ops[oi].vars.insert(at, VarDef { name: "zzUnused".into(), ty: Ty::parse(&ty), default: None });
    out(cx, doc, format!("defined $zzUnused: {ty} and never used it"))
}

fn var_usages<'a>(cx: &'a Cx<'_>) -> Vec<(&'a ValPos, String)> {
    cx.sites
        .vals
        .iter()
        .filter_map(|p| match &p.val {
            Val::Var(n) => Some((p, n.clone())),
            _ => None,
        })
        .collect()
}

fn var_def_index(cx: &Cx<'_>, name: &str) -> Option<(usize, usize)> {
    for (oi, o) in cx.gd.doc.ops.iter().enumerate() {
        if let Some(vi) = o.vars.iter().position(|v| v.name == name) {
            return Some((oi, vi));
        }
    }
    None
}

fn rename_named(t: &Ty, n: &str) -> Ty {
    match t {
        Ty::Named(_) => Ty::named(n),
        Ty::List(i) => Ty::List(Box::new(rename_named(i, n))),
        Ty::NonNull(i) => Ty::NonNull(Box::new(rename_named(i, n))),
    }
}

fn map_scalars(j: &J, to: &J) -> J {
    match j {
        J::Null => J::Null,
        J::Array(a) => J::Array(a.iter().map(|x| map_scalars(x, to)).collect()),
        _ => to.clone(),
    }
}

/// 5.8.5 All Variable Usages Are Allowed, named type: AreTypesCompatible
/// bottoms out in "variableType and locationType are identical"; the variable
/// is re-declared with another scalar type while its runtime value is one that
/// both types accept (3 for Int/Float/ID, "x" for String/ID).
fn variable_position_other_named_type(cx: &Cx<'_>, r: &mut Rng) -> Option<Mutant> {
    let mut u = var_usages(cx);
    r.shuffle(&mut u);
    for (_, name) in u {
        let Some((oi, vi)) = var_def_index(cx, &name) else { continue };
        let def = &cx.gd.doc.ops[oi].vars[vi];
        if def.default.is_some() {
            continue;
        }
        let (cands, value): (&[&str], J) = match def.ty.name() {
            "Int" => (&["Float", "ID"], json!(3)),
            "Float" => (&["Int", "ID"], json!(3)),
            "ID" => {
                if r.bool() {
                    (&["String"], json!("x"))
                } else {
                    (&["Int"], json!(3))
                }
            }
            "String" => (&["ID"], json!("x")),
            _ => continue,
        };
        let to = r.pick(cands).to_string();
        let mut doc = cx.gd.doc.clone();
        let old = def.ty.to_string();
        doc.ops[oi].vars[vi].ty = rename_named(&def.ty, &to);
        let mut vars = cx.gd.vars.clone();
        if let Some(j) = cx.gd.vars.get(&name) {
            vars = with_var(&vars, &name, map_scalars(j, &value));
        }
        let new = doc.ops[oi].vars[vi].ty.to_string();
        return out_vars(cx, doc, vars, format!("re-declared ${name}: {old} as {new}; every position it is used in still expects {}", def.ty.name()));
    }
    None
}

/// 5.8.5, nullability: a nullable variable without default at a non-null
/// position whose argument / input field has no default either
/// (AreTypesCompatible: locationType non-null, variableType nullable, neither
/// hasNonNullVariableDefaultValue nor hasLocationDefaultValue). The runtime
/// value is present and non-null, so only validation can object.
fn variable_position_nullable_into_non_null(cx: &Cx<'_>, r: &mut Rng) -> Option<Mutant> {
    let mut u = var_usages(cx);
    r.shuffle(&mut u);
    for (p, name) in u {
        if !p.ty.is_nonnull() || p.loc_default {
            continue;
        }
        let Some((oi, vi)) = var_def_index(cx, &name) else { continue };
        let def = &cx.gd.doc.ops[oi].vars[vi];
        if def.default.is_some() || !def.ty.is_nonnull() {
            continue;
        }
        match cx.gd.vars.get(&name) {
            Some(J::Null) | None => continue,
            _ => {}
        }
        let mut doc = cx.gd.doc.clone();
        doc.ops[oi].vars[vi].ty = def.ty.nullable().clone();
        return out(
            cx,
            doc,
            format!("re-declared ${name}: {} as {} (no default) while {} expects {}", def.ty, def.ty.nullable(), where_of(cx, p), p.ty),
        );
    }
    None
}

/// 5.8.5, list depth: AreTypesCompatible returns false when exactly one of
/// variableType / locationType is a list type. So that nothing but this rule
/// can object, the runtime value still suits the position: a `T` variable at a
/// `[T]` position carries a single value (list input coercion accepts it); a
/// `[T]` variable at a `T` position is made nullable and omitted.
fn variable_position_list_depth(cx: &Cx<'_>, r: &mut Rng) -> Option<Mutant> {
    let mut u = var_usages(cx);
    r.shuffle(&mut u);
    for (p, name) in u {
        let Some((oi, vi)) = var_def_index(cx, &name) else { continue };
        let def = &cx.gd.doc.ops[oi].vars[vi];
        if def.ty.list_depth() != p.ty.list_depth() {
            continue;
        }
        let mut doc = cx.gd.doc.clone();
        let mut m = cx.gd.vars.as_object().cloned().unwrap_or_default();
        let new_ty = match def.ty.nullable() {
            Ty::List(item) => {
                let t = (**item).clone();
                m.insert(name.clone(), nonnull_literal(cx.ts, &t, r).json());
                t
            }
            _ => {
                m.shift_remove(&name);
                def.ty.nullable().clone().list()
            }
        };
        doc.ops[oi].vars[vi].ty = new_ty.clone();
        doc.ops[oi].vars[vi].default = None;
        return out_vars(
            cx,
            doc,
            J::Object(m),
            format!("re-declared ${name}: {} as {new_ty} while {} expects {}", def.ty, where_of(cx, p), p.ty),
        );
    }
    None
}

// ------------------------------------------------------------------ §6.1.2 variable values

/// Variables with a usage in an argument all of whose variables are supplied.
fn checked_usage(cx: &Cx<'_>, name: &str) -> bool {
    var_usages(cx).iter().any(|(p, n)| n == name && !has_unsupplied_var(&args_ref(&cx.gd.doc, p)[p.arg].1, &cx.gd.vars))
}

/// §6.1.2 CoerceVariableValues 3.h: a non-null variable without default whose
/// value is not provided is a request error.
fn variables_missing_required(cx: &Cx<'_>, r: &mut Rng) -> Option<Mutant> {
    let op = &cx.gd.doc.ops[cx.main_op];
    let c: Vec<&VarDef> = op.vars.iter().filter(|v| v.ty.is_nonnull() && v.default.is_none() && supplied(&cx.gd.vars, &v.name)).collect();
    let v = *pick_opt(r, &c)?;
    let mut m = cx.gd.vars.as_object().cloned().unwrap_or_default();
    m.shift_remove(&v.name);
    out_vars(cx, cx.gd.doc.clone(), J::Object(m), format!("request omits the required variable ${}: {}", v.name, v.ty))
}

/// §6.1.2 3.i/j: the provided value cannot be coerced to the variable's type
/// (a JSON object for a built-in scalar or an enum, at any list depth).
fn variables_wrong_kind(cx: &Cx<'_>, r: &mut Rng) -> Option<Mutant> {
    let op = &cx.gd.doc.ops[cx.main_op];
    let c: Vec<&VarDef> = op
        .vars
        .iter()
        .filter(|v| SCALARISH.contains(&named_kind(cx.ts, v.ty.name())))
        .filter(|v| matches!(cx.gd.vars.get(&v.name), Some(j) if !j.is_null()))
        .filter(|v| checked_usage(cx, &v.name))
        .collect();
    let v = *pick_opt(r, &c)?;
    let bad = json!({"zz": true});
    out_vars(cx, cx.gd.doc.clone(), with_var(&cx.gd.vars, &v.name, bad.clone()), format!("request gives ${}: {} the value {bad}", v.name, v.ty))
}

/// §6.1.2 with §3.9: a string that is not a member of the enum.
fn variables_unknown_enum_value(cx: &Cx<'_>, r: &mut Rng) -> Option<Mutant> {
    let op = &cx.gd.doc.ops[cx.main_op];
    let c: Vec<&VarDef> = op
        .vars
        .iter()
        .filter(|v| named_kind(cx.ts, v.ty.name()) == NK::Enum)
        .filter(|v| matches!(cx.gd.vars.get(&v.name), Some(j) if !j.is_null()))
        .filter(|v| checked_usage(cx, &v.name))
        .collect();
    let v = *pick_opt(r, &c)?;
    out_vars(
        cx,
        cx.gd.doc.clone(),
        with_var(&cx.gd.vars, &v.name, json!(NO_ENUM)),
        format!("request gives ${}: {} the value \"{NO_ENUM}\"", v.name, v.ty),
    )
}

// ------------------------------------------------------------------ 5.2 operations

/// 5.2.3.1 Single Root Field: the subscription's grouped field set must have exactly one entry.
fn subscription_second_root_field(cx: &Cx<'_>, r: &mut Rng) -> Option<Mutant> {
    let op = &cx.gd.doc.ops[cx.main_op];
    if op.kind != OpKind::Subscription {
        return None;
    }
    let root = cx.ts.subscription.clone()?;
    let fd = r.pick(cx.ts.fields(&root)).clone();
    let mut doc = cx.gd.doc.clone();
    let f = valid_field(cx.ts, &mut doc, &fd, Some("zzSecond".into()), r);
    let at = r.below(doc.ops[cx.main_op].sel.len() + 1);
    doc.ops[cx.main_op].sel.insert(at, Sel::Field(f));
    out(cx, doc, format!("added a second root field `zzSecond: {}` to the subscription", fd.name))
}

/// 5.2.3.1, the second root field arrives through a fragment spread / inline fragment.
fn subscription_second_root_field_via_fragment(cx: &Cx<'_>, r: &mut Rng) -> Option<Mutant> {
    let op = &cx.gd.doc.ops[cx.main_op];
    if op.kind != OpKind::Subscription {
        return None;
    }
    let root = cx.ts.subscription.clone()?;
    let fd = r.pick(cx.ts.fields(&root)).clone();
    let mut doc = cx.gd.doc.clone();
    let f = valid_field(cx.ts, &mut doc, &fd, Some("zzSecond".into()), r);
    let id = doc.fresh_id();
    let at = r.below(doc.ops[cx.main_op].sel.len() + 1);
    if r.bool() {
        let name = format!("ZzSub{}", cx.salt % 1000);
        doc.frags.push(Frag { name: name.clone(), cond: root.clone(), sel: vec![Sel::Field(f)] });
        doc.ops[cx.main_op].sel.insert(at, Sel::Spread { id, name, dirs: vec![] });
    } else {
        doc.ops[cx.main_op].sel.insert(at, Sel::Inline { id, cond: Some(root.clone()), dirs: vec![], sel: vec![Sel::Field(f)] });
    }
    out(cx, doc, format!("added a second root field `zzSecond: {}` to the subscription through a fragment", fd.name))
}

/// 5.2.1.1 Operation Name Uniqueness.
fn duplicate_operation_name(cx: &Cx<'_>, r: &mut Rng) -> Option<Mutant> {
    let named: Vec<&Op> = cx.gd.doc.ops.iter().filter(|o| o.name.is_some()).collect();
    let o = *pick_opt(r, &named)?;
    let mut doc = cx.gd.doc.clone();
    let t = typename(&mut doc);
    let twin = Op { kind: OpKind::Query, name: o.name.clone(), vars: vec![], dirs: vec![], sel: vec![t] };
    let at = r.below(doc.ops.len() + 1);
    doc.ops.insert(at, twin);
    out(cx, doc, format!("added a second operation named {}", o.name.as_deref().unwrap_or("")))
}

/// 5.2.2.1 Lone Anonymous Operation.
fn anonymous_and_other_operation(cx: &Cx<'_>, r: &mut Rng) -> Option<Mutant> {
    let mut doc = cx.gd.doc.clone();
    let t = typename(&mut doc);
    let has_anon = doc.ops.iter().any(|o| o.name.is_none());
    let name = if has_anon && r.bool() { Some("ZzNamed".to_string()) } else { None };
    let note = match &name {
        Some(n) => format!("added operation {n} beside the anonymous operation"),
        None => "added an anonymous operation beside the existing operation(s)".to_string(),
    };
    let at = r.below(doc.ops.len() + 1);
    doc.ops.insert(at, Op { kind: OpKind::Query, name, vars: vec![], dirs: vec![], sel: vec![t] });
    out(cx, doc, note)
}

/// 5.5.1.1 Fragment Name Uniqueness.
fn duplicate_fragment_name(cx: &Cx<'_>, r: &mut Rng) -> Option<Mutant> {
    if cx.gd.doc.frags.is_empty() {
        return None;
    }
    let mut doc = cx.gd.doc.clone();
    let i = r.below(doc.frags.len());
    let t = typename(&mut doc);
    let twin = Frag { name: doc.frags[i].name.clone(), cond: doc.frags[i].cond.clone(), sel: vec![t] };
    let name = twin.name.clone();
    let at = r.below(doc.frags.len() + 1);
    doc.frags.insert(at, twin);
    out(cx, doc, format!("defined fragment {name} twice"))
}

// ------------------------------------------------------------------ validity-preserving variants
//
// Edits after which the document is STILL valid, placed next to the rule
// boundaries the operators above cross from the other side. They must be accepted.

/// 5.3.2 allows one response key to denote different fields when the two
/// parent types are different OBJECT types (they can never apply to the same
/// object) as long as the response shapes agree: here both are leaves of the
/// identical type, under `... on A` and `... on B` inside an abstract parent.
fn vv_same_key_on_disjoint_object_types(cx: &Cx<'_>, r: &mut Rng) -> Option<Mutant> {
    let mut sets: Vec<&SetSite> = insertable_sets(cx)
        .into_iter()
        .filter(|s| matches!(cx.ts.kind(&s.parent), Kind::Interface { .. } | Kind::Union(_)))
        .collect();
    r.shuffle(&mut sets);
    for s in sets.into_iter().take(4) {
        let pts: Vec<String> = cx.ts.possible_types(&s.parent).into_iter().collect();
        if pts.len() < 2 {
            continue;
        }
        let a = r.pick(&pts).clone();
        let others: Vec<&String> = pts.iter().filter(|t| **t != a).collect();
        let b = (*r.pick(&others)).clone();
        let mut pairs: Vec<(&FieldDef, &FieldDef)> = vec![];
        for fa in cx.ts.fields(&a) {
            for fb in cx.ts.fields(&b) {
                if fa.name != fb.name && fa.ty == fb.ty && cx.ts.is_leaf(fa.ty.name()) {
                    pairs.push((fa, fb));
                }
            }
        }
        let Some((fa, fb)) = pick_opt(r, &pairs) else { continue };
        let mut doc = cx.gd.doc.clone();
        let key = format!("zzK{}", cx.salt % 1000);
        let x = valid_field(cx.ts, &mut doc, fa, Some(key.clone()), r);
        let y = valid_field(cx.ts, &mut doc, fb, Some(key.clone()), r);
        let (i1, i2) = (doc.fresh_id(), doc.fresh_id());
        let set = set_mut(&mut doc, s);
        set.push(Sel::Inline { id: i1, cond: Some(a.clone()), dirs: vec![], sel: vec![Sel::Field(x)] });
        set.push(Sel::Inline { id: i2, cond: Some(b.clone()), dirs: vec![], sel: vec![Sel::Field(y)] });
        return out(cx, doc, format!("`... on {a} {{ {key}: {} }} ... on {b} {{ {key}: {} }}` (both {}) inside a selection on {}", fa.name, fb.name, fa.ty, s.parent));
    }
    None
}

/// §3.11 List input coercion: a single value where a list is expected is the list of that one value.
fn vv_single_value_for_list(cx: &Cx<'_>, r: &mut Rng) -> Option<Mutant> {
    let c: Vec<&ValPos> = cx
        .sites
        .vals
        .iter()
        .filter(|p| p.ty.list_depth() >= 1 && p.dir.is_none())
        .filter(|p| matches!(&p.val, Val::List(xs) if xs.len() == 1 && !matches!(xs[0], Val::Var(_) | Val::Null | Val::List(_))))
        // the field must not share its response key with any other field: fields that merge need
        // textually identical arguments (5.3.2), and `[x]` and `x` are not
        .filter(|p| {
            let key = match &set_ref(&cx.gd.doc, &p.set)[p.idx] {
                Sel::Field(f) => f.key().to_string(),
                _ => return false,
            };
            cx.sites.fields.iter().filter(|f| field_ref(&cx.gd.doc, f).key() == key).count() == 1
        })
        .collect();
    let p = *pick_opt(r, &c)?;
    let Val::List(xs) = &p.val else { return None };
    let (doc, _) = replace_val(cx, p, xs[0].clone());
    out(cx, doc, format!("{}: wrote the one-item list {} as the single value {}", where_of(cx, p), p.val.gql(), xs[0].gql()))
}

/// Variables are scoped per operation: a second, unselected operation that is
/// a copy of the selected one (own name, same variable definitions) changes nothing.
fn vv_twin_operation(cx: &Cx<'_>, r: &mut Rng) -> Option<Mutant> {
    let main = &cx.gd.doc.ops[cx.main_op];
    let name = main.name.clone()?;
    if main.kind == OpKind::Subscription || cx.gd.doc.ops.iter().any(|o| o.name.as_deref() == Some("ZzTwin")) {
        return None;
    }
    let mut doc = cx.gd.doc.clone();
    let mut twin = main.clone();
    twin.name = Some("ZzTwin".into());
    let at = r.below(doc.ops.len() + 1);
    doc.ops.insert(at, twin);
    let mut gd = cx.gd.clone();
    gd.doc = doc;
    gd.op_name = Some(name.clone());
    Some(Mutant { gd, note: format!("added operation ZzTwin, a copy of {name}; the request names {name}") })
}

/// §6.1.2 only looks at the variables the operation defines: an extra entry in the request's variables is ignored.
fn vv_extra_request_variable(cx: &Cx<'_>, r: &mut Rng) -> Option<Mutant> {
    let v = r.pick(&[json!(1), json!("x"), json!(null), json!({"a": [1]})]).clone();
    out_vars(cx, cx.gd.doc.clone(), with_var(&cx.gd.vars, "zzExtra", v.clone()), format!("request carries the undeclared variable zzExtra = {v}"))
}

/// Validity-preserving: a custom field directive of the schema is applied with its required arguments only; the
/// arguments that declare a default (also non-null ones) are omitted, which §5.4.2.1 allows.
fn vv_custom_directive_defaults_omitted(cx: &Cx<'_>, r: &mut Rng) -> Option<Mutant> {
    let (name, args) = pick_opt(r, &cx.ts.custom_directives.iter().collect::<Vec<_>>())?.clone();
    let hosts: Vec<&(SetSite, usize, char)> = cx.sites.sels.iter().filter(|(_, _, k)| *k == 'f').collect();
    let (set, idx, _) = *pick_opt(r, &hosts)?;
    let mut doc = cx.gd.doc.clone();
    let dirs = dirs_mut(&mut doc, set, *idx);
    if dirs.iter().any(|d| d.name == *name) {
        return None;
    }
    let given: Vec<(String, Val)> = args
        .iter()
        .filter(|a| a.default.is_none() && a.ty.is_nonnull())
        .map(|a| (a.name.clone(), vh_model::gen_ts::gen_input_literal(cx.ts, &a.ty, r, 1)))
        .collect();
    dirs.push(Dir { name: name.clone(), args: given });
    out(cx, doc, format!("applied @{name} on a field of {} with its defaulted arguments omitted", set.parent))
}

/// 5.4.2.1 Required Arguments, for a custom directive: a non-null argument WITHOUT default is omitted.
fn custom_directive_missing_required_argument(cx: &Cx<'_>, r: &mut Rng) -> Option<Mutant> {
    let with_required: Vec<&(String, Vec<vh_model::ArgDef>)> =
        cx.ts.custom_directives.iter().filter(|(_, a)| a.iter().any(|x| x.default.is_none() && x.ty.is_nonnull())).collect();
    let (name, args) = pick_opt(r, &with_required)?.clone();
    let hosts: Vec<&(SetSite, usize, char)> = cx.sites.sels.iter().filter(|(_, _, k)| *k == 'f').collect();
    let (set, idx, _) = *pick_opt(r, &hosts)?;
    let mut doc = cx.gd.doc.clone();
    let dirs = dirs_mut(&mut doc, set, *idx);
    if dirs.iter().any(|d| d.name == *name) {
        return None;
    }
    // every argument that has a default is given explicitly, the required one is left out
    let given: Vec<(String, Val)> = args
        .iter()
        .filter(|a| a.default.is_some())
        .map(|a| (a.name.clone(), vh_model::gen_ts::gen_input_literal(cx.ts, &a.ty, r, 1)))
        .collect();
    dirs.push(Dir { name: name.clone(), args: given });
    out(cx, doc, format!("applied @{name} without its required argument"))
}

pub fn valid_variants() -> Vec<OpDef> {
    vec![
        OpDef { name: "vv_same_key_on_disjoint_object_types", rule: "5.3.2 Field Selection Merging (allowed case)", subscription: false, f: vv_same_key_on_disjoint_object_types },
        OpDef { name: "vv_single_value_for_list", rule: "3.11 List, input coercion", subscription: false, f: vv_single_value_for_list },
        OpDef { name: "vv_twin_operation", rule: "5.8 variables are scoped to their operation", subscription: false, f: vv_twin_operation },
        OpDef { name: "vv_extra_request_variable", rule: "6.1.2 Coercing Variable Values", subscription: false, f: vv_extra_request_variable },
        OpDef { name: "vv_custom_directive_defaults_omitted", rule: "5.4.2.1 Required Arguments (allowed case)", subscription: false, f: vv_custom_directive_defaults_omitted },
    ]
}

// ------------------------------------------------------------------ table

macro_rules! op {
    ($f:ident, $rule:expr) => {
        OpDef { name: stringify!($f), rule: $rule, subscription: false, f: $f }
    };
    ($f:ident, $rule:expr, sub) => {
        OpDef { name: stringify!($f), rule: $rule, subscription: true, f: $f }
    };
}

pub fn operators() -> Vec<OpDef> {
    vec![
        op!(unknown_field, "5.3.1 Field Selections"),
        op!(selection_on_leaf, "5.3.3 Leaf Field Selections"),
        op!(no_selection_on_composite, "5.3.3 Leaf Field Selections"),
        op!(typename_with_selection, "5.3.3 Leaf Field Selections"),
        op!(typename_with_unknown_argument, "5.4.1 Argument Names"),
        op!(typename_with_unknown_directive, "5.7.1 Directives Are Defined"),
        op!(conflict_same_scope_different_field, "5.3.2 Field Selection Merging"),
        op!(conflict_same_scope_different_args, "5.3.2 Field Selection Merging"),
        op!(conflict_behind_inline_fragment, "5.3.2 Field Selection Merging"),
        op!(conflict_behind_fragment_spread, "5.3.2 Field Selection Merging"),
        op!(conflict_nested, "5.3.2 Field Selection Merging"),
        op!(unknown_argument_on_field, "5.4.1 Argument Names"),
        op!(unknown_argument_on_directive, "5.4.1 Argument Names"),
        op!(duplicate_argument, "5.4.2 Argument Uniqueness"),
        op!(missing_required_argument, "5.4.2.1 Required Arguments"),
        op!(missing_required_directive_argument, "5.4.2.1 Required Arguments"),
        op!(custom_directive_missing_required_argument, "5.4.2.1 Required Arguments"),
        op!(fragment_on_unknown_type, "5.5.1.2 Fragment Spread Type Existence"),
        op!(fragment_on_noncomposite_type, "5.5.1.3 Fragments On Composite Types"),
        op!(unused_fragment, "5.5.1.4 Fragments Must Be Used"),
        op!(undefined_fragment_spread, "5.5.2.1 Fragment Spread Target Defined"),
        op!(fragment_cycle, "5.5.2.2 Fragment Spreads Must Not Form Cycles"),
        op!(impossible_fragment_spread, "5.5.2.3 Fragment Spread Is Possible"),
        op!(wrong_kind_literal, "5.6.1 Values of Correct Type"),
        op!(wrong_kind_literal_beside_unsupplied_variable, "5.6.1 Values of Correct Type"),
        op!(string_literal_for_enum, "5.6.1 Values of Correct Type"),
        op!(non_object_literal_for_input_object, "5.6.1 Values of Correct Type"),
        op!(null_for_non_null, "5.6.1 Values of Correct Type"),
        op!(unknown_enum_value, "5.6.1 Values of Correct Type"),
        op!(unknown_input_field, "5.6.2 Input Object Field Names"),
        op!(duplicate_input_field, "5.6.3 Input Object Field Uniqueness"),
        op!(missing_required_input_field, "5.6.4 Input Object Required Fields"),
        op!(unknown_directive, "5.7.1 Directives Are Defined"),
        op!(directive_on_operation, "5.7.2 Directives Are In Valid Locations"),
        op!(duplicate_directive, "5.7.3 Directives Are Unique Per Location"),
        op!(duplicate_variable, "5.8.1 Variable Uniqueness"),
        op!(variable_of_output_type, "5.8.2 Variables Are Input Types"),
        op!(variable_of_unknown_type, "5.8.2 Variables Are Input Types"),
        op!(wrong_kind_variable_default, "5.6.1 Values of Correct Type"),
        op!(undefined_variable, "5.8.3 All Variable Uses Defined"),
        op!(undefined_variable_in_fragment, "5.8.3 All Variable Uses Defined"),
        op!(unused_variable, "5.8.4 All Variables Used"),
        op!(variable_position_other_named_type, "5.8.5 All Variable Usages Are Allowed"),
        op!(variable_position_nullable_into_non_null, "5.8.5 All Variable Usages Are Allowed"),
        op!(variable_position_list_depth, "5.8.5 All Variable Usages Are Allowed"),
        op!(variables_missing_required, "6.1.2 Coercing Variable Values"),
        op!(variables_wrong_kind, "6.1.2 Coercing Variable Values"),
        op!(variables_unknown_enum_value, "6.1.2 Coercing Variable Values"),
        op!(subscription_second_root_field, "5.2.3.1 Single Root Field", sub),
        op!(subscription_second_root_field_via_fragment, "5.2.3.1 Single Root Field", sub),
        op!(duplicate_operation_name, "5.2.1.1 Operation Name Uniqueness"),
        op!(anonymous_and_other_operation, "5.2.2.1 Lone Anonymous Operation"),
        op!(duplicate_fragment_name, "5.5.1.1 Fragment Name Uniqueness"),
    ]
}
