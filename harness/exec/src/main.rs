//! vh-exec: executor workloads against the reference executor R1 and the
//! resolver event log (C01–C06, C09, C10, C20, C22, C27, C30).

mod c01;
mod c02;
mod c03;
mod c04;
mod c05;
mod c06;
mod c09;
mod c10;
mod c20;
mod c22;
mod c27;
mod c30;
mod common;
mod witness;
mod witness_gens;

fn main() {
    let id = std::env::args().nth(1).unwrap_or_default();
    match id.as_str() {
        "C01" => c01::main(),
        "C02" => c02::main(),
        "C03" => c03::main(),
        "C04" => c04::main(),
        "C05" => c05::main(),
        "C06" => c06::main(),
        "C09" => c09::main(),
        "C10" => c10::main(),
        "C20" => c20::main(),
        "C22" => c22::main(),
        "C27" => c27::main(),
        "C30" => c30::main(),
        other => {
            println!("INCONCLUSIVE property={other} reason=vh-exec has no check for this property");
            std::process::exit(2);
        }
    }
}
