//! Pinned witness of the finding the generated derive-built family (harness/gens) uncovered. The schema is
//! hand-written and minimal (it does not depend on the generated modules, which may be regenerated).

use async_graphql::*;
use serde_json::json;
use vh_core::Run;

/// GENS-nested-interface-typename: an interface that implements another interface is declared by making it a
/// variant of the other one (`tests/interface.rs: test_interface_implement_other_interface`). A value that
/// reaches the outer interface through that variant reports the *inner interface's* name as its concrete type:
/// `__typename` answers "Entity" and `... on Company { … }` is dropped, although the node is a Company.
pub fn c01_nested_interface(run: &Run) {
    struct Company;
    #[Object]
    impl Company {
        async fn id(&self) -> ID {
            "88".into()
        }
        async fn staff(&self) -> i32 {
            7
        }
    }
    #[derive(Interface)]
    #[graphql(field(name = "id", ty = "ID"))]
    enum Entity {
        Company(Company),
    }
    #[derive(Interface)]
    #[graphql(field(name = "id", ty = "ID"))]
    enum Node {
        Entity(Entity),
        Company(Company),
    }
    struct Query;
    #[Object]
    impl Query {
        /// the Company travels through the nested interface variant
        async fn nested(&self) -> Node {
            Node::Entity(Entity::Company(Company))
        }
        /// the same Company as a direct variant
        async fn direct(&self) -> Node {
            Node::Company(Company)
        }
    }
    const DOC: &str = "{ nested { __typename id ... on Company { staff } ... on Entity { e: __typename } } direct { __typename id ... on Company { staff } ... on Entity { e: __typename } } }";
    let schema = Schema::new(Query, EmptyMutation, EmptySubscription);
    let resp = match vh_core::catch(|| vh_core::vsched::block_on(schema.execute(DOC))) {
        Ok(r) => r,
        Err(p) => {
            run.violation("GENS-nested-interface-typename|panic", &format!("pinned witness panicked: {p}"), json!({"document": DOC}));
            return;
        }
    };
    run.eval();
    let observed = serde_json::to_value(&resp).unwrap_or_default();
    // spec §4.4 / §6.3.2: __typename is the name of the object type being queried; a fragment applies when the
    // object type is, implements, or is a member of the condition
    let node = json!({"__typename": "Company", "id": "88", "staff": 7, "e": "Company"});
    let expected = json!({"data": {"nested": node, "direct": node}});
    if observed == expected {
        run.count("witness_GENS_nested_interface_typename_now_correct", 1);
        run.note("pinned witness GENS-nested-interface-typename: __typename and type conditions are correct for a value behind a nested interface variant");
        return;
    }
    run.violation(
        &format!("GENS-nested-interface-typename|{DOC} -> {observed}"),
        &format!("pinned witness: a Company returned as Node::Entity(Entity::Company(..)): {DOC} -> {observed}, expected {expected}"),
        json!({"witness": "GENS-nested-interface-typename", "document": DOC, "observed": observed, "expected": expected,
               "schema": "Company{id staff}; interface Entity{id} = Company; interface Node{id} = Entity | Company (derive(Interface) enums); Query{nested: Node! direct: Node!}"}),
    );
}
