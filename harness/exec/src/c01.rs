//! C01 — query results follow spec field collection and completion (static, derive-built schemas: the
//! hand-written S1 and the generated family of harness/gens).

use vh_core::Run;
use vh_model::doc::OpKind;
use vh_model::gen_doc::gen_doc;
use vh_model::world::World;

use crate::common::*;

pub fn main() {
    let mut run = Run::from_args(
        "exploration",
        "the derive-built schema family S1 (Object, SimpleObject+ComplexObject, MergedObject root, Interface, Union incl. \
         flatten, Enum, InputObject with defaults, OneofObject, MaybeUndefined/Option/Vec wrappers in every nullability \
         combination, guard) plus the generated derive-built family g0..g5 (harness/gens: six schemas generated from \
         gen_ts type systems — #[Object], SimpleObject(+ComplexObject, members behind interfaces), MergedObject query and \
         mutation roots, Interface incl. interface-implements-interface and fields with arguments, Union incl. flatten, \
         Enum, InputObject incl. recursion/defaults/MaybeUndefined, OneofObject, custom #[Scalar]s, Option<Result<T>> and \
         Box<T> return shapes; names and SDL hashes in extra.schema) with data-driven resolvers; valid-by-construction \
         operations over the hand model of S1 / the generating model of each family member (aliases, \
         repeated keys, inline/named fragments on object/interface/union conditions, @skip/@include from literals, \
         variables and variable defaults, every way of supplying variables) executed by the real executor; response data \
         compared (key order included) with the reference executor R1 on the same data world. Non-trivial = document \
         uses at least one fragment, directive, repeated key or variable; distinct by hash of (document, variables, world)",
    );
    run.assume("reference executor R1 and coercion model (harness/model) implement GraphQL spec Oct-2021 §6");
    run.assume("documents are valid by construction (response-key table argument in gen_doc.rs)");
    run.assume("the hand model s1::model() states what the Rust source of S1 declares (cross-checked against introspection in C18)");
    run.assume("each generated module of harness/gens declares exactly the model it was generated from (start-up self-check: model rebuilt from the seed equals the embedded SDL, and introspection of the real schema equals the model)");
    let cases = run.scale(12_000, 600_000);
    // the generated derive-built family: per member a quarter (quick) / a sixth (thorough) of S1's cases
    let family_cases = run.scale(3_000, 100_000);
    run.set_floors(2000, 600);
    run.require_counter("resolver_events");
    let shards = n_shards(&run);
    let members = static_family(&run);
    let run = &run;
    crate::witness_gens::c01_nested_interface(run);
    std::thread::scope(|sc| {
        for shard in 0..shards {
            let members = members.clone();
            sc.spawn(move || {
                for m in &members {
                    // S1 keeps the random stream (and so the workload) it had before the family existed
                    let mut r = if m.name == "S1" { shard_rng(run, 1, shard) } else { vh_core::Rng::new(vh_core::rng::mix(&[run.seed, 1, shard, vh_core::rng::hash_str(m.name)])) };
                    let n = if m.name == "S1" { cases } else { family_cases };
                    let has_mutation = m.ts.mutation.is_some();
                    let counter = format!("cases_{}", m.name);
                    let mut i = shard;
                    while i < n {
                        i += shards;
                        let mut o = doc_opts(run);
                        o.kind = if has_mutation && r.chance(1, 6) { OpKind::Mutation } else { OpKind::Query };
                        let gd = gen_doc(&m.ts, &mut r, &o);
                        let world = World::new(r.next_u64());
                        let case = Case::new(m.ts.clone(), gd, world, r.bool());
                        run.count(&counter, 1);
                        crate::c02::one(run, &m.schema, &case);
                    }
                }
            });
        }
    });
    run.extra("schema", static_family_extra(&members));
    run.finish_code_exit();
}
