//! C01 — query results follow spec field collection and completion (static, derive-built schema S1).

use serde_json::json;
use vh_core::Run;
use vh_model::doc::OpKind;
use vh_model::gen_doc::gen_doc;
use vh_model::world::World;
use vh_schema::s1;

use crate::common::*;

pub fn main() {
    let mut run = Run::from_args(
        "exploration",
        "the derive-built schema family S1 (Object, SimpleObject+ComplexObject, MergedObject root, Interface, Union incl. \
         flatten, Enum, InputObject with defaults, OneofObject, MaybeUndefined/Option/Vec wrappers in every nullability \
         combination, guard) with data-driven resolvers; valid-by-construction operations over its hand model (aliases, \
         repeated keys, inline/named fragments on object/interface/union conditions, @skip/@include from literals, \
         variables and variable defaults, every way of supplying variables) executed by the real executor; response data \
         compared (key order included) with the reference executor R1 on the same data world. Non-trivial = document \
         uses at least one fragment, directive, repeated key or variable; distinct by hash of (document, variables, world)",
    );
    run.assume("reference executor R1 and coercion model (harness/model) implement GraphQL spec Oct-2021 §6");
    run.assume("documents are valid by construction (response-key table argument in gen_doc.rs)");
    run.assume("the hand model s1::model() states what the Rust source of S1 declares (cross-checked against introspection in C18)");
    let cases = run.scale(12_000, 600_000);
    run.set_floors(2000, 600);
    run.require_counter("resolver_events");
    let shards = n_shards(&run);
    let ts = s1::model();
    let schema = AnySchema::S1(s1::schema());
    let run = &run;
    std::thread::scope(|sc| {
        for shard in 0..shards {
            let ts = ts.clone();
            let schema = schema.clone();
            sc.spawn(move || {
                let mut r = shard_rng(run, 1, shard);
                let mut i = shard;
                while i < cases {
                    i += shards;
                    let mut o = doc_opts(run);
                    o.kind = if r.chance(1, 6) { OpKind::Mutation } else { OpKind::Query };
                    let gd = gen_doc(&ts, &mut r, &o);
                    let world = World::new(r.next_u64());
                    let case = Case::new(ts.clone(), gd, world, r.bool());
                    crate::c02::one(run, &schema, &case);
                }
            });
        }
    });
    run.extra("schema", json!("S1 (harness/schema/src/s1.rs)"));
    run.finish_code_exit();
}
