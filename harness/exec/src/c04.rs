//! C04 — merged fields resolve once; mutation root fields run one at a time in order.
//! Offline trace checker over the resolver event log, with every resolver
//! gated and the scheduler preferring *later* root fields: if the executor had
//! started them, their gates would be armed and their Start events logged.

use std::collections::BTreeMap;
use std::sync::Arc;

use serde_json::json;
use vh_core::vsched::{Chooser, FifoChooser, LifoChooser, RandomChooser};
use vh_core::{Rng, Run, catch, rng};
use vh_model::doc::OpKind;
use vh_model::gen_doc::gen_doc;
use vh_model::gen_ts::gen_type_system;
use vh_schema::{Ek, Event, dynb, s1};

use crate::common::*;

/// Rule 1: at most one Start per (parent path, response key) — i.e. per response path.
pub fn check_once(events: &[Event]) -> Vec<String> {
    let mut starts: BTreeMap<&str, usize> = BTreeMap::new();
    for e in events.iter().filter(|e| e.kind == Ek::Start) {
        *starts.entry(e.path.as_str()).or_insert(0) += 1;
    }
    starts
        .into_iter()
        .filter(|(_, n)| *n > 1)
        .map(|(p, n)| format!("resolver for response path {p} ran {n} times in one request"))
        .collect()
}

/// Rule 2: mutation root fields in document order, each starting only after
/// the previous root field and its sub-selection have completed.
pub fn check_serial(events: &[Event], root_keys: &[String]) -> Vec<String> {
    let mut out = vec![];
    let root_of = |p: &str| p.split('.').next().unwrap_or("").to_string();
    let mut first: BTreeMap<String, u64> = BTreeMap::new();
    let mut last: BTreeMap<String, u64> = BTreeMap::new();
    for e in events.iter().filter(|e| matches!(e.kind, Ek::Start | Ek::Finish)) {
        let r = root_of(&e.path);
        first.entry(r.clone()).or_insert(e.seq);
        last.insert(r, e.seq);
    }
    let present: Vec<&String> = root_keys.iter().filter(|k| first.contains_key(*k)).collect();
    for w in present.windows(2) {
        let (a, b) = (w[0], w[1]);
        if first[b] < last[a] {
            out.push(format!(
                "mutation root field {b} started (event #{}) before root field {a} and its sub-selection completed (event #{})",
                first[b], last[a]
            ));
        }
    }
    out
}

pub fn main() {
    let mut run = Run::from_args(
        "exploration",
        "generated queries and mutations (repeated response keys directly, through aliases and through inline/named \
         fragments; mutation payloads with sub-selections) on the static schema S1 and on generated dynamic schemas; every \
         resolver awaits a vsched gate, each case is executed under FIFO, LIFO (later root fields first) and seeded random \
         completion orders; an offline checker over the resolver event log asserts (1) at most one resolver start per \
         response path and (2) for mutations: root fields in document order, each starting only after every event of the \
         previous root field. Non-trivial = request with a merged response key or a mutation with >= 2 root fields; \
         distinct by (case hash, schedule)",
    );
    run.assume("a resolver start is observable as a Start event logged before the resolver awaits its gate");
    let cases = run.scale(6_000, 150_000);
    let randoms = run.scale(4, 20) as usize;
    run.set_floors(1000, 200);
    run.require_counter("mutations_with_2plus_roots");
    let shards = n_shards(&run);
    let run = &run;
    crate::witness::c04(run);
    let statics = static_family(run);
    let statics = &statics;
    std::thread::scope(|sc| {
        for shard in 0..shards {
            sc.spawn(move || {
                let mut r = shard_rng(run, 4, shard);
                let s1ts = s1::model();
                let s1schema = AnySchema::S1(s1::schema());
                let mut i = shard;
                while i < cases {
                    i += shards;
                    let (ts, schema) = if r.bool() {
                        (s1ts.clone(), s1schema.clone())
                    } else {
                        let mut to = ts_opts(run);
                        to.mutation = true;
                        let ts = Arc::new(gen_type_system(&mut r, &to));
                        match catch(|| dynb::build(&ts)) {
                            Ok(Ok(s)) => (ts, AnySchema::Dyn(s)),
                            _ => continue,
                        }
                    };
                    let mut o = doc_opts(run);
                    o.max_depth = 3;
                    o.kind = if ts.mutation.is_some() && r.chance(2, 3) { OpKind::Mutation } else { OpKind::Query };
                    let gd = gen_doc(&ts, &mut r, &o);
                    let world = world_for(schema.flavour(), r.next_u64());
                    let case = Case::new(ts.clone(), gd, world, r.bool());
                    one_case(run, &schema, &case, &mut r, randoms);
                }
                // the generated derive-built family (harness/gens; MergedObject mutation roots among them): an eighth
                // of the cases per member
                for m in statics.iter().filter(|m| m.name != "S1") {
                    let mut i = shard;
                    while i < cases / 8 {
                        i += shards;
                        let mut o = doc_opts(run);
                        o.max_depth = 3;
                        o.kind = if m.ts.mutation.is_some() && r.chance(2, 3) { OpKind::Mutation } else { OpKind::Query };
                        let gd = gen_doc(&m.ts, &mut r, &o);
                        let world = world_for(m.schema.flavour(), r.next_u64());
                        let case = Case::new(m.ts.clone(), gd, world, r.bool());
                        run.count(&format!("static_cases_{}", m.name), 1);
                        one_case(run, &m.schema, &case, &mut r, randoms);
                    }
                }
            });
        }
    });
    run.extra("static_schemas", static_family_extra(statics));
    run.finish_code_exit();
}

pub fn one_case(run: &Run, schema: &AnySchema, case: &Case, r: &mut Rng, randoms: usize) {
    let reference = case.reference();
    if reference.request_error.is_some() {
        return;
    }
    let merged = reference.merged_groups > 0;
    if merged && !run.feature("repeated_key") {
        run.count("cases_skipped_repeated_key", 1);
        return;
    }
    let op = case.gd.doc.op(case.gd.op_name.as_deref()).expect("operation");
    let is_mutation = op.kind == OpKind::Mutation;
    let root_keys: Vec<String> = {
        let root_ty = if is_mutation { case.ts.mutation.clone().unwrap() } else { case.ts.query.clone() };
        vh_model::exec::collect_fields(&case.ts, &case.gd.doc, &reference.vars, &root_ty, &[op.sel.as_slice()])
            .into_iter()
            .map(|(k, _)| k)
            .collect()
    };
    if merged {
        run.count("requests_with_merged_key", 1);
    }
    if is_mutation && root_keys.len() >= 2 {
        run.count("mutations_with_2plus_roots", 1);
    }
    let mut choosers: Vec<(String, Box<dyn Chooser>)> =
        vec![("fifo".into(), Box::new(FifoChooser)), ("lifo".into(), Box::new(LifoChooser))];
    for k in 0..randoms {
        choosers.push((format!("random{k}"), Box::new(RandomChooser(r.fork(k as u64)))));
    }
    for (name, mut ch) in choosers {
        let out = catch(|| run_scheduled(schema, case, ch.as_mut()));
        let (resp, events, report) = match out {
            Ok(x) => x,
            Err(p) => {
                run.violation(&format!("C04-panic:{:x}", case.hash()), &format!("executor panicked: {p}"), case.replay_json(schema.flavour()));
                return;
            }
        };
        run.eval();
        run.count("resolver_events", events.len() as u64);
        run.count("gates_opened", report.opened.len() as u64);
        run.seen("max_armed", &report.max_armed.to_string());
        if resp.is_none() {
            run.violation(
                &format!("C04-stuck:{:x}", case.hash()),
                &format!("request did not complete under schedule {name}: {:?}", report.outcome),
                case.replay_json(schema.flavour()),
            );
            return;
        }
        if merged || (is_mutation && root_keys.len() >= 2) {
            run.nontrivial(rng::mix(&[case.hash(), rng::hash_str(&report.opened.join(","))]));
        }
        let mut problems = check_once(&events);
        if is_mutation {
            problems.extend(check_serial(&events, &root_keys));
        }
        run.sample_upto(
            4,
            json!({"document": case.printed.text, "schedule": report.opened, "flavour": schema.flavour(),
                   "events": events.iter().take(40).map(|e| format!("{}:{:?}:{}", e.seq, e.kind, e.path)).collect::<Vec<_>>()}),
        );
        if !problems.is_empty() {
            let mut rj = case.replay_json(schema.flavour());
            rj["schedule"] = json!(report.opened);
            rj["events"] = json!(events.iter().map(|e| format!("{}:{:?}:{}", e.seq, e.kind, e.path)).collect::<Vec<_>>());
            run.violation(
                &format!("C04:{:x}", rng::mix(&[case.hash(), rng::hash_str(&name)])),
                &format!("[{}] schedule {name}: {} | doc: {}", schema.flavour(), problems.join("; "), case.printed.text),
                rj,
            );
            return;
        }
    }
}
