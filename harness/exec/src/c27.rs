//! C27 — stub (being built).
pub fn main() {
    println!("INCONCLUSIVE property=C27 reason=check not built yet");
    std::process::exit(2);
}
