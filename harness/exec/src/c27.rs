//! C27 — each subscription response holds exactly its own event's data and errors.
//!
//! Workload: subscription operations with 1–3 root fields (async-graphql merges
//! their streams with `select_all`) over the static schema S1 and over a dynamic
//! schema built from the same hand model. Every event waits for a vsched gate
//! "ev:<response key>:<k>" and every resolver below an event object waits for
//! "r:<path>", so event arrival and event resolution of different root fields
//! interleave in every way the library allows. Faults hit ONE node only
//! (`World::node_faults`, keyed by (response path, node id)); node ids differ per
//! (response key, event number) and an error message names its node, so the cause
//! of every error is attributable to one (root, k) event.
//!
//! Monitor (offline, over the recorded responses + the event log): see `check`.

use std::collections::{BTreeMap, BTreeSet};
use std::sync::Arc;

use async_graphql::{Request, Response};
use futures_util::StreamExt;
use serde_json::{Value as J, json};
use vh_core::vsched::{Armed, Chooser, Dfs, FifoChooser, LifoChooser, Outcome, RandomChooser, ReplayChooser, RunReport, Sched};
use vh_core::{Rng, Run, catch, rng};
use vh_model::doc::{Doc, FieldSel, Op, OpKind, Printed, Sel, print};
use vh_model::exec::{RefResult, Seg, execute_event, may_be_missing, path_str};
use vh_model::gen_doc::gen_doc;
use vh_model::gen_ts::gen_type_system;
use vh_model::world::{Fault, PlanVal, World};
use vh_model::{TypeSystem, Val};
use vh_schema::compare::{Observed, json_diff, observe};
use vh_schema::dynb::{self, NodeRef};
use vh_schema::s1::{self, event_id};
use vh_schema::{Ek, Env, Event};

use crate::common::*;

// ---------------------------------------------------------------- cases

#[derive(Clone, Debug)]
struct Root {
    key: String,
    /// "ticks" | "events"
    field: &'static str,
    /// ticks(n:)
    n: i64,
    /// events(kind:)
    kind: Option<&'static str>,
    /// a dynamic subscription stream cannot yield a null event of a union type
    /// (`FieldValue::NULL` is rejected for unions), so that flavour streams no null events
    null_events: bool,
}

impl Root {
    fn count(&self) -> usize {
        if self.field == "ticks" { self.n.clamp(0, 4) as usize } else { 3 }
    }
    /// What the k-th event of this root field yields (mirrors `s1::Subscription`).
    fn payload(&self, seed: u64, k: usize) -> PlanVal {
        let id = event_id(seed, &self.key, k);
        if self.field == "ticks" {
            return PlanVal::Node { ty: "Tick".into(), id };
        }
        match (self.kind, id % 3) {
            (_, 0) if self.null_events => PlanVal::Null,
            (None, 0) => PlanVal::Node { ty: if id % 2 == 0 { "Dog" } else { "Cat" }.into(), id },
            (Some("CAT"), _) => PlanVal::Node { ty: "Cat".into(), id },
            (Some(_), _) => PlanVal::Node { ty: "Dog".into(), id },
            (None, 1) => PlanVal::Node { ty: "Dog".into(), id },
            (None, _) => PlanVal::Node { ty: "Cat".into(), id },
        }
    }
}

#[derive(Clone, Debug, Default)]
struct GenOpts {
    /// few gates: meant to be enumerated completely
    small: bool,
    /// Err faults although events of several roots can be in flight together
    cross_root_errors: bool,
    /// Err faults at nullable positions at all
    nullable_errors: bool,
}

#[derive(Clone)]
struct SubCase {
    flavour: &'static str,
    roots: Vec<Root>,
    doc: Doc,
    printed: Printed,
    world: World,
    /// owner of each node fault: (path, node id) -> (root key, event number)
    owners: BTreeMap<(String, u64), (String, usize)>,
}

fn fsel(doc: &mut Doc, alias: Option<&str>, name: &str, args: Vec<(&str, Val)>, sel: Vec<Sel>) -> Sel {
    let id = doc.fresh_id();
    Sel::Field(FieldSel {
        id,
        alias: alias.map(|s| s.to_string()),
        name: name.into(),
        args: args.into_iter().map(|(k, v)| (k.to_string(), v)).collect(),
        dirs: vec![],
        sel,
    })
}

fn subset<'a>(r: &mut Rng, pool: &[&'a str], lo: usize, hi: usize) -> Vec<&'a str> {
    let mut p: Vec<&str> = pool.to_vec();
    r.shuffle(&mut p);
    let n = (lo + r.below(hi - lo + 1)).min(p.len()).max(1);
    p.truncate(n);
    p
}

fn dog_sel(doc: &mut Doc, r: &mut Rng, max: usize) -> Vec<Sel> {
    subset(r, &["name", "nick", "risky", "bark", "risky2"], 1, max).into_iter().map(|f| fsel(doc, None, f, vec![], vec![])).collect()
}

fn cat_sel(doc: &mut Doc, r: &mut Rng, max: usize) -> Vec<Sel> {
    subset(r, &["name", "nick", "meow", "lives"], 1, max).into_iter().map(|f| fsel(doc, None, f, vec![], vec![])).collect()
}

fn tick_sel(doc: &mut Doc, r: &mut Rng, max: usize) -> Vec<Sel> {
    let mut out = vec![];
    for f in subset(r, &["n", "maybe", "bad", "nested"], 1, max) {
        if f == "nested" {
            let ds = dog_sel(doc, r, 2);
            out.push(fsel(doc, None, "nested", vec![], ds));
        } else {
            out.push(fsel(doc, None, f, vec![], vec![]));
        }
    }
    out
}

fn subscription_doc(roots: &[Root], r: &mut Rng, small: bool) -> Doc {
    let mut doc = Doc::default();
    let mut sel = vec![];
    for root in roots {
        let max = if small { 2 } else { 4 };
        if root.field == "ticks" {
            let s = tick_sel(&mut doc, r, max);
            sel.push(fsel(&mut doc, Some(&root.key), "ticks", vec![("n", Val::Int(root.n))], s));
        } else {
            let mut s = vec![];
            if r.chance(1, 3) {
                s.push(fsel(&mut doc, None, "__typename", vec![], vec![]));
            }
            let ds = dog_sel(&mut doc, r, if small { 1 } else { 3 });
            let id = doc.fresh_id();
            s.push(Sel::Inline { id, cond: Some("Dog".into()), dirs: vec![], sel: ds });
            let cs = cat_sel(&mut doc, r, if small { 1 } else { 3 });
            let id = doc.fresh_id();
            s.push(Sel::Inline { id, cond: Some("Cat".into()), dirs: vec![], sel: cs });
            let args = match root.kind {
                Some(k) => vec![("kind", Val::Enum(k.into()))],
                None => vec![],
            };
            sel.push(fsel(&mut doc, Some(&root.key), "events", args, s));
        }
    }
    doc.ops = vec![Op { kind: OpKind::Subscription, name: None, vars: vec![], dirs: vec![], sel }];
    doc
}

fn sub_world(flavour: &str, seed: u64) -> World {
    let mut w = world_for(flavour, seed);
    w.event_ids_by_key = true;
    w
}

/// Reference result of every event of every root field, each executed alone.
fn expected_of(ts: &TypeSystem, case: &SubCase) -> BTreeMap<String, Vec<RefResult>> {
    let op = &case.doc.ops[0];
    let mut out = BTreeMap::new();
    for root in &case.roots {
        let mut v = vec![];
        for k in 0..root.count() {
            v.push(execute_event(ts, &case.doc, op, &json!({}), &case.world, &root.key, root.payload(case.world.seed, k)));
        }
        out.insert(root.key.clone(), v);
    }
    out
}

fn gen_case(ts: &Arc<TypeSystem>, r: &mut Rng, flavour: &'static str, o: &GenOpts) -> SubCase {
    let nroots = if o.small {
        2
    } else if !o.cross_root_errors && r.chance(1, 2) {
        1
    } else {
        match r.below(8) {
            0 => 1,
            1..=5 => 2,
            _ => 3,
        }
    };
    let mut roots = vec![];
    for i in 0..nroots {
        let key = ["a", "b", "c"][i].to_string();
        let ticks = if o.small { r.chance(5, 6) } else { r.chance(2, 3) };
        if ticks {
            let n = if o.small {
                1 + (i as i64 % 2) * r.below(2) as i64
            } else if nroots == 1 {
                2 + r.below(2) as i64
            } else {
                1 + r.below(3) as i64
            };
            roots.push(Root { key, field: "ticks", n, kind: None, null_events: flavour == "static" });
        } else {
            roots.push(Root { key, field: "events", n: 0, kind: *r.pick(&[None, Some("DOG"), Some("CAT")]), null_events: flavour == "static" });
        }
    }
    let doc = subscription_doc(&roots, r, o.small);
    let printed = print(&doc, r.chance(1, 4));
    let world = sub_world(flavour, r.next_u64());
    let mut case = SubCase { flavour, roots, doc, printed, world, owners: BTreeMap::new() };
    // fault positions: the resolver calls of the fault-free events
    let base = expected_of(ts, &case);
    let mut cands: Vec<((String, u64), (String, usize), bool)> = vec![];
    for (key, evs) in &base {
        for (k, ev) in evs.iter().enumerate() {
            for c in &ev.calls {
                let Some(fd) = ts.field(&c.parent_ty, &c.field) else { continue };
                cands.push(((c.path.clone(), c.parent_id), (key.clone(), k), !fd.ty.is_nonnull()));
            }
        }
    }
    let multi = case.roots.len() > 1;
    let errs_ok = !multi || o.cross_root_errors;
    let nf = if cands.is_empty() {
        0
    } else if !multi {
        [1, 2, 2, 3, 3, 4][r.below(6)]
    } else {
        [0, 1, 1, 2, 2, 3][r.below(6)]
    };
    // half of the cases put all their faults into one event (several errors of one response)
    let same_event = r.bool();
    let mut first_owner: Option<(String, usize)> = None;
    for _ in 0..nf {
        let pool: Vec<&((String, u64), (String, usize), bool)> = match (&first_owner, same_event) {
            (Some(o), true) => cands.iter().filter(|c| c.1 == *o).collect(),
            _ => cands.iter().collect(),
        };
        let (pos, owner, nullable) = (*r.pick(&pool)).clone();
        first_owner.get_or_insert(owner.clone());
        let kind = if nullable {
            if errs_ok && r.chance(4, 5) { Fault::Err } else { Fault::Null }
        } else if errs_ok && r.chance(1, if multi { 4 } else { 2 }) {
            // outside the property's quantifier (non-null position): kept as a minority
            Fault::Err
        } else {
            continue;
        };
        let before = case.world.node_faults.insert(pos.clone(), kind);
        if kind == Fault::Err && !o.nullable_errors {
            // only errors that reach the root field (none captured at a nullable position below it)
            let root = case.roots.iter().find(|x| x.key == owner.0).expect("owner root");
            let ev = execute_event(ts, &case.doc, &case.doc.ops[0], &json!({}), &case.world, &root.key, root.payload(case.world.seed, owner.1));
            if ev.errors.iter().any(|e| e.nulled.as_ref().map(|n| n.len() >= 2).unwrap_or(false)) {
                match before {
                    Some(b) => case.world.node_faults.insert(pos, b),
                    None => case.world.node_faults.remove(&pos),
                };
                continue;
            }
        }
        case.owners.insert(pos, owner);
    }
    case
}

fn faults_json(case: &SubCase) -> J {
    J::Array(
        case.world
            .node_faults
            .iter()
            .map(|((p, id), f)| {
                let o = case.owners.get(&(p.clone(), *id));
                json!({"path": p, "node": format!("{id:x}"), "fault": f.name(), "event": o.map(|(k, n)| format!("{k}#{n}"))})
            })
            .collect(),
    )
}

fn case_hash(case: &SubCase) -> u64 {
    rng::mix(&[
        rng::hash_str(case.flavour),
        rng::hash_str(&case.printed.text),
        case.world.seed,
        rng::hash_str(&faults_json(case).to_string()),
    ])
}

// ---------------------------------------------------------------- schemas

fn pet_value(pv: &PlanVal) -> async_graphql::dynamic::FieldValue<'static> {
    use async_graphql::dynamic::FieldValue;
    match pv {
        PlanVal::Node { ty, id } => FieldValue::owned_any(NodeRef { ty: ty.clone(), id: *id }).with_type(ty.clone()),
        _ => FieldValue::NULL,
    }
}

/// Dynamic schema over the S1 hand model with a `Subscription` type that
/// behaves like `s1::Subscription` (same gates, same event nodes).
fn dyn_schema(ts: &TypeSystem) -> Result<async_graphql::dynamic::Schema, String> {
    use async_graphql::dynamic::*;
    fn key_of(ctx: &ResolverContext<'_>) -> String {
        let f = ctx.ctx.field();
        f.alias().unwrap_or(f.name()).to_string()
    }
    let ticks = SubscriptionField::new("ticks", TypeRef::named_nn("Tick"), |ctx| {
        SubscriptionFieldFuture::new(async move {
            let env = ctx.data::<Env>()?.clone();
            let key = key_of(&ctx);
            let n = ctx.args.get("n").and_then(|v| v.i64().ok()).unwrap_or(3);
            env.log.push(Ek::Stream, &key, "Subscription", "ticks", Some(Val::Obj(vec![("n".into(), Val::Int(n))])), "subscribed");
            let root = Root { key: key.clone(), field: "ticks", n, kind: None, null_events: false };
            let count = root.count();
            Ok(futures_util::stream::unfold(0usize, move |k| {
                let env = env.clone();
                let root = root.clone();
                async move {
                    if k >= count {
                        return None;
                    }
                    if let Some(s) = &env.sched {
                        s.gate(format!("ev:{}:{k}", root.key)).await;
                    }
                    env.log.push(Ek::Stream, &root.key, "Subscription", "ticks", None, &format!("event {k}"));
                    let id = event_id(env.world.seed, &root.key, k);
                    Some((Ok::<_, async_graphql::Error>(FieldValue::owned_any(NodeRef { ty: "Tick".into(), id })), k + 1))
                }
            }))
        })
    })
    .argument(InputValue::new("n", TypeRef::named_nn(TypeRef::INT)).default_value(3));
    let events = SubscriptionField::new("events", TypeRef::named("Pet"), |ctx| {
        SubscriptionFieldFuture::new(async move {
            let env = ctx.data::<Env>()?.clone();
            let key = key_of(&ctx);
            let kind: Option<&'static str> = match ctx.args.get("kind").and_then(|v| v.enum_name().ok().map(|s| s.to_string())) {
                Some(s) if s == "CAT" => Some("CAT"),
                Some(_) => Some("DOG"),
                None => None,
            };
            env.log.push(Ek::Stream, &key, "Subscription", "events", None, "subscribed");
            let root = Root { key: key.clone(), field: "events", n: 0, kind, null_events: false };
            Ok(futures_util::stream::unfold(0usize, move |k| {
                let env = env.clone();
                let root = root.clone();
                async move {
                    if k >= 3 {
                        return None;
                    }
                    if let Some(s) = &env.sched {
                        s.gate(format!("ev:{}:{k}", root.key)).await;
                    }
                    env.log.push(Ek::Stream, &root.key, "Subscription", "events", None, &format!("event {k}"));
                    Some((Ok::<_, async_graphql::Error>(pet_value(&root.payload(env.world.seed, k))), k + 1))
                }
            }))
        })
    })
    .argument(InputValue::new("kind", TypeRef::named("PetKind")));
    let sub = Subscription::new("Subscription").field(ticks).field(events);
    dynb::builder(ts).register(sub).finish().map_err(|e| e.to_string())
}

// ---------------------------------------------------------------- one scheduled run

struct Rec<'a> {
    inner: &'a mut dyn Chooser,
    choices: Vec<usize>,
}
impl Chooser for Rec<'_> {
    fn choose(&mut self, armed: &[Armed]) -> usize {
        let c = self.inner.choose(armed).min(armed.len() - 1);
        self.choices.push(c);
        c
    }
}

/// Opens gates in the order of the given labels.
struct LabelChooser {
    order: Vec<String>,
    at: usize,
}
impl Chooser for LabelChooser {
    fn choose(&mut self, armed: &[Armed]) -> usize {
        let want = self.order.get(self.at).cloned().unwrap_or_default();
        self.at += 1;
        armed.iter().position(|a| a.label == want).unwrap_or(0)
    }
}

struct Obs {
    /// responses in the order the stream yielded them, with the event-log length at that moment
    responses: Vec<(Observed, usize)>,
    events: Vec<Event>,
    report: RunReport,
    choices: Vec<usize>,
    ended: bool,
}

const MAX_RESPONSES: usize = 64;

fn run_once(schema: &AnySchema, ts: &Arc<TypeSystem>, case: &SubCase, chooser: &mut dyn Chooser) -> Obs {
    let sched = Sched::new();
    let env = Env::new(ts.clone(), case.world.clone()).with_sched(sched.clone());
    let req = Request::new(case.printed.text.clone()).data(env.clone());
    let schema = schema.clone();
    let log = env.log.clone();
    let mut rec = Rec { inner: chooser, choices: vec![] };
    let (out, report) = sched.run(
        async move {
            let mut st = match &schema {
                AnySchema::S1(s) => s.execute_stream(req),
                AnySchema::Dyn(s) => s.execute_stream(req),
                AnySchema::Gen(s) => s.execute_stream(req),
            };
            let mut out: Vec<(Response, usize)> = vec![];
            let mut ended = false;
            while out.len() < MAX_RESPONSES {
                match st.next().await {
                    Some(r) => out.push((r, log.len())),
                    None => {
                        ended = true;
                        break;
                    }
                }
            }
            (out, ended)
        },
        &mut rec,
        false,
        20_000,
    );
    let (resps, ended) = out.unwrap_or((vec![], false));
    Obs {
        responses: resps.iter().map(|(r, at)| (observe(r), *at)).collect(),
        events: env.log.snapshot(),
        report,
        choices: rec.choices,
        ended,
    }
}

// ---------------------------------------------------------------- the monitor

#[derive(Default)]
struct Stats {
    responses: u64,
    responses_with_errors: u64,
    errors_attributed: u64,
    events: u64,
    two_roots_in_flight: bool,
    error_raised_while_other_root_in_flight: bool,
    distinct_event_data: bool,
    root_null_as_data_null: u64,
}

fn parse_boom(msg: &str) -> Option<(String, u64)> {
    let rest = msg.strip_prefix("boom@")?;
    let (p, id) = rest.rsplit_once('#')?;
    Some((p.to_string(), u64::from_str_radix(id, 16).ok()?))
}

fn first_key(p: &Option<Vec<Seg>>) -> Option<String> {
    match p.as_ref()?.first()? {
        Seg::Key(k) => Some(k.clone()),
        Seg::Idx(_) => None,
    }
}

/// Offline check of one recorded run. Returns mismatch descriptions (empty = property held).
fn check(case: &SubCase, exp: &BTreeMap<String, Vec<RefResult>>, obs: &Obs) -> (Vec<String>, Stats) {
    let mut diffs = vec![];
    let mut st = Stats::default();
    // events the harness streams actually produced: key -> log index of "event k"
    let mut logged: BTreeMap<String, Vec<usize>> = BTreeMap::new();
    for (i, e) in obs.events.iter().enumerate() {
        if e.kind == Ek::Stream && e.extra.starts_with("event ") {
            logged.entry(e.path.clone()).or_default().push(i);
        }
    }
    let mut next: BTreeMap<String, usize> = BTreeMap::new();
    // (key, k) -> (log index of the event, log length when its response was yielded)
    let mut interval: BTreeMap<(String, usize), (usize, usize)> = BTreeMap::new();
    for (i, (o, at)) in obs.responses.iter().enumerate() {
        st.responses += 1;
        if !o.errors.is_empty() {
            st.responses_with_errors += 1;
        }
        // (1) which event does this response belong to?
        let key = match &o.data {
            J::Object(m) => {
                if m.len() != 1 {
                    diffs.push(format!("response #{i}: data has {} root keys {:?}, expected exactly one", m.len(), m.keys().collect::<Vec<_>>()));
                }
                m.keys().next().cloned()
            }
            J::Null => {
                let ks: BTreeSet<String> = o.errors.iter().filter_map(|e| first_key(&e.path)).collect();
                if o.errors.is_empty() {
                    diffs.push(format!("response #{i} has neither data nor errors"));
                }
                // several roots among the error paths are reported below, per error
                o.errors.iter().find_map(|e| first_key(&e.path)).or_else(|| ks.into_iter().next())
            }
            other => {
                diffs.push(format!("response #{i}: data is {other}, expected an object"));
                None
            }
        };
        let Some(key) = key else {
            diffs.push(format!("response #{i} cannot be attributed to a root field: {}", o.raw));
            continue;
        };
        let Some(evs) = exp.get(&key) else {
            diffs.push(format!("response #{i}: root key {key:?} is not a root field of the operation"));
            continue;
        };
        let k = *next.get(&key).unwrap_or(&0);
        next.insert(key.clone(), k + 1);
        let n_logged = logged.get(&key).map(|v| v.len()).unwrap_or(0);
        if k >= n_logged || k >= evs.len() {
            diffs.push(format!("response #{i} is response number {} for root {key}, whose stream produced only {n_logged} event(s) so far (duplicate or invented)", k + 1));
            continue;
        }
        let start = logged[&key][k];
        if start >= *at {
            diffs.push(format!("response #{i} ({key}#{k}) was yielded before its event arrived"));
        }
        interval.insert((key.clone(), k), (start, *at));
        let e = &evs[k];
        st.events += 1;
        // (1) data = the reference result of that event alone
        let root_nulled = o.data.is_null() && !o.errors.is_empty() && !e.errors.is_empty() && e.data.get(&key).map(|v| v.is_null()).unwrap_or(false);
        if root_nulled {
            // `{key: null}` + error reported as `data: null` + error: where the null lands is C03's subject
            st.root_null_as_data_null += 1;
        } else if let Some(d) = json_diff(&o.data, &e.data, "data") {
            diffs.push(format!("response #{i} ({key}#{k}): data differs from the event's own result (observed vs expected) {d}"));
        }
        // (2) errors = exactly the errors of that event
        let mut used = vec![false; e.errors.len()];
        for oe in &o.errors {
            let ps = oe.path.as_ref().map(|p| path_str(p)).unwrap_or_else(|| "<none>".into());
            let mut foreign = false;
            if let Some(pos) = parse_boom(&oe.message) {
                match case.owners.get(&pos) {
                    Some((ok, on)) if *ok == key && *on == k => st.errors_attributed += 1,
                    Some((ok, on)) => {
                        foreign = true;
                        diffs.push(format!(
                            "response #{i} ({key}#{k}) carries an error caused while resolving event {ok}#{on}: message={:?} path={ps}",
                            oe.message
                        ));
                    }
                    None => diffs.push(format!("response #{i} ({key}#{k}): error {:?} names a node no fault was placed on", oe.message)),
                }
            }
            if first_key(&oe.path).as_deref() != Some(key.as_str()) {
                if !foreign {
                    diffs.push(format!("response #{i} ({key}#{k}): error path {ps} does not start with the event's root key (message {:?})", oe.message));
                }
                continue;
            }
            if foreign {
                continue;
            }
            let m = e.errors.iter().enumerate().position(|(j, r)| !used[j] && oe.path.as_deref() == Some(r.path.as_slice()));
            match m {
                Some(j) => used[j] = true,
                None => diffs.push(format!(
                    "response #{i} ({key}#{k}): error not raised by this event (no failing position at that path, or reported twice): message={:?} path={ps}",
                    oe.message
                )),
            }
        }
        for (j, r) in e.errors.iter().enumerate() {
            if !used[j] && !may_be_missing(r, &e.errors, &used, j) {
                diffs.push(format!("response #{i} ({key}#{k}): the event's own error at {} ({}) is missing", path_str(&r.path), r.kind));
            }
        }
    }
    // (3) every event the source produced has exactly one response, in order (the j-th response of a
    //     root was compared with the j-th event above)
    for (key, evs) in &logged {
        let got = *next.get(key).unwrap_or(&0);
        if obs.ended && got != evs.len() {
            diffs.push(format!("root {key}: its stream produced {} event(s) but {} response(s) were yielded (lost or duplicated)", evs.len(), got));
        }
    }
    for root in &case.roots {
        let subscribed = obs.events.iter().any(|e| e.kind == Ek::Stream && e.path == root.key && e.extra == "subscribed");
        if obs.ended && !subscribed && root.count() > 0 {
            diffs.push(format!("root field {} was never subscribed: all its events are lost", root.key));
        }
    }
    if !obs.ended {
        diffs.push(format!(
            "the response stream did not end: {:?} after {} responses, {} gates opened",
            obs.report.outcome,
            obs.responses.len(),
            obs.report.opened.len()
        ));
    }
    // coverage: were events of different roots in flight together?
    let iv: Vec<(&(String, usize), &(usize, usize))> = interval.iter().collect();
    for (a, ia) in &iv {
        for (b, ib) in &iv {
            if a.0 != b.0 && ia.0 < ib.1 && ib.0 < ia.1 {
                st.two_roots_in_flight = true;
            }
        }
    }
    for ((p, id), f) in &case.world.node_faults {
        if *f != Fault::Err {
            continue;
        }
        let Some(owner) = case.owners.get(&(p.clone(), *id)) else { continue };
        let Some(&(s, e)) = interval.get(owner) else { continue };
        let raised = (s..e.min(obs.events.len())).find(|&i| obs.events[i].kind == Ek::Finish && obs.events[i].path == *p);
        if let Some(t) = raised {
            if iv.iter().any(|(b, ib)| b.0 != owner.0 && ib.0 < t && t < ib.1) {
                st.error_raised_while_other_root_in_flight = true;
            }
        }
    }
    let mut datas = BTreeSet::new();
    let mut total = 0;
    for evs in exp.values() {
        for e in evs {
            total += 1;
            datas.insert(e.data.to_string());
        }
    }
    st.distinct_event_data = total > 1 && datas.len() == total;
    (diffs, st)
}

fn responses_json(obs: &Obs) -> J {
    J::Array(obs.responses.iter().map(|(o, _)| o.raw.clone()).collect())
}

fn expected_json(exp: &BTreeMap<String, Vec<RefResult>>) -> J {
    let mut m = serde_json::Map::new();
    for (k, evs) in exp {
        m.insert(
            k.clone(),
            J::Array(
                evs.iter()
                    .map(|e| json!({"data": e.data, "errors": e.errors.iter().map(|x| json!({"path": path_str(&x.path), "kind": x.kind})).collect::<Vec<_>>()}))
                    .collect(),
            ),
        );
    }
    J::Object(m)
}

fn replay_json(case: &SubCase, genj: &J, exp: &BTreeMap<String, Vec<RefResult>>, obs: &Obs) -> J {
    json!({
        "kind": "subscription",
        "flavour": case.flavour,
        "schema": "S1 hand model (harness/schema/src/s1.rs); dynamic flavour: same model through dynb + c27::dyn_schema",
        "generator": genj,
        "document": case.printed.text,
        "variables": {},
        "world_seed": case.world.seed,
        "node_faults": faults_json(case),
        "schedule_choices": obs.choices,
        "schedule_opened": obs.report.opened,
        "expected_per_event": expected_json(exp),
        "observed_responses": responses_json(obs),
    })
}

// ---------------------------------------------------------------- drivers

struct Ctx<'a> {
    run: &'a Run,
    ts: Arc<TypeSystem>,
    s1: AnySchema,
    dy: AnySchema,
}

impl Ctx<'_> {
    fn schema(&self, flavour: &str) -> &AnySchema {
        if flavour == "static" { &self.s1 } else { &self.dy }
    }
}

/// Execute one schedule of a case and judge it. Returns false when a violation was reported.
fn judge(cx: &Ctx<'_>, case: &SubCase, exp: &BTreeMap<String, Vec<RefResult>>, genj: &J, ch: &mut dyn Chooser, seen: &mut BTreeSet<u64>) -> bool {
    let run = cx.run;
    let obs = match catch(|| run_once(cx.schema(case.flavour), &cx.ts, case, ch)) {
        Ok(o) => o,
        Err(p) => {
            run.violation(&format!("C27-panic:{:x}", case_hash(case)), &format!("execute_stream panicked: {p} | doc: {}", case.printed.text), json!({"generator": genj, "document": case.printed.text}));
            return false;
        }
    };
    run.eval();
    if obs.report.outcome == Outcome::StepLimit {
        run.inconclusive("step limit reached while driving a subscription stream");
        return false;
    }
    let sh = rng::hash_str(&obs.report.opened.join(","));
    let fresh = seen.insert(sh);
    let (diffs, st) = check(case, exp, &obs);
    if fresh {
        run.count("schedules_distinct", 1);
        if obs.report.branch_points > 0 {
            run.nontrivial(rng::mix(&[case_hash(case), sh]));
        }
    }
    run.seen("max_armed", &obs.report.max_armed.to_string());
    run.count("responses_checked", st.responses);
    run.count("responses_with_errors", st.responses_with_errors);
    run.count("errors_attributed_to_their_event", st.errors_attributed);
    run.count("events_checked", st.events);
    if st.root_null_as_data_null > 0 {
        run.count("responses_root_null_reported_as_data_null", st.root_null_as_data_null);
    }
    run.count(&format!("runs_{}", case.flavour), 1);
    if st.two_roots_in_flight {
        run.count("runs_two_roots_in_flight", 1);
    }
    if st.error_raised_while_other_root_in_flight {
        run.count("runs_error_raised_while_other_root_in_flight", 1);
    }
    // at most one sample per case (its second distinct schedule)
    if st.two_roots_in_flight && fresh && seen.len() == 2 && (st.responses_with_errors > 0 || obs.report.opened.len() % 7 == 0) {
        run.sample_upto(
            if st.responses_with_errors > 0 { 3 } else { 1 },
            json!({"flavour": case.flavour, "document": case.printed.text, "node_faults": faults_json(case),
                   "schedule": obs.report.opened, "responses": responses_json(&obs)}),
        );
    }
    if diffs.is_empty() {
        return true;
    }
    run.violation(
        &format!("C27:{:x}", rng::mix(&[case_hash(case), sh])),
        &format!(
            "[{}] {} | doc: {} | faults: {} | schedule: {:?} | responses: {}",
            case.flavour,
            diffs.iter().take(4).cloned().collect::<Vec<_>>().join("; "),
            case.printed.text,
            faults_json(case),
            obs.report.opened,
            responses_json(&obs)
        ),
        replay_json(case, genj, exp, &obs),
    );
    false
}

fn gen_opts(run: &Run, flavour: &str, small: bool) -> GenOpts {
    GenOpts {
        small,
        cross_root_errors: if flavour == "static" { run.feature("static_errors_with_concurrent_roots") } else { true },
        nullable_errors: if flavour == "static" { true } else { run.feature("dynamic_nullable_event_errors") },
    }
}

fn one_case(cx: &Ctx<'_>, index: u64, case_seed: u64, flavour: &'static str, small: bool, cap: usize, randoms: u64) {
    let run = cx.run;
    let o = gen_opts(run, flavour, small);
    let mut r = Rng::new(case_seed);
    let case = gen_case(&cx.ts, &mut r, flavour, &o);
    let genj = json!({"case_index": index, "case_seed": case_seed, "flavour": flavour, "small": small,
                     "cross_root_errors": o.cross_root_errors, "nullable_errors": o.nullable_errors});
    let exp = expected_of(&cx.ts, &case);
    run.count("cases", 1);
    run.count(&format!("cases_{flavour}"), 1);
    run.count(&format!("cases_with_{}_root_fields", case.roots.len()), 1);
    run.count("faults_injected", case.world.node_faults.len() as u64);
    if case.world.node_faults.values().any(|f| *f == Fault::Err) {
        run.count("cases_with_error_faults", 1);
    }
    let mut seen = BTreeSet::new();
    let mut dfs = Dfs::new();
    let mut n = 0usize;
    let mut complete = false;
    loop {
        if !judge(cx, &case, &exp, &genj, &mut dfs, &mut seen) {
            return;
        }
        n += 1;
        if n >= cap {
            break;
        }
        if !dfs.advance() {
            complete = true;
            break;
        }
    }
    if complete {
        run.count("cases_fully_enumerated", 1);
    } else {
        run.count("cases_capped", 1);
        if !judge(cx, &case, &exp, &genj, &mut LifoChooser, &mut seen) {
            return;
        }
        for k in 0..randoms {
            let mut ch = RandomChooser(r.fork(k));
            if !judge(cx, &case, &exp, &genj, &mut ch, &mut seen) {
                return;
            }
        }
    }
    let (_, st) = {
        let obs = run_once(cx.schema(flavour), &cx.ts, &case, &mut FifoChooser);
        check(&case, &exp, &obs)
    };
    if st.distinct_event_data {
        run.count("cases_all_events_have_distinct_data", 1);
    }
}


// ---------------------------------------------------------------- C03: fault enumeration over subscription events

/// C03's clause "... and each subscription event": single-root subscriptions over S1 (static) and over the dynamic
/// schema built from the same model; the fault-free run gives the resolver calls of every event; EVERY (call, event)
/// x applicable fault kind is injected alone (the fault is keyed by (response path, node id), so it belongs to one
/// event only) and every response of the stream is compared with the reference executor's result for its own event
/// alone with C03's comparator: data, exactly one error per failing field with its path and a location of the field,
/// null at the nearest nullable position, every other event untouched.
pub fn c03_subscription_events(run: &Run) {
    use vh_schema::compare::{ErrMode, compare};
    let ts = s1::model();
    let st = AnySchema::S1(s1::schema());
    let dy = match catch(|| dyn_schema(&ts)) {
        Ok(Ok(s)) => Some(AnySchema::Dyn(s)),
        _ => None,
    };
    let cases = run.scale(60, 1500);
    let shards = n_shards(run);
    std::thread::scope(|sc| {
        for shard in 0..shards {
            let ts = ts.clone();
            let st = st.clone();
            let dy = dy.clone();
            sc.spawn(move || {
                let mut r = shard_rng(run, 303, shard);
                let mut i = shard;
                while i < cases {
                    i += shards;
                    let flavour: &'static str = if dy.is_some() && r.chance(1, 3) { "dynamic" } else { "static" };
                    let schema = if flavour == "dynamic" { dy.as_ref().unwrap() } else { &st };
                    // one root field, no faults yet
                    let ticks = r.chance(2, 3);
                    let root = if ticks {
                        Root { key: "a".into(), field: "ticks", n: 2 + r.below(2) as i64, kind: None, null_events: flavour == "static" }
                    } else {
                        Root { key: "a".into(), field: "events", n: 0, kind: *r.pick(&[None, Some("DOG"), Some("CAT")]), null_events: flavour == "static" }
                    };
                    let roots = vec![root];
                    let doc = subscription_doc(&roots, &mut r, false);
                    let printed = print(&doc, r.chance(1, 4));
                    let world = sub_world(flavour, r.next_u64());
                    let base_case = SubCase { flavour, roots, doc, printed, world, owners: BTreeMap::new() };
                    let base = expected_of(&ts, &base_case);
                    run.count("subscription_cases", 1);
                    // positions: every resolver call of every event
                    let mut singles: Vec<((String, u64), Fault)> = vec![];
                    for evs in base.values() {
                        for ev in evs {
                            for c in &ev.calls {
                                let Some(fd) = ts.field(&c.parent_ty, &c.field) else { continue };
                                if flavour == "dynamic" && !run.feature("dynamic_subscription_event_faults") {
                                    continue;
                                }
                                singles.push(((c.path.clone(), c.parent_id), Fault::Err));
                                if !fd.ty.is_nonnull() {
                                    singles.push(((c.path.clone(), c.parent_id), Fault::Null));
                                }
                            }
                        }
                    }
                    let mut sets: Vec<Vec<((String, u64), Fault)>> = vec![vec![]];
                    sets.extend(singles.iter().map(|s| vec![s.clone()]));
                    // a few pairs (two events, or two positions of one event)
                    for _ in 0..singles.len().min(6) {
                        let a = r.pick(&singles).clone();
                        let b = r.pick(&singles).clone();
                        if a.0 != b.0 {
                            sets.push(vec![a, b]);
                        }
                    }
                    // aimed pairs inside ONE event: an error recorded at a nullable position together with an error
                    // that propagates from a non-null position (up to the root field): the recorded one must survive
                    {
                        let node_of = |s: &((String, u64), Fault)| s.0 .1;
                        let nullable_errs: Vec<&((String, u64), Fault)> = singles.iter().filter(|s| s.1 == Fault::Err && singles.iter().any(|t| t.0 == s.0 && t.1 == Fault::Null)).collect();
                        let nonnull_errs: Vec<&((String, u64), Fault)> = singles.iter().filter(|s| s.1 == Fault::Err && !singles.iter().any(|t| t.0 == s.0 && t.1 == Fault::Null)).collect();
                        for _ in 0..4 {
                            if nullable_errs.is_empty() || nonnull_errs.is_empty() {
                                break;
                            }
                            let a = (*r.pick(&nullable_errs)).clone();
                            let same: Vec<&&((String, u64), Fault)> = nonnull_errs.iter().filter(|b| node_of(b) == node_of(&a) || b.0 .0.split('.').count() != a.0 .0.split('.').count()).collect();
                            let b = if !same.is_empty() { (**r.pick(&same)).clone() } else { (*r.pick(&nonnull_errs)).clone() };
                            if a.0 != b.0 {
                                run.count("subscription_event_pairs_nullable_plus_nonnull", 1);
                                sets.push(vec![a, b]);
                            }
                        }
                    }
                    for set in sets {
                        let mut case = base_case.clone();
                        for (pos, k) in &set {
                            case.world.node_faults.insert(pos.clone(), *k);
                        }
                        let exp = expected_of(&ts, &case);
                        let obs = match catch(|| run_once(schema, &ts, &case, &mut FifoChooser)) {
                            Ok(o) => o,
                            Err(p) => {
                                run.violation(&format!("C03-sub-panic:{:x}", case_hash(&case)), &format!("execute_stream panicked: {p}"), json!({"document": case.printed.text, "faults": faults_json(&case), "flavour": flavour}));
                                continue;
                            }
                        };
                        run.eval();
                        run.count("subscription_event_faults_injected", set.len() as u64);
                        run.count("faults_injected", set.len() as u64);
                        let want = &exp[&case.roots[0].key];
                        let mut problems: Vec<String> = vec![];
                        if !obs.ended {
                            problems.push("the response stream did not end".into());
                        }
                        // A dynamic subscription ends its stream after an event that failed at a non-null root field
                        // (deliberate `break` in src/dynamic/subscription.rs). Whether later events are still delivered
                        // is not part of C03 (nor of C27), so a shortfall is accepted exactly there: the last delivered
                        // response belongs to an event whose reference data is null.
                        let ended_after_root_failure = flavour == "dynamic"
                            && !obs.responses.is_empty()
                            && obs.responses.len() < want.len()
                            && want[obs.responses.len() - 1].data.is_null();
                        if obs.responses.len() != want.len() && !ended_after_root_failure {
                            problems.push(format!("{} responses for {} events", obs.responses.len(), want.len()));
                        }
                        if ended_after_root_failure {
                            run.count("dynamic_streams_ended_after_root_failure", 1);
                        }
                        for (k, ((o, _), w)) in obs.responses.iter().zip(want.iter()).enumerate() {
                            run.count("subscription_event_responses_compared", 1);
                            if !w.errors.is_empty() {
                                run.nontrivial(rng::mix(&[case_hash(&case), k as u64]));
                                run.count("executions_with_expected_errors", 1);
                            }
                            // a root-level failure of a non-null root field: the reference says data: null; an
                            // implementation answering {key: null} for a nullable root is judged by the comparator
                            let mode = if set.len() > 1 { ErrMode::Exact } else { ErrMode::Exact };
                            for d in compare(o, w, &case.printed, mode) {
                                problems.push(format!("event {k}: {d}"));
                            }
                        }
                        run.seen("fault_classes", &format!("subscription-event:{flavour}:{}", set.iter().map(|s| s.1.name()).collect::<Vec<_>>().join("+")));
                        if !problems.is_empty() {
                            problems.truncate(4);
                            run.violation(
                                &format!("C03-sub:{:x}", case_hash(&case)),
                                &format!("[subscription-event:{flavour}] faults {:?}: {} | doc: {}", set, problems.join("; "), case.printed.text),
                                replay_json(&case, &json!({"c03_subscription_events": true}), &exp, &obs),
                            );
                        }
                    }
                }
            });
        }
    });
}

// ---------------------------------------------------------------- (4) streamed query / mutation

fn canonical(o: &Observed) -> (J, Vec<String>) {
    let mut errs: Vec<String> =
        o.errors.iter().map(|e| format!("{:?}|{:?}|{}", e.path.as_ref().map(|p| path_str(p)), e.locations, e.message)).collect();
    errs.sort();
    (o.data.clone(), errs)
}

fn streamed_nonsub(cx: &Ctx<'_>, r: &mut Rng) {
    let run = cx.run;
    let (ts, schema, class) = match r.below(4) {
        0 | 1 => (cx.ts.clone(), cx.s1.clone(), "static"),
        2 => (cx.ts.clone(), cx.dy.clone(), "dynamic_with_subscription_type"),
        _ => {
            if !run.feature("dynamic_stream_without_subscription_type") {
                return;
            }
            let mut to = ts_opts(run);
            to.max_objects = 3;
            let ts = Arc::new(gen_type_system(r, &to));
            match catch(|| dynb::build(&ts)) {
                Ok(Ok(s)) => (ts, AnySchema::Dyn(s), "dynamic_without_subscription_type"),
                _ => return,
            }
        }
    };
    run.count(&format!("streamed_nonsub_{class}"), 1);
    let mut o = doc_opts(run);
    o.max_depth = 2;
    o.max_items = 3;
    o.kind = if ts.mutation.is_some() && r.chance(1, 3) { OpKind::Mutation } else { OpKind::Query };
    let gd = gen_doc(&ts, r, &o);
    let world = world_for(schema.flavour(), r.next_u64());
    let mut case = Case::new(ts.clone(), gd, world, false);
    let base = case.reference();
    if base.request_error.is_none() && !base.calls.is_empty() && r.chance(1, 2) {
        let p = r.pick(&base.calls).path.clone();
        case.world = case.world.with_faults(&[(p, Fault::Err)]);
    }
    let env_a = Env::new(case.ts.clone(), case.world.clone());
    let env_b = Env::new(case.ts.clone(), case.world.clone());
    let (req_a, req_b) = (case.request(&env_a), case.request(&env_b));
    let out = catch(|| {
        let streamed: Vec<Response> = match &schema {
            AnySchema::S1(s) => vh_core::vsched::block_on(s.execute_stream(req_a).take(4).collect()),
            AnySchema::Dyn(s) => vh_core::vsched::block_on(s.execute_stream(req_a).take(4).collect()),
            AnySchema::Gen(s) => vh_core::vsched::block_on(s.execute_stream(req_a).take(4).collect()),
        };
        (streamed, schema.execute(req_b))
    });
    let (streamed, single) = match out {
        Ok(x) => x,
        Err(p) => {
            run.violation(&format!("C27-nonsub-panic:{:x}", case.hash()), &format!("panicked: {p}"), case.replay_json(schema.flavour()));
            return;
        }
    };
    run.evals(2);
    run.count("streamed_query_or_mutation_requests", 1);
    run.count(if o.kind == OpKind::Mutation { "streamed_mutations" } else { "streamed_queries" }, 1);
    let want = canonical(&observe(&single));
    if !want.1.is_empty() {
        run.count("streamed_nonsub_with_errors", 1);
    }
    run.nontrivial(rng::mix(&[case.hash(), 4]));
    run.sample_upto(
        5,
        json!({"kind": "streamed query/mutation", "flavour": class, "document": case.printed.text, "variables": case.gd.vars,
               "faults": format!("{:?}", case.world.faults), "responses_from_execute_stream": streamed.iter().map(|r| observe(r).raw).collect::<Vec<_>>(),
               "response_from_execute": observe(&single).raw}),
    );
    let mut diffs = vec![];
    if streamed.len() != 1 {
        diffs.push(format!("execute_stream yielded {} responses for a {:?}, expected exactly one", streamed.len(), o.kind));
    }
    if let Some(first) = streamed.first() {
        let got = canonical(&observe(first));
        if got != want {
            diffs.push(format!("streamed response differs from execute(): data {} errors {:?} vs data {} errors {:?}", got.0, got.1, want.0, want.1));
        }
    }
    if !diffs.is_empty() {
        let mut rj = case.replay_json(schema.flavour());
        rj["kind"] = json!("streamed-non-subscription");
        rj["streamed"] = J::Array(streamed.iter().map(|r| observe(r).raw).collect());
        rj["execute"] = observe(&single).raw;
        run.violation(
            &format!("C27-nonsub:{:x}", case.hash()),
            &format!("[{}] {} | doc: {}", schema.flavour(), diffs.join("; "), case.printed.text),
            rj,
        );
    }
}

// ---------------------------------------------------------------- pinned witnesses

fn tag_errors(case: &SubCase, o: &Observed) -> Vec<String> {
    o.errors
        .iter()
        .map(|e| {
            let p = e.path.as_ref().map(|p| path_str(p)).unwrap_or_else(|| "<none>".into());
            match parse_boom(&e.message).and_then(|pos| case.owners.get(&pos).cloned()) {
                Some((k, n)) => format!("{p} raised by {k}#{n}"),
                None => format!("{p} ({})", e.message),
            }
        })
        .collect()
}

fn witness_case(flavour: &'static str, roots: Vec<(&str, Vec<&str>)>, faults: Vec<(&str, &str)>) -> SubCase {
    let mut doc = Doc::default();
    let mut sel = vec![];
    let mut rs = vec![];
    for (key, fields) in &roots {
        let s = fields.iter().map(|f| fsel(&mut doc, None, f, vec![], vec![])).collect();
        sel.push(fsel(&mut doc, Some(key), "ticks", vec![("n", Val::Int(1))], s));
        rs.push(Root { key: key.to_string(), field: "ticks", n: 1, kind: None, null_events: flavour == "static" });
    }
    doc.ops = vec![Op { kind: OpKind::Subscription, name: None, vars: vec![], dirs: vec![], sel }];
    let printed = print(&doc, false);
    let mut world = sub_world(flavour, 7);
    let mut owners = BTreeMap::new();
    for (key, f) in faults {
        let id = event_id(world.seed, key, 0);
        world.node_faults.insert((format!("{key}.{f}"), id), Fault::Err);
        owners.insert((format!("{key}.{f}"), id), (key.to_string(), 0));
    }
    SubCase { flavour, roots: rs, doc, printed, world, owners }
}

/// Static: `subscription { x: ticks(n: 1) { n } y: ticks(n: 1) { bad maybe } }`, `y.bad` fails, and
/// x's event completes while y's is still in flight.
fn witness_static(cx: &Ctx<'_>) {
    let run = cx.run;
    let case = witness_case("static", vec![("x", vec!["n"]), ("y", vec!["bad", "maybe"])], vec![("y", "bad")]);
    let order = ["ev:x:0", "ev:y:0", "r:y.bad", "r:x.n", "r:y.maybe"];
    let mut ch = LabelChooser { order: order.iter().map(|s| s.to_string()).collect(), at: 0 };
    let exp = expected_of(&cx.ts, &case);
    let obs = run_once(&cx.s1, &cx.ts, &case, &mut ch);
    run.eval();
    let (diffs, _) = check(&case, &exp, &obs);
    let per: Vec<String> = obs
        .responses
        .iter()
        .map(|(o, _)| format!("{{{}}} errors {:?}", o.data.as_object().map(|m| m.keys().cloned().collect::<Vec<_>>().join(",")).unwrap_or("null".into()), tag_errors(&case, o)))
        .collect();
    let observed = format!("{} with y.bad failing, gates opened {:?} -> {}", case.printed.text, obs.report.opened, per.join(" ; "));
    if diffs.is_empty() {
        run.count("witness_static_shared_error_list_now_clean", 1);
        run.note(&format!("C27 static witness behaves: {observed}"));
    } else {
        run.violation(
            &format!("C27-static-event-errors-drained-from-shared-list|{observed}"),
            &format!("pinned witness: {observed} | {}", diffs.join("; ")),
            replay_json(&case, &json!({"witness": "C27-static"}), &exp, &obs),
        );
    }
}

/// Dynamic: `subscription { y: ticks(n: 1) { bad } }`, `y.bad` fails: the error is captured in the
/// request-wide list, which the dynamic subscription never reads.
fn witness_dynamic(cx: &Ctx<'_>) {
    let run = cx.run;
    let case = witness_case("dynamic", vec![("y", vec!["bad"])], vec![("y", "bad")]);
    let exp = expected_of(&cx.ts, &case);
    let obs = run_once(&cx.dy, &cx.ts, &case, &mut FifoChooser);
    run.eval();
    let (diffs, _) = check(&case, &exp, &obs);
    let per: Vec<String> = obs.responses.iter().map(|(o, _)| format!("data {} errors {:?}", o.data, tag_errors(&case, o))).collect();
    let observed = format!("{} with y.bad failing -> {}", case.printed.text, per.join(" ; "));
    if diffs.is_empty() {
        run.count("witness_dynamic_event_errors_now_clean", 1);
        run.note(&format!("C27 dynamic witness behaves: {observed}"));
    } else {
        run.violation(
            &format!("C27-dynamic-event-errors-never-delivered|{observed}"),
            &format!("pinned witness: {observed} | {}", diffs.join("; ")),
            replay_json(&case, &json!({"witness": "C27-dynamic"}), &exp, &obs),
        );
    }
}

/// Dynamic schema without a subscription type: `{ f }` through `execute_stream`.
fn witness_no_subscription_root(cx: &Ctx<'_>) {
    use vh_model::types::{FieldDef, Kind, Ty, TypeDef};
    let run = cx.run;
    let mut ts = TypeSystem::new("Query");
    ts.add(TypeDef {
        name: "Query".into(),
        kind: Kind::Object { fields: vec![FieldDef { name: "f".into(), args: vec![], ty: Ty::named("Int") }], implements: vec![] },
    });
    let ts = Arc::new(ts);
    let Ok(schema) = dynb::build(&ts) else {
        run.inconclusive("witness schema `type Query { f: Int }` does not build");
        return;
    };
    let env = Env::new(ts.clone(), world_for("dynamic", 3));
    let streamed: Vec<Response> =
        vh_core::vsched::block_on(schema.execute_stream(Request::new("{ f }").data(env.clone())).take(4).collect());
    let single = vh_core::vsched::block_on(schema.execute(Request::new("{ f }").data(env)));
    run.evals(2);
    let show = |r: &Response| {
        let o = observe(r);
        format!("data {} errors {:?}", o.data, o.errors.iter().map(|e| e.message.clone()).collect::<Vec<_>>())
    };
    let observed = format!(
        "type Query {{ f: Int }} (no subscription type): execute_stream(\"{{ f }}\") -> {} ; execute -> {}",
        streamed.iter().map(|r| show(r)).collect::<Vec<_>>().join(" ; "),
        show(&single)
    );
    if streamed.len() == 1 && canonical(&observe(&streamed[0])) == canonical(&observe(&single)) {
        run.count("witness_dynamic_stream_without_subscription_type_now_clean", 1);
        run.note(&format!("C27 witness behaves: {observed}"));
    } else {
        run.violation(
            &format!("C27-dynamic-streamed-query-needs-subscription-type|{observed}"),
            &format!("pinned witness: {observed}"),
            json!({"generator": {"witness": "C27-no-subscription-root"}, "observed": observed}),
        );
    }
}

// ---------------------------------------------------------------- replay

fn replay(cx: &Ctx<'_>, path: &std::path::Path) {
    let run = cx.run;
    let Ok(text) = std::fs::read_to_string(path) else {
        run.inconclusive("replay file unreadable");
        return;
    };
    let v: J = serde_json::from_str(&text).unwrap_or(J::Null);
    let c = &v["case"];
    let g = &c["generator"];
    let Some(case_seed) = g["case_seed"].as_u64() else {
        match g["witness"].as_str() {
            Some("C27-static") => witness_static(cx),
            Some("C27-dynamic") => witness_dynamic(cx),
            Some("C27-no-subscription-root") => witness_no_subscription_root(cx),
            _ => println!("NOTE: replay of this case kind is not supported (streamed query/mutation cases carry document, variables, world seed and faults for the C03/C05 replay path)"),
        }
        return;
    };
    let flavour: &'static str = if g["flavour"] == "dynamic" { "dynamic" } else { "static" };
    let o = GenOpts {
        small: g["small"].as_bool().unwrap_or(false),
        cross_root_errors: g["cross_root_errors"].as_bool().unwrap_or(true),
        nullable_errors: g["nullable_errors"].as_bool().unwrap_or(true),
    };
    let mut r = Rng::new(case_seed);
    let case = gen_case(&cx.ts, &mut r, flavour, &o);
    let exp = expected_of(&cx.ts, &case);
    let choices: Vec<usize> = c["schedule_choices"].as_array().map(|a| a.iter().filter_map(|x| x.as_u64().map(|x| x as usize)).collect()).unwrap_or_default();
    let mut ch = ReplayChooser { choices, at: 0 };
    let obs = run_once(cx.schema(flavour), &cx.ts, &case, &mut ch);
    run.eval();
    let (diffs, _) = check(&case, &exp, &obs);
    println!("REPLAY document: {}", case.printed.text);
    println!("REPLAY faults: {}", faults_json(&case));
    println!("REPLAY schedule: {:?}", obs.report.opened);
    println!("REPLAY responses: {}", responses_json(&obs));
    if diffs.is_empty() {
        println!("REPLAY result: property held on this case");
    } else {
        run.violation(&format!("C27-replay:{:x}", case_hash(&case)), &diffs.join("; "), replay_json(&case, g, &exp, &obs));
    }
}

// ---------------------------------------------------------------- main

pub fn main() {
    let mut run = Run::from_args(
        "exploration",
        "subscription operations with 1-3 aliased root fields (ticks / events of the static schema S1 and of a dynamic \
         schema built from the same model), event objects with 1-4 gated sub-fields, 0-3 single-node faults (resolver \
         error or null, mostly at nullable positions) whose error message names the (root, event) they belong to; every \
         event arrival and every sub-field resolver is a vsched gate; all schedules by DFS for small cases (cap 150 quick / \
         1500 thorough per case, counter cases_fully_enumerated), LIFO + seeded random schedules beyond; each response is \
         compared with the reference result of its own event alone (data, errors by path and by cause), per root: one \
         response per produced event, in order. Plus generated queries/mutations through execute_stream: exactly one \
         response equal to execute(). Non-trivial = distinct (case, schedule) with at least one branch point",
    );
    run.assume("reference executor R1 (execute_event) implements spec 6.2.3.2 ExecuteSubscriptionEvent for one root response key");
    run.assume("an error whose position lies under a position nulled by another reported error of the same event may be absent (spec allows cancelling siblings)");
    run.assume("whether a root field's stream continues after an event that failed at the root is not asserted (the dynamic flavour ends it)");
    let s1ts = s1::model();
    let dy = match catch(|| dyn_schema(&s1ts)) {
        Ok(Ok(s)) => s,
        other => {
            run.set_floors(0, 0);
            run.inconclusive(&format!("dynamic schema over the S1 model does not build: {:?}", other.map(|r| r.err())));
            run.finish();
        }
    };
    let (s1s, dys) = (AnySchema::S1(s1::schema()), AnySchema::Dyn(dy));
    if let Some(p) = run.replay.clone() {
        let cx = Ctx { run: &run, ts: s1ts.clone(), s1: s1s, dy: dys };
        replay(&cx, &p);
        run.finish_code_exit();
    }
    run.set_floors(3000, 500);
    run.require_counter("runs_two_roots_in_flight");
    run.require_counter("cases_fully_enumerated");
    run.require_counter("responses_with_errors");
    run.require_counter("errors_attributed_to_their_event");
    run.require_counter("streamed_query_or_mutation_requests");
    run.require_counter("runs_static");
    run.require_counter("runs_dynamic");
    if run.feature("static_errors_with_concurrent_roots") {
        run.require_counter("runs_error_raised_while_other_root_in_flight");
    }
    let cases = run.scale(1200, 12_000);
    let cap = run.scale(150, 1500) as usize;
    let randoms = run.scale(30, 120);
    let nonsub = run.scale(1200, 20_000);
    let shards = n_shards(&run);
    let deadline = run.scale(240, 2700) as f64;
    let run = &run;
    let cx = Ctx { run, ts: s1ts.clone(), s1: s1s, dy: dys };
    witness_static(&cx);
    witness_dynamic(&cx);
    witness_no_subscription_root(&cx);
    let cx = &cx;
    std::thread::scope(|sc| {
        for shard in 0..shards {
            sc.spawn(move || {
                let mut i = shard;
                while i < cases {
                    if run.elapsed_s() > deadline {
                        if shard == 0 {
                            run.inconclusive(&format!("watchdog: wall-clock budget of {deadline} s exceeded after about {i} of {cases} cases"));
                        }
                        return;
                    }
                    let case_seed = rng::mix(&[run.seed, 27, i]);
                    let flavour = if i % 3 == 2 { "dynamic" } else { "static" };
                    let small = (i / 3) % 2 == 0;
                    one_case(cx, i, case_seed, flavour, small, cap, randoms);
                    i += shards;
                }
                let mut r = shard_rng(run, 27, 1000 + shard);
                let mut j = shard;
                while j < nonsub && run.elapsed_s() <= deadline {
                    streamed_nonsub(cx, &mut r);
                    j += shards;
                }
            });
        }
    });
    run.finish_code_exit();
}
