//! C20 — stub (being built).
pub fn main() {
    println!("INCONCLUSIVE property=C20 reason=check not built yet");
    std::process::exit(2);
}
