//! C20 — the response cache policy is never looser than the data it contains.
//!
//! Two monitors.
//!
//! 1. Documents over S1 (whose object types and fields carry cache hints) are
//!    executed by the real executor. The reference executor R1 tells which
//!    object types were entered and which (object type, field) resolvers ran,
//!    i.e. what the response *contains*; the hint table below states what the
//!    Rust source of S1 declares. `resp.cache_control` must be at least as
//!    restrictive as the combination of the contained hints, and for
//!    selections made only on object types it must equal it.
//! 2. Combination laws through the public API (`BatchResponse::cache_control`)
//!    over a complete policy grid, and `CacheControl::value()` against the
//!    policy it renders.

use std::collections::BTreeSet;
use std::path::Path;

use async_graphql::{BatchRequest, BatchResponse, CacheControl, Request, Response, ValidationMode, Variables};
use serde_json::{Value as J, json};
use vh_core::{Rng, Run, catch, rng};
use vh_model::doc::*;
use vh_model::exec::RefResult;
use vh_model::gen_doc::{GenDoc, gen_doc, overlapping};
use vh_model::world::World;
use vh_model::{Kind, TypeSystem, Val};
use vh_schema::compare::{json_eq, observe};
use vh_schema::{Env, s1};

use crate::common::*;

// ---------------------------------------------------------------- policy model (DESIGN A.6)

#[derive(Clone, Copy, PartialEq, Eq, Debug, PartialOrd, Ord)]
pub struct Pol {
    pub public: bool,
    /// -1 no-cache, 0 unset, n > 0 max-age
    pub age: i32,
}

pub const UNSET: Pol = Pol { public: true, age: 0 };

impl Pol {
    fn of(c: CacheControl) -> Pol {
        Pol { public: c.public, age: c.max_age }
    }
    fn cc(self) -> CacheControl {
        CacheControl { public: self.public, max_age: self.age }
    }
    fn text(self) -> String {
        let scope = if self.public { "public" } else { "private" };
        match self.age {
            -1 => format!("{scope}, no-cache"),
            0 => format!("{scope}, max-age unset"),
            n => format!("{scope}, max-age={n}"),
        }
    }
    fn json(self) -> J {
        json!({"public": self.public, "max_age": self.age})
    }
    fn from_json(j: &J) -> Option<Pol> {
        Some(Pol { public: j.get("public")?.as_bool()?, age: j.get("max_age")?.as_i64()? as i32 })
    }
}

/// combine = (p1 ∧ p2, −1 if either is −1, else the other if one is 0, else min)
pub fn combine(a: Pol, b: Pol) -> Pol {
    Pol {
        public: a.public && b.public,
        age: if a.age == -1 || b.age == -1 {
            -1
        } else if a.age == 0 {
            b.age
        } else if b.age == 0 {
            a.age
        } else {
            a.age.min(b.age)
        },
    }
}

/// `obs` is at least as restrictive as `bound`: private if bound is, no-cache
/// if bound is, max-age set and not above bound's positive max-age.
fn not_looser(obs: Pol, bound: Pol) -> bool {
    combine(obs, bound) == obs
}

// ---------------------------------------------------------------- every derive form that can carry a hint

/// The hint of an object type has to be registered by whichever derive form declares the type. A second, small
/// schema declares one object per form — `#[Object]`, `#[derive(SimpleObject)]`, a generic `SimpleObject` registered
/// through `concrete(...)` (two instantiations), `SimpleObject` + `#[ComplexObject]`, a `MergedObject` of two hinted
/// halves — each with its own object-level hint and, where the form allows, a field-level hint; every object-only
/// selection over it has an exactly known policy (the combination of the hints written below, by hand).
mod forms {
    use async_graphql::*;

    pub struct Plain;
    #[Object(cache_control(max_age = 41))]
    impl Plain {
        async fn v(&self) -> i32 {
            1
        }
        #[graphql(cache_control(max_age = 3))]
        async fn short(&self) -> i32 {
            2
        }
    }

    #[derive(SimpleObject)]
    #[graphql(cache_control(max_age = 42, private))]
    pub struct Simple {
        pub v: i32,
        #[graphql(cache_control(max_age = 4))]
        pub short: i32,
    }

    #[derive(SimpleObject)]
    #[graphql(concrete(name = "BoxedInt", params(i32)), concrete(name = "BoxedText", params(String)))]
    #[graphql(cache_control(max_age = 43, private))]
    pub struct Boxed<T: OutputType> {
        pub v: T,
        #[graphql(cache_control(max_age = 6))]
        pub short: i32,
    }

    #[derive(SimpleObject)]
    #[graphql(complex, cache_control(max_age = 44))]
    pub struct Mixed {
        pub v: i32,
    }
    #[ComplexObject]
    impl Mixed {
        #[graphql(cache_control(no_cache))]
        async fn live(&self) -> i32 {
            3
        }
        async fn calm(&self) -> i32 {
            4
        }
    }

    #[derive(Default)]
    pub struct HalfA;
    #[Object(cache_control(max_age = 45))]
    impl HalfA {
        async fn a(&self) -> i32 {
            5
        }
    }
    #[derive(Default)]
    pub struct HalfB;
    #[Object(cache_control(max_age = 46, private))]
    impl HalfB {
        async fn b(&self) -> i32 {
            6
        }
    }
    #[derive(MergedObject, Default)]
    pub struct Merged(HalfA, HalfB);

    pub struct Query;
    #[Object]
    impl Query {
        async fn plain(&self) -> Plain {
            Plain
        }
        async fn simple(&self) -> Simple {
            Simple { v: 1, short: 2 }
        }
        async fn boxed_int(&self) -> Boxed<i32> {
            Boxed { v: 1, short: 2 }
        }
        async fn boxed_text(&self) -> Boxed<String> {
            Boxed { v: "x".into(), short: 2 }
        }
        async fn mixed(&self) -> Mixed {
            Mixed { v: 1 }
        }
        async fn merged(&self) -> Merged {
            Merged::default()
        }
        async fn simples(&self) -> Vec<Simple> {
            vec![Simple { v: 1, short: 2 }]
        }
    }

    pub fn schema() -> Schema<Query, EmptyMutation, EmptySubscription> {
        Schema::new(Query, EmptyMutation, EmptySubscription)
    }
}

/// (root field, object-level hint, [(sub-field, field-level hint)])
fn forms_table() -> Vec<(&'static str, Pol, Vec<(&'static str, Pol)>)> {
    let p = |public: bool, age: i32| Pol { public, age };
    vec![
        ("plain", p(true, 41), vec![("v", UNSET), ("short", p(true, 3))]),
        ("simple", p(false, 42), vec![("v", UNSET), ("short", p(true, 4))]),
        ("simples", p(false, 42), vec![("v", UNSET), ("short", p(true, 4))]),
        ("boxedInt", p(false, 43), vec![("v", UNSET), ("short", p(true, 6))]),
        ("boxedText", p(false, 43), vec![("v", UNSET), ("short", p(true, 6))]),
        ("mixed", p(true, 44), vec![("v", UNSET), ("live", p(true, -1)), ("calm", UNSET)]),
        // Merged = HalfA (max-age 45) + HalfB (private, max-age 46)
        ("merged", p(false, 45), vec![("a", UNSET), ("b", UNSET)]),
    ]
}

fn derive_forms(run: &Run) {
    let schema = forms::schema();
    let fast = {
        let s = async_graphql::Schema::build(forms::Query, async_graphql::EmptyMutation, async_graphql::EmptySubscription).validation_mode(async_graphql::ValidationMode::Fast).finish();
        s
    };
    let table = forms_table();
    let mut r = Rng::new(rng::mix(&[run.seed, 2020]));
    let n = run.scale(400, 20_000);
    for i in 0..n {
        // 1-3 root fields, each with a non-empty subset of its sub-fields, optionally behind `... on <Type>`-free
        // inline fragments (no type condition: still an object-only selection)
        let mut want = UNSET;
        let mut parts = vec![];
        let k = 1 + r.below(3);
        for j in 0..k {
            let (root, obj, subs) = r.pick(&table).clone();
            want = combine(want, obj);
            let mut picked: Vec<&(&str, Pol)> = subs.iter().filter(|_| r.bool()).collect();
            if picked.is_empty() {
                picked.push(r.pick(&subs));
            }
            let mut inner = vec![];
            for (f, h) in picked {
                want = combine(want, *h);
                inner.push(f.to_string());
            }
            let body = if r.chance(1, 4) { format!("... {{ {} }}", inner.join(" ")) } else { inner.join(" ") };
            parts.push(format!("r{j}: {root} {{ {body} }}"));
        }
        let doc = format!("{{ {} }}", parts.join(" "));
        for (mode, s) in [("Strict", &schema), ("Fast", &fast)] {
            if mode == "Fast" && i % 3 != 0 {
                continue;
            }
            let resp = vh_core::vsched::block_on(s.execute(doc.as_str()));
            run.eval();
            run.count("derive_form_requests", 1);
            if !resp.errors.is_empty() {
                run.violation(&format!("C20-forms-error:{:x}", rng::hash_str(&doc)), &format!("derive-forms schema ({mode}): unexpected errors {:?} for {doc}", resp.errors), json!({"document": doc, "mode": mode}));
                continue;
            }
            let got = Pol::of(resp.cache_control);
            run.nontrivial(rng::mix(&[rng::hash_str(&doc), 2020]));
            if got != want {
                run.violation(
                    &format!("C20-forms:{:x}", rng::mix(&[rng::hash_str(&doc), rng::hash_str(mode)])),
                    &format!("derive-forms schema ({mode}): response policy ({}) differs from the combination of the declared hints ({}) for the object-only selection {doc}", got.text(), want.text()),
                    json!({"document": doc, "mode": mode, "observed": got.json(), "expected": want.json(), "flavour": "derive-forms"}),
                );
            }
        }
    }
}

// ---------------------------------------------------------------- what the Rust source of S1 declares

fn type_hint(ty: &str) -> Pol {
    match ty {
        "Dog" => Pol { public: false, age: 5 },
        "Cat" => Pol { public: true, age: 50 },
        "Person" => Pol { public: true, age: -1 },
        // QueryA and QueryB both declare max_age = 100 and are merged into Query
        "Query" => Pol { public: true, age: 100 },
        _ => UNSET,
    }
}

fn field_hint(ty: &str, field: &str) -> Pol {
    match (ty, field) {
        ("Query", "dogs") => Pol { public: true, age: 10 },
        ("Dog", "owner") => Pol { public: true, age: 30 },
        ("Cat", "id") => Pol { public: true, age: 2 },
        _ => UNSET,
    }
}

fn fold_hints<'a>(types: impl Iterator<Item = &'a String>, fields: impl Iterator<Item = &'a (String, String)>) -> Pol {
    let mut p = UNSET;
    for t in types {
        p = combine(p, type_hint(t));
    }
    for (t, f) in fields {
        p = combine(p, field_hint(t, f));
    }
    p
}

// ---------------------------------------------------------------- static shape of the executed operation

#[derive(Default, Debug, Clone)]
struct Shape {
    /// object types on which a selection set is written (directives ignored)
    types: BTreeSet<String>,
    /// (object type, field) selected (directives ignored)
    fields: BTreeSet<(String, String)>,
    /// an interface or union is traversed or named anywhere
    abstract_involved: bool,
    /// a field / __typename is selected where the enclosing type is abstract, or a fragment has an abstract type condition
    direct_on_abstract: bool,
    /// a named fragment is spread where the enclosing type is abstract
    spread_under_abstract: bool,
    /// kinds of fields through which composite data is reached
    via: BTreeSet<&'static str>,
}

fn is_abstract(ts: &TypeSystem, t: &str) -> bool {
    matches!(ts.kind(t), Kind::Interface { .. } | Kind::Union(_))
}

fn shape_of(ts: &TypeSystem, doc: &Doc, op: &Op) -> Shape {
    fn walk(ts: &TypeSystem, doc: &Doc, sels: &[Sel], enclosing: &str, sh: &mut Shape, stack: &mut Vec<String>) {
        let abs = is_abstract(ts, enclosing);
        if abs {
            sh.abstract_involved = true;
        } else {
            sh.types.insert(enclosing.to_string());
        }
        for s in sels {
            match s {
                Sel::Field(f) => {
                    if abs {
                        sh.direct_on_abstract = true;
                    }
                    if f.name == "__typename" {
                        continue;
                    }
                    if !abs {
                        sh.fields.insert((enclosing.to_string(), f.name.clone()));
                    }
                    let Some(fd) = ts.field(enclosing, &f.name) else { continue };
                    let inner = fd.ty.name().to_string();
                    if ts.is_composite(&inner) {
                        sh.via.insert(match ts.kind(&inner) {
                            Kind::Interface { .. } => "interface_field",
                            Kind::Union(_) => "union_field",
                            _ => "object_field",
                        });
                        walk(ts, doc, &f.sel, &inner, sh, stack);
                    }
                }
                Sel::Inline { cond, sel, .. } => {
                    if let Some(c) = cond {
                        if is_abstract(ts, c) {
                            sh.abstract_involved = true;
                            sh.direct_on_abstract = true;
                        }
                        sh.via.insert("inline_fragment_with_type_condition");
                    }
                    walk(ts, doc, sel, cond.as_deref().unwrap_or(enclosing), sh, stack);
                }
                Sel::Spread { name, .. } => {
                    let Some(fr) = doc.frag(name) else { continue };
                    if is_abstract(ts, &fr.cond) {
                        sh.abstract_involved = true;
                        sh.direct_on_abstract = true;
                    }
                    if abs {
                        sh.spread_under_abstract = true;
                    }
                    sh.via.insert("named_fragment");
                    if stack.contains(name) {
                        continue;
                    }
                    stack.push(name.clone());
                    walk(ts, doc, &fr.sel, &fr.cond, sh, stack);
                    stack.pop();
                }
            }
        }
    }
    let mut sh = Shape::default();
    let root = match op.kind {
        OpKind::Query => ts.query.clone(),
        OpKind::Mutation => ts.mutation.clone().unwrap_or_default(),
        OpKind::Subscription => ts.subscription.clone().unwrap_or_default(),
    };
    walk(ts, doc, &op.sel, &root, &mut sh, &mut vec![]);
    sh
}

// ---------------------------------------------------------------- focused generator

/// Documents that reach Dog / Cat / Person through object, interface and
/// union fields, with and without type-conditioned fragments. Valid by
/// construction: nested fields carry neither aliases nor arguments, so equal
/// response keys always denote the same field of the same type; root fields
/// that repeat a name get a fresh alias.
struct Fg<'a> {
    r: &'a mut Rng,
    ts: &'a TypeSystem,
    doc: Doc,
    frags: Vec<Frag>,
    direct_abstract: bool,
    spread_abstract: bool,
    features: BTreeSet<String>,
}

const MAX_DEPTH: u32 = 3;

impl Fg<'_> {
    fn fld(&mut self, name: &str, alias: Option<String>, args: Vec<(String, Val)>, sel: Vec<Sel>) -> Sel {
        let id = self.doc.fresh_id();
        let dirs = self.dirs();
        Sel::Field(FieldSel { id, alias, name: name.into(), args, dirs, sel })
    }

    fn dirs(&mut self) -> Vec<Dir> {
        if !self.r.chance(1, 12) {
            return vec![];
        }
        self.features.insert("directive".into());
        let name = if self.r.bool() { "skip" } else { "include" };
        vec![Dir { name: name.into(), args: vec![("if".into(), Val::Bool(self.r.bool()))] }]
    }

    fn named_fragment(&mut self, cond: &str, sel: Vec<Sel>) -> Sel {
        let name = format!("F{}", self.frags.len() + 1);
        self.frags.push(Frag { name: name.clone(), cond: cond.to_string(), sel });
        let id = self.doc.fresh_id();
        let dirs = self.dirs();
        self.features.insert("named_fragment".into());
        Sel::Spread { id, name, dirs }
    }

    fn inline(&mut self, cond: Option<&str>, sel: Vec<Sel>) -> Sel {
        let id = self.doc.fresh_id();
        let dirs = self.dirs();
        self.features.insert(if cond.is_some() { "inline_fragment" } else { "inline_fragment_untyped" }.into());
        Sel::Inline { id, cond: cond.map(|c| c.to_string()), dirs, sel }
    }

    fn sel_for(&mut self, ty: &str, depth: u32) -> Vec<Sel> {
        if is_abstract(self.ts, ty) { self.abstract_sel(ty, depth) } else { self.object_sel(ty, depth) }
    }

    fn object_sel(&mut self, ty: &str, depth: u32) -> Vec<Sel> {
        let fields = self.ts.fields(ty).to_vec();
        let usable = |f: &&vh_model::FieldDef| f.args.iter().all(|a| !a.ty.is_nonnull() || a.default.is_some());
        let leafs: Vec<String> = fields.iter().filter(usable).filter(|f| self.ts.is_leaf(f.ty.name())).map(|f| f.name.clone()).collect();
        let comps: Vec<(String, String)> = fields
            .iter()
            .filter(usable)
            .filter(|f| self.ts.is_composite(f.ty.name()))
            .map(|f| (f.name.clone(), f.ty.name().to_string()))
            .collect();
        let n = 1 + self.r.below(3);
        let mut out = vec![];
        for _ in 0..n {
            let deep = depth < MAX_DEPTH;
            match self.r.below(10) {
                5 | 6 | 7 if deep && !comps.is_empty() => {
                    let (name, inner) = self.r.pick(&comps).clone();
                    let sel = self.sel_for(&inner, depth + 1);
                    out.push(self.fld(&name, None, vec![], sel));
                }
                8 if deep => {
                    let sel = self.object_sel(ty, depth + 1);
                    let cond = if self.r.chance(1, 3) { None } else { Some(ty) };
                    out.push(self.inline(cond, sel));
                }
                9 if deep => {
                    let sel = self.object_sel(ty, depth + 1);
                    out.push(self.named_fragment(ty, sel));
                }
                4 => out.push(self.fld("__typename", None, vec![], vec![])),
                _ if !leafs.is_empty() => {
                    let name = self.r.pick(&leafs).clone();
                    out.push(self.fld(&name, None, vec![], vec![]));
                }
                _ => out.push(self.fld("__typename", None, vec![], vec![])),
            }
        }
        out
    }

    fn abstract_sel(&mut self, ty: &str, depth: u32) -> Vec<Sel> {
        let poss: Vec<String> = self.ts.possible_types(ty).into_iter().collect();
        let abstracts: Vec<String> = overlapping(self.ts, ty).into_iter().filter(|t| is_abstract(self.ts, t)).collect();
        let iface_fields: Vec<String> = self.ts.fields(ty).iter().map(|f| f.name.clone()).collect();
        let deep = depth < MAX_DEPTH;
        let n = 1 + self.r.below(3);
        let mut out = vec![];
        for _ in 0..n {
            // 0: `... on Obj`, 1: direct field, 2: __typename, 3: `... on Abstract`, 4: untyped inline,
            // 5: spread of a fragment on Obj, 6: spread of a fragment on Abstract
            let mut modes = vec![0, 0];
            if self.direct_abstract {
                modes.extend([1, 1, 2]);
                if deep {
                    modes.extend([3, 4]);
                }
            }
            if self.spread_abstract {
                modes.push(5);
                if self.direct_abstract && deep {
                    modes.push(6);
                }
            }
            match *self.r.pick(&modes) {
                1 if !iface_fields.is_empty() => {
                    let name = self.r.pick(&iface_fields).clone();
                    out.push(self.fld(&name, None, vec![], vec![]));
                    self.features.insert("field_on_interface".into());
                }
                1 | 2 => {
                    out.push(self.fld("__typename", None, vec![], vec![]));
                    self.features.insert("typename_on_abstract".into());
                }
                3 => {
                    let c = self.r.pick(&abstracts).clone();
                    let sel = self.abstract_sel(&c, depth + 1);
                    out.push(self.inline(Some(&c), sel));
                    self.features.insert("abstract_type_condition".into());
                }
                4 => {
                    let sel = self.abstract_sel(ty, depth + 1);
                    out.push(self.inline(None, sel));
                }
                5 => {
                    let c = self.r.pick(&poss).clone();
                    let sel = self.object_sel(&c, depth + 1);
                    out.push(self.named_fragment(&c, sel));
                    self.features.insert("named_fragment_under_abstract".into());
                }
                6 => {
                    let c = self.r.pick(&abstracts).clone();
                    let sel = self.abstract_sel(&c, depth + 1);
                    out.push(self.named_fragment(&c, sel));
                    self.features.insert("named_fragment_under_abstract".into());
                    self.features.insert("abstract_type_condition".into());
                }
                _ => {
                    let c = self.r.pick(&poss).clone();
                    let sel = self.object_sel(&c, depth + 1);
                    out.push(self.inline(Some(&c), sel));
                    self.features.insert("object_type_condition_under_abstract".into());
                }
            }
        }
        out
    }

    fn root_sel(&mut self, prefix: &str) -> Vec<Sel> {
        const ROOTS: [&str; 11] = ["dog", "dogs", "people", "page", "node", "named", "pet", "pets", "thing", "echoOpt", "named"];
        let n = 1 + self.r.below(3);
        let mut used: BTreeSet<String> = BTreeSet::new();
        let mut out = vec![];
        for k in 0..n {
            let name = *self.r.pick(&ROOTS);
            let mut args: Vec<(String, Val)> = vec![];
            let small = Val::Int(self.r.below(6) as i64);
            match name {
                "dog" | "named" | "pet" if self.r.bool() => args.push(("i".into(), small)),
                "dogs" if self.r.bool() => args.push(("n".into(), Val::Int(1 + self.r.below(3) as i64))),
                "page" if self.r.bool() => args.push(("count".into(), Val::Int(self.r.below(4) as i64))),
                "node" => args.push(("id".into(), Val::Str(format!("id-{}", self.r.below(8))))),
                "thing" => args.push(("pick".into(), Val::Obj(vec![("byId".into(), Val::Str(format!("{}", self.r.below(8))))]))),
                _ => {}
            }
            let alias = if !used.insert(name.to_string()) || self.r.chance(1, 4) {
                self.features.insert("alias".into());
                Some(format!("{prefix}{k}"))
            } else {
                None
            };
            let inner = self.ts.field("Query", name).map(|f| f.ty.name().to_string()).unwrap_or_default();
            let sel = if self.ts.is_composite(&inner) { self.sel_for(&inner, 1) } else { vec![] };
            out.push(self.fld(name, alias, args, sel));
        }
        out
    }
}

fn gen_focused(ts: &TypeSystem, r: &mut Rng, direct_abstract: bool, spread_abstract: bool, other_op: bool) -> GenDoc {
    let mut g = Fg { r, ts, doc: Doc::default(), frags: vec![], direct_abstract, spread_abstract, features: BTreeSet::new() };
    let sel = g.root_sel("r");
    let mut ops = vec![Op { kind: OpKind::Query, name: None, vars: vec![], dirs: vec![], sel }];
    let mut op_name = None;
    if other_op && g.r.chance(1, 6) {
        // a second operation that is not executed
        let sel = g.root_sel("o");
        ops[0].name = Some("Main".into());
        let other = Op { kind: OpKind::Query, name: Some("Other".into()), vars: vec![], dirs: vec![], sel };
        if g.r.bool() {
            ops.push(other);
        } else {
            ops.insert(0, other);
        }
        op_name = Some("Main".to_string());
        g.features.insert("unexecuted_operation".into());
    } else if g.r.chance(1, 4) {
        ops[0].name = Some("Main".into());
        if g.r.bool() {
            op_name = Some("Main".to_string());
        }
    }
    let mut doc = g.doc;
    doc.ops = ops;
    doc.frags = g.frags;
    GenDoc { doc, op_name, vars: json!({}), features: g.features }
}

// ---------------------------------------------------------------- header rendering

/// `CacheControl::value()` must say exactly what the policy says (token order is not judged).
fn header_problem(p: Pol) -> Option<String> {
    let rendered = p.cc().value();
    let mut expect: BTreeSet<String> = BTreeSet::new();
    if p.age > 0 {
        expect.insert(format!("max-age={}", p.age));
    }
    if p.age == -1 {
        expect.insert("no-cache".into());
    }
    if !p.public {
        expect.insert("private".into());
    }
    match (&rendered, expect.is_empty()) {
        (None, true) => None,
        (None, false) => Some(format!("policy ({}) renders no header, expected tokens {expect:?}", p.text())),
        (Some(s), _) => {
            let got: BTreeSet<String> = s.split(',').map(|t| t.trim().to_string()).collect();
            if got == expect && !expect.is_empty() {
                None
            } else {
                Some(format!("policy ({}) renders {s:?}, expected tokens {expect:?}", p.text()))
            }
        }
    }
}

// ---------------------------------------------------------------- combination laws (complete grid)

const GRID_AGES: [i32; 6] = [-1, 0, 1, 5, 60, i32::MAX];

fn batch_of(ps: &[Pol]) -> Pol {
    let b = BatchResponse::Batch(ps.iter().map(|p| Response::new(async_graphql::Value::Null).cache_control(p.cc())).collect());
    Pol::of(b.cache_control())
}

fn laws(run: &Run) {
    let mut grid = vec![];
    for public in [true, false] {
        for age in GRID_AGES {
            grid.push(Pol { public, age });
        }
    }
    let law = |name: &str, operands: &[Pol], got: Pol, want: Pol| {
        run.count("law_checks", 1);
        if got != want {
            let ops: Vec<String> = operands.iter().map(|p| p.text()).collect();
            run.violation(
                &format!("C20-law-{name}:{}", ops.join("|")),
                &format!("combination law '{name}' fails for [{}]: got ({}), expected ({})", ops.join("] ["), got.text(), want.text()),
                json!({"part": "law", "law": name, "operands": operands.iter().map(|p| p.json()).collect::<Vec<_>>(), "observed": got.json(), "expected": want.json()}),
            );
        }
    };
    let r = catch(|| {
        law("empty-batch-is-default", &[], batch_of(&[]), UNSET);
        for &a in &grid {
            let single = BatchResponse::Single(Response::new(async_graphql::Value::Null).cache_control(a.cc()));
            law("single-is-itself", &[a], Pol::of(single.cache_control()), a);
            law("batch-of-one-is-itself", &[a], batch_of(&[a]), a);
            law("idempotent", &[a, a], batch_of(&[a, a]), a);
            run.count("header_checks", 1);
            if let Some(p) = header_problem(a) {
                run.violation(&format!("C20-header:{}", a.text()), &p, json!({"part": "header", "policy": a.json(), "rendered": a.cc().value()}));
            }
        }
        for &a in &grid {
            for &b in &grid {
                let ab = batch_of(&[a, b]);
                law("equals-reference-combine", &[a, b], ab, combine(a, b));
                law("commutative", &[a, b], batch_of(&[b, a]), ab);
                run.count("law_pairs", 1);
            }
        }
        for &a in &grid {
            for &b in &grid {
                for &c in &grid {
                    let t = batch_of(&[a, b, c]);
                    law("triple-equals-reference", &[a, b, c], t, combine(combine(a, b), c));
                    for perm in [[a, c, b], [b, a, c], [b, c, a], [c, a, b], [c, b, a]] {
                        law("order-independent", &perm, batch_of(&perm), t);
                    }
                    // grouping: (a·b)·c = a·(b·c), each group formed by the library itself
                    let left = batch_of(&[batch_of(&[a, b]), c]);
                    let right = batch_of(&[a, batch_of(&[b, c])]);
                    law("associative-left", &[a, b, c], left, t);
                    law("associative-right", &[a, b, c], right, t);
                    run.count("law_triples", 1);
                }
            }
        }
    });
    if let Err(p) = r {
        run.violation("C20-law-panic", &format!("combining cache policies panicked: {p}"), json!({"part": "law", "panic": p}));
    }
    // header rendering beyond the grid
    let mut rr = Rng::new(rng::mix(&[run.seed, 20, 0xcc]));
    for _ in 0..2000 {
        let p = Pol { public: rr.bool(), age: rr.range(1, i32::MAX as i64) as i32 };
        run.count("header_checks", 1);
        if let Some(m) = header_problem(p) {
            run.violation(&format!("C20-header:{}", p.text()), &m, json!({"part": "header", "policy": p.json(), "rendered": p.cc().value()}));
        }
    }
    run.extra(
        "combination_laws",
        json!({
            "exhaustive": true,
            "grid": {"public": [true, false], "max_age": GRID_AGES},
            "policies": grid.len(),
            "pairs": grid.len() * grid.len(),
            "triples": grid.len() * grid.len() * grid.len(),
            "laws": ["empty batch = default", "single = itself", "batch of one = itself", "idempotent", "pair = reference combine",
                     "commutative", "triple = reference combine", "all 6 orders equal", "(a·b)·c = a·(b·c) = fold"],
            "through": "BatchResponse::cache_control (CacheControl::merge is crate-private)",
        }),
    );
}

// ---------------------------------------------------------------- document part

#[derive(Clone)]
struct Schemas {
    strict: s1::S1Schema,
    fast: s1::S1Schema,
}

impl Schemas {
    fn new() -> Schemas {
        Schemas { strict: s1::schema(), fast: s1::builder().validation_mode(ValidationMode::Fast).finish() }
    }
    fn get(&self, fast: bool) -> &s1::S1Schema {
        if fast { &self.fast } else { &self.strict }
    }
}

struct Judged {
    obs: Pol,
}

fn contained_of(reference: &RefResult) -> Pol {
    fold_hints(reference.entered_nonempty.iter(), reference.touched.iter())
}

fn replay_of(case: &Case, fast: bool, reference: &RefResult, shape: &Shape, obs: Pol, contained: Pol, statics: Pol) -> J {
    let mut rj = case.replay_json("static");
    rj["part"] = json!("document");
    rj["null_pct"] = json!(case.world.null_pct);
    rj["validation_mode"] = json!(if fast { "Fast" } else { "Strict" });
    rj["contained_object_types"] = json!(reference.entered_nonempty);
    rj["contained_fields"] = json!(reference.touched.iter().map(|(t, f)| format!("{t}.{f}")).collect::<Vec<_>>());
    rj["contained_policy"] = contained.json();
    rj["static_selection_policy"] = statics.json();
    rj["object_types_only"] = json!(!shape.abstract_involved);
    rj["observed_policy"] = obs.json();
    rj["expected_data"] = reference.data.clone();
    rj
}

/// Execute one case and judge it. Returns the observed policy when the case was judged.
fn one(run: &Run, schemas: &Schemas, case: &Case, fast: bool) -> Option<Judged> {
    let Some(op) = case.gd.doc.op(case.gd.op_name.as_deref()) else { return None };
    let shape = shape_of(&case.ts, &case.gd.doc, op);
    let reference = case.reference();
    let env = Env::new(case.ts.clone(), case.world.clone());
    let schema = schemas.get(fast);
    let resp = match catch(|| vh_core::vsched::block_on(schema.execute(case.request(&env)))) {
        Ok(r) => r,
        Err(p) => {
            run.violation(&format!("C20-panic:{:x}", case.hash()), &format!("executor panicked: {p}"), case.replay_json("static"));
            return None;
        }
    };
    run.eval();
    run.count("resolver_events", env.log.len() as u64);
    if reference.request_error.is_some() || !reference.errors.is_empty() || !resp.errors.is_empty() {
        run.count("skipped_response_or_reference_has_errors", 1);
        return None;
    }
    let o = observe(&resp);
    if !json_eq(&o.data, &reference.data) {
        // what the response contains is then not what R1 says; data equality is C01's business
        run.count("skipped_data_differs_from_reference", 1);
        return None;
    }
    run.count("responses_judged", 1);
    run.seen("validation_mode", if fast { "Fast" } else { "Strict" });
    for v in &shape.via {
        run.seen("reached_through", v);
    }
    for f in &case.gd.features {
        run.seen("features", f);
    }
    let contained = contained_of(&reference);
    let statics = fold_hints(shape.types.iter(), shape.fields.iter());
    let obs = Pol::of(resp.cache_control);
    run.seen("observed_policies", &obs.text());
    run.seen("contained_object_types", &reference.entered_nonempty.iter().cloned().collect::<Vec<_>>().join("+"));
    let hinted: BTreeSet<Pol> = reference
        .entered_nonempty
        .iter()
        .map(|t| type_hint(t))
        .chain(reference.touched.iter().map(|(t, f)| field_hint(t, f)))
        .filter(|p| *p != UNSET)
        .collect();
    if hinted.len() >= 2 {
        run.nontrivial(case.hash());
    }
    run.sample(json!({
        "document": case.printed.text, "operation_name": case.gd.op_name, "world_seed": case.world.seed,
        "contained_object_types": reference.entered_nonempty, "contained_policy": contained.text(),
        "observed_policy": obs.text(), "header": resp.cache_control.value(), "object_types_only": !shape.abstract_involved,
    }));
    run.count("header_checks", 1);
    if let Some(m) = header_problem(obs) {
        run.violation(&format!("C20-header:{}", obs.text()), &m, json!({"part": "header", "policy": obs.json(), "rendered": obs.cc().value()}));
    }
    // 1. never looser than what the response contains
    run.count("soundness_checks", 1);
    if shape.abstract_involved {
        run.count("soundness_checks_through_abstract_types", 1);
    }
    if obs.age < -1 || !not_looser(obs, contained) {
        run.violation(
            &format!("C20-looser:{:x}", case.hash()),
            &format!(
                "response policy ({}) is looser than the data it contains ({}; object types {:?}) | doc: {}",
                obs.text(),
                contained.text(),
                reference.entered_nonempty,
                case.printed.text
            ),
            replay_of(case, fast, &reference, &shape, obs, contained, statics),
        );
    } else if !shape.abstract_involved {
        // 2. exact for selections made only on object types. Demanded when the policy of everything
        // selected (directives ignored) equals the policy of everything contained, i.e. whenever
        // the static and the run-time reading of "contains" agree.
        run.count("object_only_documents", 1);
        if statics == contained {
            run.count("exact_checks", 1);
            if obs != contained {
                run.violation(
                    &format!("C20-not-exact:{:x}", case.hash()),
                    &format!(
                        "selection on object types only: response policy ({}) differs from the combination of the contained hints ({}) | doc: {}",
                        obs.text(),
                        contained.text(),
                        case.printed.text
                    ),
                    replay_of(case, fast, &reference, &shape, obs, contained, statics),
                );
            }
        } else {
            run.count("object_only_static_selection_wider_than_contained", 1);
        }
    }
    Some(Judged { obs })
}

fn documents(run: &Run) {
    let cases = run.scale(60_000, 2_500_000);
    let shards = n_shards(run);
    let ts = s1::model();
    let schemas = Schemas::new();
    let direct_abstract = run.feature("selection_on_abstract_type");
    let spread_abstract = run.feature("named_fragment_under_abstract_type");
    let other_op = run.feature("unexecuted_operation_with_hints");
    std::thread::scope(|sc| {
        for shard in 0..shards {
            let ts = ts.clone();
            let schemas = schemas.clone();
            sc.spawn(move || {
                let mut r = shard_rng(run, 20, shard);
                let mut prev: Option<(Case, bool, Pol)> = None;
                let mut i = shard;
                while i < cases {
                    i += shards;
                    let focused = r.chance(3, 5);
                    let mut gd = None;
                    if !focused {
                        for _ in 0..30 {
                            let mut o = doc_opts(run);
                            o.kind = OpKind::Query;
                            let g = gen_doc(&ts, &mut r, &o);
                            let Some(op) = g.doc.op(g.op_name.as_deref()) else { continue };
                            let sh = shape_of(&ts, &g.doc, op);
                            if (sh.direct_on_abstract && !direct_abstract) || (sh.spread_under_abstract && !spread_abstract) {
                                run.count("generated_documents_discarded_for_excluded_features", 1);
                                continue;
                            }
                            gd = Some(g);
                            break;
                        }
                    }
                    let from = if gd.is_some() { "gen_doc" } else { "focused" };
                    let gd = gd.unwrap_or_else(|| gen_focused(&ts, &mut r, direct_abstract, spread_abstract, other_op));
                    run.count(&format!("documents_{from}"), 1);
                    let mut world = World::new(r.next_u64());
                    world.null_pct = *r.pick(&[0, 15, 15, 40]);
                    let case = Case::new(ts.clone(), gd, world, r.bool());
                    let fast = r.chance(1, 3);
                    let Some(j) = one(run, &schemas, &case, fast) else {
                        prev = None;
                        continue;
                    };
                    // the policy of a batch is the combination of its members' policies
                    if let Some((pc, pfast, pobs)) = prev.take() {
                        if pfast == fast && r.chance(1, 4) {
                            let e1 = Env::new(pc.ts.clone(), pc.world.clone());
                            let e2 = Env::new(case.ts.clone(), case.world.clone());
                            let batch = BatchRequest::Batch(vec![pc.request(&e1), case.request(&e2)]);
                            if let Ok(br) = catch(|| vh_core::vsched::block_on(schemas.get(fast).execute_batch(batch))) {
                                run.count("batches_executed", 1);
                                let got = Pol::of(br.cache_control());
                                let want = combine(pobs, j.obs);
                                if br.is_ok() && got != want {
                                    run.violation(
                                        &format!("C20-batch:{:x}", rng::mix(&[pc.hash(), case.hash()])),
                                        &format!(
                                            "batch policy ({}) is not the combination ({}) of its members' policies ({}) and ({})",
                                            got.text(),
                                            want.text(),
                                            pobs.text(),
                                            j.obs.text()
                                        ),
                                        json!({"part": "batch", "members": [pc.replay_json("static"), case.replay_json("static")],
                                               "member_policies": [pobs.json(), j.obs.json()], "observed": got.json(), "expected": want.json()}),
                                    );
                                }
                            }
                        }
                    }
                    prev = Some((case, fast, j.obs));
                }
            });
        }
    });
}

// ---------------------------------------------------------------- pinned witnesses

fn wfield(doc: &mut Doc, name: &str, args: Vec<(&str, Val)>, sel: Vec<Sel>) -> Sel {
    let id = doc.fresh_id();
    Sel::Field(FieldSel { id, alias: None, name: name.into(), args: args.into_iter().map(|(k, v)| (k.to_string(), v)).collect(), dirs: vec![], sel })
}

fn wcase(doc: Doc, op_name: Option<&str>, seed: u64) -> Case {
    let gd = GenDoc { doc, op_name: op_name.map(|s| s.to_string()), vars: json!({}), features: Default::default() };
    let mut w = World::new(seed);
    w.null_pct = 0;
    Case::new(s1::model(), gd, w, false)
}

/// First world (seed 1, 2, …) in which the reference run has no errors and satisfies `want`.
fn find_world(doc: &Doc, op_name: Option<&str>, want: impl Fn(&RefResult) -> bool) -> Option<(Case, RefResult)> {
    for seed in 1..2000u64 {
        let c = wcase(doc.clone(), op_name, seed);
        let r = c.reference();
        if r.request_error.is_none() && r.errors.is_empty() && want(&r) {
            return Some((c, r));
        }
    }
    None
}

struct Wit {
    finding: &'static str,
    doc: Doc,
    op_name: Option<&'static str>,
    want: fn(&RefResult) -> bool,
    /// object-only witness: the policy must equal the contained combination
    exact: bool,
}

fn witness_docs() -> Vec<Wit> {
    let mut out = vec![];
    // { named { name } } yielding a Dog
    let mut d = Doc::default();
    let n = wfield(&mut d, "name", vec![], vec![]);
    let f = wfield(&mut d, "named", vec![], vec![n]);
    d.ops = vec![Op { kind: OpKind::Query, name: None, vars: vec![], dirs: vec![], sel: vec![f] }];
    out.push(Wit { finding: "C20-selection-on-abstract-type-ignores-object-policy", doc: d, op_name: None, want: |r| r.entered_nonempty.contains("Dog"), exact: false });
    // { pet { ... on Named { name } } } yielding a Dog
    let mut d = Doc::default();
    let n = wfield(&mut d, "name", vec![], vec![]);
    let id = d.fresh_id();
    let inl = Sel::Inline { id, cond: Some("Named".into()), dirs: vec![], sel: vec![n] };
    let f = wfield(&mut d, "pet", vec![], vec![inl]);
    d.ops = vec![Op { kind: OpKind::Query, name: None, vars: vec![], dirs: vec![], sel: vec![f] }];
    out.push(Wit { finding: "C20-selection-on-abstract-type-ignores-object-policy", doc: d, op_name: None, want: |r| r.entered_nonempty.contains("Dog"), exact: false });
    // { node(id: "a") { id } } yielding a Cat: Cat.id carries max-age 2
    let mut d = Doc::default();
    let n = wfield(&mut d, "id", vec![], vec![]);
    let f = wfield(&mut d, "node", vec![("id", Val::Str("a".into()))], vec![n]);
    d.ops = vec![Op { kind: OpKind::Query, name: None, vars: vec![], dirs: vec![], sel: vec![f] }];
    out.push(Wit { finding: "C20-interface-field-ignores-object-field-policy", doc: d, op_name: None, want: |r| r.entered_nonempty.contains("Cat"), exact: false });
    // { pet { ...F } } fragment F on Dog { owner { name } } yielding a Dog with an owner
    let mut d = Doc::default();
    let n = wfield(&mut d, "name", vec![], vec![]);
    let o = wfield(&mut d, "owner", vec![], vec![n]);
    let id = d.fresh_id();
    let sp = Sel::Spread { id, name: "F".into(), dirs: vec![] };
    let f = wfield(&mut d, "pet", vec![], vec![sp]);
    d.frags = vec![Frag { name: "F".into(), cond: "Dog".into(), sel: vec![o] }];
    d.ops = vec![Op { kind: OpKind::Query, name: None, vars: vec![], dirs: vec![], sel: vec![f] }];
    out.push(Wit {
        finding: "C20-named-fragment-under-abstract-type-loses-types",
        doc: d,
        op_name: None,
        want: |r| r.entered_nonempty.contains("Dog") && r.entered_nonempty.contains("Person"),
        exact: false,
    });
    // query Main { echoOpt } query Other { people { name } }, executing Main
    let mut d = Doc::default();
    let e = wfield(&mut d, "echoOpt", vec![], vec![]);
    let n = wfield(&mut d, "name", vec![], vec![]);
    let p = wfield(&mut d, "people", vec![], vec![n]);
    d.ops = vec![
        Op { kind: OpKind::Query, name: Some("Main".into()), vars: vec![], dirs: vec![], sel: vec![e] },
        Op { kind: OpKind::Query, name: Some("Other".into()), vars: vec![], dirs: vec![], sel: vec![p] },
    ];
    out.push(Wit { finding: "C20-unexecuted-operation-counts", doc: d, op_name: Some("Main"), want: |_| true, exact: true });
    out
}

fn witnesses(run: &Run) {
    let schemas = Schemas::new();
    let mut by_finding: Vec<(&'static str, Vec<String>, bool)> = vec![];
    for w in witness_docs() {
        let Some((case, reference)) = find_world(&w.doc, w.op_name, w.want) else {
            run.inconclusive(&format!("witness {}: no world yields the wanted data", w.finding));
            continue;
        };
        let env = Env::new(case.ts.clone(), case.world.clone());
        let resp = match catch(|| vh_core::vsched::block_on(schemas.strict.execute(case.request(&env)))) {
            Ok(r) => r,
            Err(p) => {
                run.violation(&format!("{}|panic", w.finding), &format!("pinned witness panicked: {p}"), case.replay_json("static"));
                continue;
            }
        };
        run.eval();
        run.count("witness_executions", 1);
        let o = observe(&resp);
        if !resp.errors.is_empty() || !json_eq(&o.data, &reference.data) {
            run.inconclusive(&format!("witness {}: response differs from the reference data", w.finding));
            continue;
        }
        let contained = contained_of(&reference);
        let obs = Pol::of(resp.cache_control);
        let types: Vec<String> = reference.entered_nonempty.iter().filter(|t| *t != "Query").cloned().collect();
        let good = not_looser(obs, contained) && (!w.exact || obs == contained);
        let text = format!(
            "[{}{} -> {}] {}",
            case.printed.text,
            w.op_name.map(|n| format!(" (operation {n})")).unwrap_or_default(),
            if types.is_empty() { "no object below Query".to_string() } else { types.join("+") },
            obs.text()
        );
        match by_finding.iter_mut().find(|(f, _, _)| *f == w.finding) {
            Some(e) => {
                e.1.push(text);
                e.2 &= good;
            }
            None => by_finding.push((w.finding, vec![text], good)),
        }
    }
    for (finding, obs, good) in by_finding {
        if good {
            run.count("witnesses_now_correct", 1);
            run.note(&format!("pinned witness {finding} now yields a sound policy: {}", obs.join(" | ")));
        } else {
            run.violation(
                &format!("{finding}|{}", obs.join(" | ")),
                &format!("pinned witness: {}", obs.join(" | ")),
                json!({"part": "witness", "witness": finding, "observed": obs}),
            );
        }
    }
}

// ---------------------------------------------------------------- replay

fn replay(run: &Run, path: &Path) {
    let Ok(text) = std::fs::read_to_string(path) else {
        run.inconclusive(&format!("cannot read replay file {}", path.display()));
        return;
    };
    let Ok(v) = serde_json::from_str::<J>(&text) else {
        run.inconclusive("replay file is not JSON");
        return;
    };
    let case = &v["case"];
    match case["part"].as_str() {
        Some("law") | Some("header") | Some("witness") | Some("batch") => {
            // deterministic, input-free parts: run them again
            laws(run);
            witnesses(run);
        }
        _ => {
            let doc = case["document"].as_str().unwrap_or_default().to_string();
            let fast = case["validation_mode"].as_str() == Some("Fast");
            let mut world = World::new(case["world_seed"].as_u64().unwrap_or(0));
            world.null_pct = case["null_pct"].as_u64().unwrap_or(15) as u32;
            let (Some(contained), Some(statics)) = (Pol::from_json(&case["contained_policy"]), Pol::from_json(&case["static_selection_policy"])) else {
                run.inconclusive("replay file lacks the contained / static policies");
                return;
            };
            let env = Env::new(s1::model(), world);
            let mut req = Request::new(doc.clone()).variables(Variables::from_json(case["variables"].clone())).data(env.clone());
            if let Some(n) = case["operation_name"].as_str() {
                req = req.operation_name(n);
            }
            let schemas = Schemas::new();
            let resp = vh_core::vsched::block_on(schemas.get(fast).execute(req));
            run.eval();
            let o = observe(&resp);
            if !resp.errors.is_empty() || !json_eq(&o.data, &case["expected_data"]) {
                run.inconclusive("replayed response differs from the recorded reference data");
                return;
            }
            let obs = Pol::of(resp.cache_control);
            println!("REPLAY observed ({}) contained ({}) document {doc}", obs.text(), contained.text());
            let object_only = case["object_types_only"].as_bool().unwrap_or(false);
            if obs.age < -1 || !not_looser(obs, contained) {
                run.violation(&format!("C20-looser:replay:{:x}", rng::hash_str(&doc)), &format!("response policy ({}) is looser than the data it contains ({})", obs.text(), contained.text()), case.clone());
            } else if object_only && statics == contained && obs != contained {
                run.violation(&format!("C20-not-exact:replay:{:x}", rng::hash_str(&doc)), &format!("response policy ({}) differs from the combination of the contained hints ({})", obs.text(), contained.text()), case.clone());
            }
        }
    }
}

// ---------------------------------------------------------------- entry

pub fn main() {
    let mut run = Run::from_args(
        "exploration",
        "S1 (Dog private max-age 5, Cat max-age 50, Person no-cache, Query max-age 100; field hints Query.dogs 10, Dog.owner 30, \
         Cat.id 2) queried by generated valid documents that reach Dog/Cat/Person through object fields, interface fields and \
         union fields, with and without type-conditioned inline/named fragments, directives, aliases, unexecuted extra \
         operations; data worlds with 0/15/40 % nulls; Strict and Fast validation. The reference executor R1 gives the object \
         types entered and the (object, field) resolvers run = what the response contains. Non-trivial = the response contains at \
         least two different non-default hints; distinct by hash of (document, variables, world). Plus every pair / triple / \
         permutation over the grid public∈{true,false} × max_age∈{-1,0,1,5,60,i32::MAX} through BatchResponse::cache_control",
    );
    run.assume("reference executor R1 (harness/model) implements GraphQL spec Oct-2021 §6; a case is judged only when the real response has no errors and its data equals R1's");
    run.assume("the hint table in c20.rs states what the Rust source of S1 (harness/schema/src/s1.rs) declares");
    run.assume("'never less restrictive' is read through the combination order: policy ⊑ hint iff combine(policy, hint) = policy (so an unset max-age is looser than any set one)");
    run.assume("an object counts as contained when at least one response key (a field or __typename) is produced for it; an object completed as {} because no fragment applied is not counted");
    run.assume("exactness for object-only selections is demanded when the hints of everything selected (directives ignored) combine to the same policy as the hints of what R1 says was resolved; when a selected object turns out null/empty or is pruned by @skip/@include the two readings of 'contains' differ and only 'never looser' is judged");
    if let Some(p) = run.replay.clone() {
        replay(&run, &p);
        run.finish_code_exit();
    }
    run.set_floors(run.scale(2_000, 100_000), run.scale(500, 20_000));
    for c in ["responses_judged", "soundness_checks", "soundness_checks_through_abstract_types", "exact_checks", "law_checks", "header_checks", "derive_form_requests", "resolver_events", "witness_executions"] {
        run.require_counter(c);
    }
    laws(&run);
    witnesses(&run);
    derive_forms(&run);
    documents(&run);
    run.extra("schema", json!("S1 (harness/schema/src/s1.rs), Strict and Fast validation modes"));
    run.extra("document_part", json!({"exhaustive": false, "sampled": true}));
    run.finish_code_exit();
}
