//! C09 — strict validation rejects exactly the documents the GraphQL
//! specification calls invalid.
//!
//! Monitor. Every request runs through the real schema (static S1 or a
//! generated dynamic schema, default `ValidationMode::Strict`) that carries one
//! pass-through extension recording whether the `validation` hook returned Ok
//! and whether the `execute` hook was reached; every harness resolver logs a
//! Start event into the request's event log. A request counts as *accepted*
//! when `execute` was reached, a resolver started or a subscription stream was
//! opened; otherwise as *rejected*.
//!
//! (a) a document that is valid by construction (G2), and a validity-preserving
//!     variant of it (`valid_variants` in `c09/ops.rs`: the same response key for
//!     different fields under two different object types, a single value for a
//!     list, a twin operation, an undeclared request variable) must be accepted;
//! (b) a G4 mutant (one rule-targeted invalidating edit, see `c09/ops.rs`)
//!     must be rejected;
//! (c) every rejection carries at least one error with a source location;
//! (d) an accepted valid document reports no error that lacks a resolver
//!     cause (no Start event at its path and none predicted by R1); a third of
//!     the valid documents runs with one failing resolver so that errors WITH a
//!     resolver cause are seen as well.
//!
//! Defects of the unchanged tree are listed per operator (feature `op_<name>`)
//! with pinned witnesses (`WITNESSES`), see notes/findings-C09.json.

pub(crate) mod ops;

use std::cell::Cell;
use std::collections::BTreeMap;
use std::sync::Arc;
use std::sync::atomic::{AtomicU64, Ordering};

use async_graphql::extensions::*;
use async_graphql::{Request, Response, ServerError, ValidationResult, Variables};
use futures_util::StreamExt;
use serde_json::{Value as J, json};
use vh_core::{Rng, Run, catch, rng};
use vh_model::doc::{OpKind, print};
use vh_model::gen_doc::{GenDoc, gen_doc};
use vh_model::gen_ts::{TsOpts, gen_type_system};
use vh_model::world::Fault;
use vh_model::TypeSystem;
use vh_schema::compare::observe;
use vh_schema::{Ek, Env, dynb, s1};

use crate::common::*;
use ops::{Cx, OpDef, collect, operators, valid_variants};

// ------------------------------------------------------------------ probe extension

thread_local! {
    /// (validation hook result: 0 not reached, 1 Ok, 2 Err; execute hook reached)
    static PROBE: Cell<(u8, bool)> = const { Cell::new((0, false)) };
}

struct Probe;
struct ProbeExt;

impl ExtensionFactory for Probe {
    fn create(&self) -> Arc<dyn Extension> {
        Arc::new(ProbeExt)
    }
}

#[async_graphql::async_trait::async_trait]
impl Extension for ProbeExt {
    async fn validation(&self, ctx: &ExtensionContext<'_>, next: NextValidation<'_>) -> Result<ValidationResult, Vec<ServerError>> {
        let r = next.run(ctx).await;
        PROBE.with(|p| p.set((if r.is_ok() { 1 } else { 2 }, p.get().1)));
        r
    }
    async fn execute(&self, ctx: &ExtensionContext<'_>, operation_name: Option<&str>, next: NextExecute<'_>) -> Response {
        PROBE.with(|p| p.set((p.get().0, true)));
        next.run(ctx, operation_name).await
    }
}

fn static_schema() -> AnySchema {
    AnySchema::S1(s1::builder().extension(Probe).finish())
}

fn dynamic_schema(ts: &TypeSystem) -> Result<AnySchema, String> {
    match catch(|| dynb::builder(ts).extension(Probe).finish()) {
        Ok(Ok(s)) => Ok(AnySchema::Dyn(s)),
        Ok(Err(e)) => Err(e.to_string()),
        Err(p) => Err(format!("panic: {p}")),
    }
}

// ------------------------------------------------------------------ one execution

#[derive(Clone, Debug)]
struct Obs {
    /// 0 validation hook not reached (parse error or earlier), 1 Ok, 2 Err
    validation: u8,
    executed: bool,
    starts: Vec<String>,
    streams: usize,
    /// (message, has a location, path)
    errors: Vec<(String, bool, Option<String>)>,
    subscription: bool,
    raw: J,
}

impl Obs {
    /// A subscription request never reaches the execute hook; it counts as accepted when a stream was
    /// opened, or when validation passed and nothing at all was reported (its root field was skipped).
    fn accepted(&self) -> bool {
        self.executed || !self.starts.is_empty() || self.streams > 0 || (self.subscription && self.validation == 1 && self.errors.is_empty())
    }
    fn brief(&self) -> String {
        format!(
            "validation hook {}; execute hook {}; resolvers started {:?}; streams opened {}; {} error(s){}",
            ["not reached", "Ok", "Err"][self.validation as usize],
            if self.executed { "reached" } else { "not reached" },
            self.starts.iter().take(6).collect::<Vec<_>>(),
            self.streams,
            self.errors.len(),
            self.errors.first().map(|e| format!(" (first: {:?}, located: {})", e.0, e.1)).unwrap_or_default()
        )
    }
}

struct Exec<'a> {
    schema: &'a AnySchema,
    ts: &'a Arc<TypeSystem>,
    world_seed: u64,
    /// resolver faults (response path -> the resolver returns an error), used on valid documents only
    faults: Vec<(String, Fault)>,
}

fn request(text: &str, vars: &J, op_name: Option<&str>, env: &Env) -> Request {
    let mut req = Request::new(text.to_string()).variables(Variables::from_json(vars.clone())).data(env.clone());
    if let Some(n) = op_name {
        req = req.operation_name(n.to_string());
    }
    req
}

fn execute(x: &Exec<'_>, text: &str, vars: &J, op_name: Option<&str>, subscription: bool) -> Result<Obs, String> {
    let env = Env::new(x.ts.clone(), world_for(x.schema.flavour(), x.world_seed).with_faults(&x.faults));
    PROBE.with(|p| p.set((0, false)));
    let req = request(text, vars, op_name, &env);
    let responses: Vec<Response> = catch(|| match (subscription, x.schema) {
        (true, AnySchema::S1(s)) => vh_core::vsched::block_on(s.execute_stream(req).take(32).collect::<Vec<_>>()),
        (true, AnySchema::Dyn(s)) => vh_core::vsched::block_on(s.execute_stream(req).take(32).collect::<Vec<_>>()),
        (true, AnySchema::Gen(s)) => vh_core::vsched::block_on(s.execute_stream(req).take(32).collect::<Vec<_>>()),
        (false, s) => vec![s.execute(req)],
    })?;
    EXECUTED.fetch_add(1, Ordering::Relaxed);
    let (validation, executed) = PROBE.with(|p| p.get());
    let events = env.log.snapshot();
    let mut errors = vec![];
    let mut raws = vec![];
    for r in &responses {
        let o = observe(r);
        for e in &o.errors {
            errors.push((e.message.clone(), !e.locations.is_empty(), e.path.as_ref().map(|p| vh_model::exec::path_str(p))));
        }
        raws.push(o.raw);
    }
    Ok(Obs {
        validation,
        executed,
        starts: events.iter().filter(|e| e.kind == Ek::Start).map(|e| e.path.clone()).collect(),
        streams: events.iter().filter(|e| e.kind == Ek::Stream).count(),
        errors,
        subscription,
        raw: if raws.len() == 1 { raws.pop().unwrap() } else { J::Array(raws) },
    })
}

// ------------------------------------------------------------------ cases

struct Base {
    flavour: &'static str,
    ts_seed: u64,
    ts: Arc<TypeSystem>,
    gd: GenDoc,
    world_seed: u64,
    pretty: bool,
    /// Some(n): the valid document is executed with one failing resolver (the n-th call of R1, modulo)
    fault_pick: Option<u64>,
}

impl Base {
    fn subscription(&self) -> bool {
        main_op(&self.gd).map(|i| self.gd.doc.ops[i].kind == OpKind::Subscription).unwrap_or(false)
    }
    fn replay(&self, kind: &str, gd: &GenDoc, text: &str) -> J {
        json!({
            "kind": kind,
            "flavour": self.flavour,
            "ts_seed": self.ts_seed,
            "schema_sdl": self.ts.sdl(),
            "document": text,
            "operation_name": gd.op_name,
            "variables": gd.vars,
            "world_seed": self.world_seed,
            "subscription": self.subscription(),
        })
    }
}

/// Index of the operation the request selects.
pub(crate) fn main_op(gd: &GenDoc) -> Option<usize> {
    match &gd.op_name {
        Some(n) => gd.doc.ops.iter().position(|o| o.name.as_deref() == Some(n.as_str())),
        None if gd.doc.ops.len() == 1 => Some(0),
        None => None,
    }
}

/// requests executed so far / requests executed when the first problem was seen (0 = none yet)
static EXECUTED: AtomicU64 = AtomicU64::new(0);
static FIRST_PROBLEM_AT: AtomicU64 = AtomicU64::new(0);
static WATCHDOG: std::sync::atomic::AtomicBool = std::sync::atomic::AtomicBool::new(false);

fn problem_seen() {
    let _ = FIRST_PROBLEM_AT.compare_exchange(0, EXECUTED.load(Ordering::Relaxed).max(1), Ordering::Relaxed, Ordering::Relaxed);
}

struct Stats {
    tried: Vec<AtomicU64>,
    applied: Vec<AtomicU64>,
    rejected: Vec<AtomicU64>,
}

fn check_valid(run: &Run, x: &Exec<'_>, b: &Base) -> bool {
    let printed = print(&b.gd.doc, b.pretty);
    let sub = b.subscription();
    // a third of the valid documents runs with one failing resolver, so that the "(d)" monitor also sees
    // errors that DO have a resolver cause
    let mut faults: Vec<(String, Fault)> = vec![];
    if let (Some(pick), false) = (b.fault_pick, sub) {
        let r0 = Case::new(b.ts.clone(), b.gd.clone(), world_for(b.flavour, b.world_seed), b.pretty).reference();
        if r0.request_error.is_none() && !r0.calls.is_empty() {
            faults.push((r0.calls[(pick % r0.calls.len() as u64) as usize].path.clone(), Fault::Err));
            run.count("valid_documents_with_a_failing_resolver", 1);
        }
    }
    let xf = Exec { schema: x.schema, ts: x.ts, world_seed: x.world_seed, faults: faults.clone() };
    let x = &xf;
    let obs = match execute(x, &printed.text, &b.gd.vars, b.gd.op_name.as_deref(), sub) {
        Ok(o) => o,
        Err(p) => {
            run.violation(
                &format!("C09-panic:{:x}", rng::hash_str(&printed.text)),
                &format!("[{}] executing a valid document panicked: {p} | doc: {}", b.flavour, printed.text),
                b.replay("valid", &b.gd, &printed.text),
            );
            return false;
        }
    };
    run.eval();
    run.count("valid_documents", 1);
    if !obs.accepted() {
        problem_seen();
        let mut rj = b.replay("valid", &b.gd, &printed.text);
        rj["observed"] = obs.raw.clone();
        rj["faults"] = json!(faults.iter().map(|f| f.0.clone()).collect::<Vec<_>>());
        rj["features"] = json!(b.gd.features);
        run.violation(
            &format!("C09-valid-rejected:{:x}", rng::mix(&[rng::hash_str(&printed.text), rng::hash_str(&b.gd.vars.to_string())])),
            &format!(
                "[{}] (a) a document that is valid by construction was rejected: {} | doc: {} | vars: {}",
                b.flavour,
                obs.brief(),
                printed.text,
                b.gd.vars
            ),
            rj,
        );
        return false;
    }
    run.count("valid_accepted", 1);
    if obs.validation == 1 {
        run.count("validation_hook_ok", 1);
    }
    // (d): errors of an accepted valid document need a resolver cause
    if !sub {
        let case = Case::new(b.ts.clone(), b.gd.clone(), world_for(b.flavour, b.world_seed).with_faults(&faults), b.pretty);
        let reference = case.reference();
        if reference.request_error.is_some() {
            run.count("valid_documents_whose_reference_reports_a_request_error", 1);
            return true;
        }
        let predicted: Vec<String> = reference.errors.iter().map(|e| vh_model::exec::path_str(&e.path)).collect();
        let mut uncaused = vec![];
        for (msg, _, path) in &obs.errors {
            run.count("errors_on_accepted_valid_documents", 1);
            let caused = match path {
                None => false,
                Some(p) => {
                    let mut segs: Vec<&str> = p.split('.').collect();
                    while segs.last().map(|s| s.chars().all(|c| c.is_ascii_digit())).unwrap_or(false) {
                        segs.pop();
                    }
                    let fp = segs.join(".");
                    predicted.iter().any(|q| q == p || q == &fp) || obs.starts.iter().any(|s| s == p || s == &fp)
                }
            };
            if caused {
                run.count("errors_with_resolver_cause", 1);
            } else {
                uncaused.push(format!("{:?} at {:?}", msg, path));
            }
        }
        if !uncaused.is_empty() {
            problem_seen();
            let mut rj = b.replay("valid", &b.gd, &printed.text);
            rj["observed"] = obs.raw.clone();
            rj["faults"] = json!(faults.iter().map(|f| f.0.clone()).collect::<Vec<_>>());
            run.violation(
                &format!("C09-late-failure:{:x}", rng::mix(&[rng::hash_str(&printed.text), rng::hash_str(&b.gd.vars.to_string())])),
                &format!(
                    "[{}] (d) a document accepted by validation failed later without a resolver cause: {} | doc: {} | vars: {}",
                    b.flavour,
                    uncaused.join("; "),
                    printed.text,
                    b.gd.vars
                ),
                rj,
            );
        }
    }
    true
}

/// Judge one rejected-or-accepted observation of an invalid request. Returns the problem, if any.
fn judge_invalid(obs: &Obs) -> Option<(&'static str, String)> {
    if obs.accepted() {
        return Some(("accepted", format!("(b) the invalid request was executed: {}", obs.brief())));
    }
    if obs.errors.is_empty() {
        return Some(("silent", format!("the request was not executed but no error was reported: {}", obs.brief())));
    }
    if !obs.errors.iter().any(|e| e.1) {
        return Some(("noloc", format!("(c) the rejection carries no error with a source location: {}", obs.brief())));
    }
    None
}

fn check_mutant(run: &Run, x: &Exec<'_>, b: &Base, op: &OpDef, k: usize, m: &ops::Mutant, stats: &Stats, sample: bool) {
    let printed = print(&m.gd.doc, b.pretty);
    let sub = b.subscription();
    let h = rng::mix(&[rng::hash_str(op.name), rng::hash_str(&printed.text), rng::hash_str(&m.gd.vars.to_string())]);
    let obs = match execute(x, &printed.text, &m.gd.vars, m.gd.op_name.as_deref(), sub) {
        Ok(o) => o,
        Err(p) => {
            run.violation(
                &format!("C09-panic:{h:x}"),
                &format!("[{}] executing a mutant of operator {} panicked: {p} | doc: {}", b.flavour, op.name, printed.text),
                b.replay("mutant", &m.gd, &printed.text),
            );
            return;
        }
    };
    run.eval();
    run.nontrivial(h);
    run.count("mutants", 1);
    run.count(&format!("op_{}_applied", op.name), 1);
    stats.applied[k].fetch_add(1, Ordering::Relaxed);
    run.seen("rules_targeted", op.rule);
    run.seen(&format!("operators_applied_{}", b.flavour), op.name);
    if sample {
        run.sample(json!({
            "operator": op.name, "rule": op.rule, "edit": m.note, "flavour": b.flavour,
            "base_document": print(&b.gd.doc, false).text, "mutant_document": printed.text, "variables": m.gd.vars,
            "observed": obs.brief(),
        }));
    }
    let problem = judge_invalid(&obs);
    if !obs.accepted() {
        run.count("mutants_rejected", 1);
        run.count(&format!("op_{}_rejected", op.name), 1);
        stats.rejected[k].fetch_add(1, Ordering::Relaxed);
        run.count(
            match obs.validation {
                0 => "rejected_before_validation_hook",
                2 => "rejected_by_validation_hook",
                _ => "rejected_after_validation_hook",
            },
            1,
        );
        if problem.is_none() {
            run.count("rejections_with_location", 1);
        }
    }
    if let Some((tag, what)) = problem {
        problem_seen();
        let mut rj = b.replay("mutant", &m.gd, &printed.text);
        rj["operator"] = json!(op.name);
        rj["rule"] = json!(op.rule);
        rj["edit"] = json!(m.note);
        rj["base_document"] = json!(print(&b.gd.doc, false).text);
        rj["base_variables"] = b.gd.vars.clone();
        rj["observed"] = obs.raw.clone();
        rj["expected"] = json!("rejected before execution, at least one error with a location");
        run.violation(
            &format!("C09-{tag}:{}:{h:x}", op.name),
            &format!(
                "[{}] operator {} breaks {} ({}); {} | doc: {} | vars: {}",
                b.flavour, op.name, op.rule, m.note, what, printed.text, m.gd.vars
            ),
            rj,
        );
    }
}

// ------------------------------------------------------------------ pinned witnesses

struct Witness {
    /// finding id
    id: &'static str,
    doc: &'static str,
    vars: &'static str,
    subscription: bool,
}

/// Fixed invalid requests over S1, one per listed defect class. Signature:
/// `<finding id>|<document> <variables> -> <exact observation>`.
const WITNESSES: &[Witness] = &[
    Witness { id: "C09-variable-position-never-checked", doc: "query($v: ID) { echoInt(v: 1) echoOpt(v: $v) }", vars: r#"{"v": 3}"#, subscription: false },
    Witness { id: "C09-variable-position-never-checked", doc: "query($v: Int) { echoInt(v: $v) }", vars: r#"{"v": 3}"#, subscription: false },
    Witness { id: "C09-variable-position-never-checked", doc: "query($v: Int!) { echoList(v: [1]) echoListOpt(v: $v) }", vars: r#"{"v": 3}"#, subscription: false },
    Witness { id: "C09-conflicting-fields-behind-type-condition", doc: "{ a: echoInt(v: 1) ... on Query { a: echoOpt(v: 2) } }", vars: "{}", subscription: false },
    Witness { id: "C09-conflicting-fields-behind-type-condition", doc: "{ a: echoInt(v: 1) ...F } fragment F on Query { a: echoOpt(v: 2) }", vars: "{}", subscription: false },
    Witness { id: "C09-conflicting-fields-below-merged-parents", doc: "{ dog(i: 1) { x: name } dog(i: 1) { x: nick } }", vars: "{}", subscription: false },
    Witness { id: "C09-string-literal-accepted-for-enum", doc: "{ echoEnum(v: \"RED\") }", vars: "{}", subscription: false },
    Witness { id: "C09-non-object-literal-accepted-for-input-object", doc: "{ echoInt(v: 1) echoFilter(f: 7) }", vars: "{}", subscription: false },
    Witness { id: "C09-argument-with-unsupplied-variable-not-checked", doc: "query($n: String) { echoInt(v: 1) echoFilter(f: {name: $n, range: {max: \"x\"}}) }", vars: "{}", subscription: false },
    Witness { id: "C09-no-variable-coercion-step", doc: "query($v: Int!) { echoOpt(v: 1) echoInt(v: $v) }", vars: "{}", subscription: false },
    Witness { id: "C09-duplicate-input-field-accepted", doc: "{ echoFilter(f: {name: \"a\", name: \"b\"}) }", vars: "{}", subscription: false },
    Witness { id: "C09-typename-field-not-validated", doc: "{ echoInt(v: 1) __typename { __typename } }", vars: "{}", subscription: false },
    Witness { id: "C09-typename-field-not-validated", doc: "{ echoInt(v: 1) __typename(zzNoSuchArg: 1) }", vars: "{}", subscription: false },
    Witness { id: "C09-typename-field-not-validated", doc: "{ echoInt(v: 1) __typename @zzNoSuchDirective }", vars: "{}", subscription: false },
    Witness { id: "C09-subscription-with-several-root-fields", doc: "subscription { ticks(n: 1) { n } zzSecond: ticks(n: 1) { n } }", vars: "{}", subscription: true },
    Witness { id: "C09-subscription-with-several-root-fields", doc: "subscription { ticks(n: 1) { n } ...F } fragment F on Subscription { zzSecond: ticks(n: 1) { n } }", vars: "{}", subscription: true },
];

fn run_witnesses(run: &Run) {
    let schema = static_schema();
    let ts = s1::model();
    let x = Exec { schema: &schema, ts: &ts, world_seed: 7, faults: vec![] };
    let mut by_id: BTreeMap<&str, Vec<String>> = BTreeMap::new();
    let mut clean: BTreeMap<&str, bool> = BTreeMap::new();
    for w in WITNESSES {
        let vars: J = serde_json::from_str(w.vars).unwrap_or(json!({}));
        let obs = match execute(&x, w.doc, &vars, None, w.subscription) {
            Ok(o) => o,
            Err(p) => {
                run.violation(&format!("{}|{} panicked: {p}", w.id, w.doc), &format!("pinned witness panicked: {} : {p}", w.doc), json!({"witness": w.id, "document": w.doc}));
                continue;
            }
        };
        run.eval();
        run.count("witness_requests", 1);
        let verdict = match judge_invalid(&obs) {
            None => "rejected with a located error".to_string(),
            Some(("accepted", _)) => format!(
                "accepted: resolvers started {:?}, streams opened {}, {} error(s)",
                obs.starts,
                obs.streams.min(1),
                obs.errors.len()
            ),
            Some((tag, _)) => format!("{tag}: {} error(s) {:?}", obs.errors.len(), obs.errors.iter().map(|e| &e.0).collect::<Vec<_>>()),
        };
        *clean.entry(w.id).or_insert(true) &= judge_invalid(&obs).is_none();
        by_id.entry(w.id).or_default().push(format!("{} {} -> {}", w.doc, w.vars, verdict));
    }
    for (id, lines) in by_id {
        if clean[id] {
            run.count(&format!("witness_{id}_now_clean"), 1);
            run.note(&format!("pinned witness {id}: every request is now rejected with a located error"));
        } else {
            let observed = lines.join(" || ");
            run.violation(&format!("{id}|{observed}"), &format!("pinned witness {id}: {observed}"), json!({"witness": id, "observed": lines}));
        }
    }
}

// ------------------------------------------------------------------ replay

fn replay(run: &Run, path: &std::path::Path) {
    let Ok(text) = std::fs::read_to_string(path) else {
        run.inconclusive("replay file unreadable");
        return;
    };
    let Ok(v) = serde_json::from_str::<J>(&text) else {
        run.inconclusive("replay file is not JSON");
        return;
    };
    let c = &v["case"];
    if c.get("witness").is_some() {
        run_witnesses(run);
        return;
    }
    let flavour = c["flavour"].as_str().unwrap_or("static");
    let (ts, schema) = if flavour == "static" {
        (s1::model(), static_schema())
    } else {
        let ts = Arc::new(gen_type_system(&mut Rng::new(c["ts_seed"].as_u64().unwrap_or(0)), &TsOpts::default()));
        match dynamic_schema(&ts) {
            Ok(s) => (ts, s),
            Err(e) => {
                run.inconclusive(&format!("replay: dynamic schema does not build: {e}"));
                return;
            }
        }
    };
    if ts.sdl() != c["schema_sdl"].as_str().unwrap_or("") {
        run.inconclusive("replay: regenerated schema differs from the recorded one");
        return;
    }
    let faults: Vec<(String, Fault)> =
        c["faults"].as_array().map(|a| a.iter().filter_map(|p| p.as_str().map(|p| (p.to_string(), Fault::Err))).collect()).unwrap_or_default();
    let x = Exec { schema: &schema, ts: &ts, world_seed: c["world_seed"].as_u64().unwrap_or(0), faults };
    let doc = c["document"].as_str().unwrap_or("");
    let obs = match execute(&x, doc, &c["variables"], c["operation_name"].as_str(), c["subscription"].as_bool().unwrap_or(false)) {
        Ok(o) => o,
        Err(p) => {
            run.violation("C09-replay-panic", &format!("replayed request panicked: {p}"), c.clone());
            return;
        }
    };
    run.eval();
    println!("REPLAY kind={} flavour={flavour} document={doc}", c["kind"].as_str().unwrap_or("?"));
    println!("REPLAY observed: {}", obs.brief());
    println!("REPLAY response: {}", obs.raw);
    let problem = if c["kind"] == "valid" {
        if obs.accepted() { None } else { Some("a valid document was rejected".to_string()) }
    } else {
        judge_invalid(&obs).map(|p| p.1)
    };
    match problem {
        Some(p) => run.violation(v["signature"].as_str().unwrap_or("C09-replay"), &format!("replay reproduces: {p}"), c.clone()),
        None => println!("REPLAY verdict: behaves as the property demands"),
    }
}

// ------------------------------------------------------------------ main

pub fn main() {
    let mut run = Run::from_args(
        "exploration",
        "(an evaluation is one request executed by the real schema in Strict mode) valid-by-construction documents (G2: aliases, repeated keys, \
         inline/named fragments on overlapping object/interface/union conditions, @skip/@include with literals and variables, variables with \
         defaults, omitted, null and nested in lists and input objects; queries, mutations, S1 subscriptions) over the static schema S1 and over \
         generated dynamic schemas, and for each of them single-edit mutants from the rule-targeted operators of c09/ops.rs (one operator = one \
         guarded structural edit of the harness AST that certainly violates one named rule of spec Oct-2021 §5 or §6.1.2). Operators are chosen \
         least-applied-first so every operator is exercised. Half of the bases also run one validity-preserving variant; a third runs with \
         one failing resolver. Non-trivial = a mutant; distinct by hash of (operator, printed mutant, variables)",
    );
    run.assume("documents from harness/model gen_doc are valid (response-key table argument in gen_doc.rs; the same generator feeds C01/C02, whose reference executor would disagree otherwise)");
    run.assume("each operator's guard makes the mutant certainly invalid; the argument is the comment on the operator in harness/exec/src/c09/ops.rs");
    run.assume("accepted = the execute hook of a pass-through extension was reached, or a harness resolver logged Start, or a subscription stream was opened; nothing else in the harness schemas can run user code");
    run.assume("not asserted: WHICH rule reports the rejection, the number of errors, messages; documents the spec calls invalid only through SameResponseShape on never-overlapping object types are not generated; oneOf rules (not in the Oct-2021 edition) and Upload placement (documented restriction) are not generated");
    if let Some(p) = run.replay.clone() {
        replay(&run, &p);
        run.finish();
    }
    let all = operators();
    let enabled: Vec<bool> = all.iter().map(|o| run.feature(&format!("op_{}", o.name))).collect();
    let bases = run.scale(40_000, 1_500_000);
    let deadline_s = run.scale(300, 3_000) as f64;
    let per_base = 2usize;
    run.set_floors(run.scale(50_000, 1_500_000), run.scale(25_000, 700_000));
    for c in ["valid_accepted", "mutants_rejected", "rejections_with_location", "validation_hook_ok", "rejected_by_validation_hook", "rejected_before_validation_hook", "errors_with_resolver_cause"] {
        run.require_counter(c);
    }
    let stats = Stats {
        tried: all.iter().map(|_| AtomicU64::new(0)).collect(),
        applied: all.iter().map(|_| AtomicU64::new(0)).collect(),
        rejected: all.iter().map(|_| AtomicU64::new(0)).collect(),
    };
    let shards = n_shards(&run);
    let run = &run;
    let all = &all;
    let enabled = &enabled;
    let stats = &stats;
    run_witnesses(run);
    std::thread::scope(|sc| {
        for shard in 0..shards {
            sc.spawn(move || {
                let mut r = shard_rng(run, 9, shard);
                let s1ts = s1::model();
                let s1schema = static_schema();
                let mut dynamic: Option<(u64, Arc<TypeSystem>, AnySchema)> = None;
                let mut local_applied = vec![0u64; all.len()];
                let variants = valid_variants();
                let mut local_variants = vec![0u64; variants.len()];
                let mut sampled = 0usize;
                let mut i = shard;
                let mut n_case = 0u64;
                while i < bases {
                    if n_case % 64 == 0 && run.elapsed_s() > deadline_s {
                        if !WATCHDOG.swap(true, Ordering::Relaxed) {
                            run.inconclusive(&format!("watchdog: workload not finished after {deadline_s} s"));
                        }
                        break;
                    }
                    i += shards;
                    n_case += 1;
                    let use_static = r.bool();
                    if !use_static && (dynamic.is_none() || r.chance(1, 12)) {
                        let ts_seed = r.next_u64();
                        let ts = Arc::new(gen_type_system(&mut Rng::new(ts_seed), &ts_opts(run)));
                        match dynamic_schema(&ts) {
                            Ok(s) => {
                                run.count("dynamic_schemas_built", 1);
                                dynamic = Some((ts_seed, ts, s));
                            }
                            Err(_) => run.count("dynamic_schema_build_failed", 1),
                        }
                    }
                    let (flavour, ts_seed, ts, schema) = match (use_static, &dynamic) {
                        (false, Some((seed, ts, s))) => ("dynamic", *seed, ts.clone(), s.clone()),
                        _ => ("static", 0, s1ts.clone(), s1schema.clone()),
                    };
                    let mut o = doc_opts(run);
                    o.max_depth = 3;
                    o.kind = if flavour == "static" && r.chance(1, 10) {
                        OpKind::Subscription
                    } else if ts.mutation.is_some() && r.chance(1, 8) {
                        OpKind::Mutation
                    } else {
                        OpKind::Query
                    };
                    let gd = gen_doc(&ts, &mut r, &o);
                    let fault_pick = if r.chance(1, 3) { Some(r.next_u64()) } else { None };
                    let b = Base { flavour, ts_seed, ts: ts.clone(), gd, world_seed: r.next_u64(), pretty: r.bool(), fault_pick };
                    let x = Exec { schema: &schema, ts: &ts, world_seed: b.world_seed, faults: vec![] };
                    for f in &b.gd.features {
                        run.seen("base_features", f);
                    }
                    if !check_valid(run, &x, &b) {
                        continue;
                    }
                    let Some(mo) = main_op(&b.gd) else { continue };
                    let sub = b.subscription();
                    let sites = collect(&ts, &b.gd.doc);
                    // a validity-preserving variant of the base must be accepted too
                    if !sub && r.chance(1, 2) {
                        let mut order: Vec<usize> = (0..variants.len()).collect();
                        order.rotate_left((n_case as usize) % variants.len());
                        order.sort_by_key(|&k| local_variants[k]);
                        for k in order {
                            let cx = Cx { ts: &ts, gd: &b.gd, sites: &sites, main_op: mo, salt: r.next_u64() };
                            let Some(m) = (variants[k].f)(&cx, &mut r) else { continue };
                            local_variants[k] += 1;
                            let vb = Base { flavour, ts_seed, ts: ts.clone(), gd: m.gd, world_seed: b.world_seed, pretty: b.pretty, fault_pick: None };
                            run.count(&format!("{}_applied", variants[k].name), 1);
                            run.seen("valid_variants_applied", variants[k].name);
                            if check_valid(run, &x, &vb) {
                                run.count(&format!("{}_accepted", variants[k].name), 1);
                            }
                            break;
                        }
                    }
                    // least-applied-first, ties broken by a rotating offset
                    let mut order: Vec<usize> = (0..all.len()).filter(|&k| enabled[k] && all[k].subscription == sub).collect();
                    let rot = (n_case as usize) % order.len().max(1);
                    order.rotate_left(rot);
                    order.sort_by_key(|&k| local_applied[k]);
                    let mut made = 0;
                    for k in order {
                        if made >= per_base {
                            break;
                        }
                        let cx = Cx { ts: &ts, gd: &b.gd, sites: &sites, main_op: mo, salt: r.next_u64() };
                        stats.tried[k].fetch_add(1, Ordering::Relaxed);
                        let Some(m) = (all[k].f)(&cx, &mut r) else { continue };
                        made += 1;
                        local_applied[k] += 1;
                        let sample = shard == 0 && sampled < 5 && local_applied[k] == 1 && n_case > 3 * (sampled as u64);
                        if sample {
                            sampled += 1;
                        }
                        check_mutant(run, &x, &b, &all[k], k, &m, stats, sample);
                    }
                }
            });
        }
    });
    // per-operator table and floors
    let floor = run.scale(150, 2_000);
    let mut table = serde_json::Map::new();
    let mut never = vec![];
    for (k, o) in all.iter().enumerate() {
        let (t, a, rj) = (stats.tried[k].load(Ordering::Relaxed), stats.applied[k].load(Ordering::Relaxed), stats.rejected[k].load(Ordering::Relaxed));
        table.insert(o.name.to_string(), json!({"rule": o.rule, "enabled": enabled[k], "tried": t, "applied": a, "rejected": rj}));
        if enabled[k] {
            if a == 0 {
                never.push(o.name);
            }
            if a < floor {
                run.inconclusive(&format!("operator {} was applied {a} time(s) in {t} attempt(s) (floor {floor})", o.name));
            }
        }
    }
    run.extra("operators", J::Object(table));
    run.extra("operators_enabled_but_never_applicable", json!(never));
    run.extra("operator_floor", json!(floor));
    run.extra("requests_executed", json!(EXECUTED.load(Ordering::Relaxed)));
    let first = FIRST_PROBLEM_AT.load(Ordering::Relaxed);
    if first > 0 {
        run.extra("first_problem_after_requests", json!(first));
        println!("NOTE: first problem of the generated workload after {first} executed request(s)");
    }
    run.extra("operators_total", json!(all.len()));
    run.extra("operators_enabled", json!(enabled.iter().filter(|e| **e).count()));
    run.finish_code_exit();
}
