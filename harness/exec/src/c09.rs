//! C09 — stub (being built).
pub fn main() {
    println!("INCONCLUSIVE property=C09 reason=check not built yet");
    std::process::exit(2);
}
