//! C05 — responses do not depend on the order in which concurrent resolvers complete.
//! Metamorphic monitor: every completion order of the same (document, world,
//! faults) must give the same data and the same multiset of errors.

use std::sync::Arc;

use serde_json::{Value as J, json};
use vh_core::vsched::{Chooser, Dfs, LifoChooser, RandomChooser};
use vh_core::{Rng, Run, catch, rng};
use vh_model::doc::OpKind;
use vh_model::gen_doc::gen_doc;
use vh_model::gen_ts::gen_type_system;
use vh_model::world::Fault;
use vh_schema::compare::observe;
use vh_schema::{dynb, s1};

use crate::common::*;

fn canonical(resp: &async_graphql::Response) -> (J, Vec<String>) {
    let o = observe(resp);
    let mut errs: Vec<String> = o
        .errors
        .iter()
        .map(|e| format!("{:?}|{:?}|{}", e.path.as_ref().map(|p| vh_model::exec::path_str(p)), e.locations, e.message))
        .collect();
    errs.sort();
    (o.data, errs)
}

pub fn main() {
    let mut run = Run::from_args(
        "exploration",
        "generated queries (static S1 and generated dynamic schemas) with 0-2 injected resolver failures at nullable and \
         non-null positions; every resolver awaits a vsched gate; ALL completion orders are enumerated by DFS when the \
         schedule space is small (cap 300 quick / 2000 thorough schedules per case, exhaustive flag per case), plus LIFO \
         and seeded random orders; all runs of a case must agree on data and on the multiset of (path, locations, \
         message) errors. Non-trivial = case with >= 2 distinct schedules and at least one branch point; distinct by \
         (case hash, schedule)",
    );
    run.assume("resolvers are deterministic functions of (parent, field, arguments): the data world guarantees it");
    let cases = run.scale(300, 12_000);
    let cap = run.scale(300, 2000) as usize;
    run.set_floors(2000, 300);
    run.require_counter("cases_with_faults");
    run.require_counter("cases_fully_enumerated");
    let shards = n_shards(&run);
    let run = &run;
    std::thread::scope(|sc| {
        for shard in 0..shards {
            sc.spawn(move || {
                let mut r = shard_rng(run, 5, shard);
                let s1ts = s1::model();
                let s1schema = AnySchema::S1(s1::schema());
                let mut i = shard;
                while i < cases {
                    i += shards;
                    let (ts, schema) = if r.chance(2, 3) {
                        (s1ts.clone(), s1schema.clone())
                    } else {
                        let mut to = ts_opts(run);
                        to.max_objects = 3;
                        let ts = Arc::new(gen_type_system(&mut r, &to));
                        match catch(|| dynb::build(&ts)) {
                            Ok(Ok(s)) => (ts, AnySchema::Dyn(s)),
                            _ => continue,
                        }
                    };
                    let mut o = doc_opts(run);
                    o.max_depth = 2;
                    o.max_items = 3;
                    o.kind = OpKind::Query;
                    let gd = gen_doc(&ts, &mut r, &o);
                    let world = world_for(schema.flavour(), r.next_u64());
                    let mut case = Case::new(ts.clone(), gd, world, false);
                    let base = case.reference();
                    if base.request_error.is_some() || (base.merged_groups > 0 && !run.feature("repeated_key")) {
                        continue;
                    }
                    // 0-2 resolver failures at field positions
                    let fields: Vec<&String> = base.calls.iter().map(|c| &c.path).collect();
                    let nf = r.below(3).min(fields.len());
                    let mut faults = vec![];
                    for _ in 0..nf {
                        faults.push(((*r.pick(&fields)).clone(), Fault::Err));
                    }
                    if !faults.is_empty() {
                        case.world = case.world.with_faults(&faults);
                        run.count("cases_with_faults", 1);
                    }
                    one_case(run, &schema, &case, &mut r, cap);
                }
            });
        }
    });
    run.finish_code_exit();
}

fn one_case(run: &Run, schema: &AnySchema, case: &Case, r: &mut Rng, cap: usize) {
    let mut first: Option<((J, Vec<String>), Vec<String>)> = None;
    let schedules = std::cell::Cell::new(0usize);
    let mut branchy = false;
    let mut exec = |ch: &mut dyn Chooser, name: &str| -> bool {
        let out = catch(|| run_scheduled(schema, case, ch));
        let (resp, _events, report) = match out {
            Ok(x) => x,
            Err(p) => {
                run.violation(&format!("C05-panic:{:x}", case.hash()), &format!("executor panicked: {p}"), case.replay_json(schema.flavour()));
                return false;
            }
        };
        run.eval();
        schedules.set(schedules.get() + 1);
        if report.branch_points > 0 {
            branchy = true;
        }
        run.seen("max_armed", &report.max_armed.to_string());
        let Some(resp) = resp else {
            run.violation(
                &format!("C05-stuck:{:x}", case.hash()),
                &format!("request did not complete under schedule {name}: {:?}", report.outcome),
                case.replay_json(schema.flavour()),
            );
            return false;
        };
        let c = canonical(&resp);
        if branchy {
            run.nontrivial(rng::mix(&[case.hash(), rng::hash_str(&report.opened.join(","))]));
        }
        match &first {
            None => {
                first = Some((c, report.opened.clone()));
                true
            }
            Some((f, fsched)) => {
                if *f != c {
                    let mut rj = case.replay_json(schema.flavour());
                    rj["schedule_a"] = json!(fsched);
                    rj["schedule_b"] = json!(report.opened);
                    rj["response_a"] = json!({"data": f.0, "errors": f.1});
                    rj["response_b"] = json!({"data": c.0, "errors": c.1});
                    run.violation(
                        &format!("C05:{:x}", case.hash()),
                        &format!(
                            "[{}] two completion orders give different responses: order {:?} -> data {} errors {:?}; order {:?} -> data {} errors {:?} | doc: {} faults {:?}",
                            schema.flavour(), fsched, f.0, f.1, report.opened, c.0, c.1, case.printed.text, case.world.faults
                        ),
                        rj,
                    );
                    false
                } else {
                    true
                }
            }
        }
    };
    // DFS over all completion orders, capped
    let mut dfs = Dfs::new();
    let mut complete = false;
    loop {
        if !exec(&mut dfs, "dfs") {
            return;
        }
        if schedules.get() >= cap {
            break;
        }
        if !dfs.advance() {
            complete = true;
            break;
        }
    }
    if complete {
        run.count("cases_fully_enumerated", 1);
    } else {
        run.count("cases_capped", 1);
        if !exec(&mut LifoChooser, "lifo") {
            return;
        }
        for k in 0..20 {
            let mut ch = RandomChooser(r.fork(k));
            if !exec(&mut ch, "random") {
                return;
            }
        }
    }
    run.count("schedules", schedules.get() as u64);
    run.sample_upto(
        4,
        json!({"document": case.printed.text, "faults": format!("{:?}", case.world.faults), "flavour": schema.flavour(),
               "schedules_executed": schedules.get(), "fully_enumerated": complete,
               "response": first.as_ref().map(|f| json!({"data": f.0.0, "errors": f.0.1}))}),
    );
}
