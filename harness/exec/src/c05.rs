//! C05 — responses do not depend on the order in which concurrent resolvers complete.
//! Metamorphic monitor: every completion order of the same (document, world,
//! faults) must give the same data and the same multiset of errors.

use std::sync::Arc;

use serde_json::{Value as J, json};
use vh_core::vsched::{Chooser, Dfs, LifoChooser, RandomChooser};
use vh_core::{Rng, Run, catch, rng};
use vh_model::doc::OpKind;
use vh_model::gen_doc::gen_doc;
use vh_model::gen_ts::gen_type_system;
use vh_model::world::Fault;
use vh_schema::compare::observe;
use vh_schema::{dynb, s1};

use crate::common::*;

fn canonical(resp: &async_graphql::Response) -> (J, Vec<String>) {
    let o = observe(resp);
    let mut errs: Vec<String> = o
        .errors
        .iter()
        .map(|e| format!("{:?}|{:?}|{}", e.path.as_ref().map(|p| vh_model::exec::path_str(p)), e.locations, e.message))
        .collect();
    errs.sort();
    (o.data, errs)
}

pub fn main() {
    let mut run = Run::from_args(
        "exploration",
        "generated queries (static S1 and generated dynamic schemas) with 0-3 injected resolver failures at nullable and \
         non-null positions (anywhere, among siblings of one parent, in different items of one list, on a response key \
         that merges several field nodes); every resolver awaits a vsched gate; ALL completion orders are enumerated by DFS when the \
         schedule space is small (cap 300 quick / 2000 thorough schedules per case, exhaustive flag per case), plus LIFO \
         and seeded random orders; all runs of a case must agree on data and on the multiset of (path, locations, \
         message) errors. Non-trivial = case with >= 2 distinct schedules and at least one branch point; distinct by \
         (case hash, schedule)",
    );
    run.assume("resolvers are deterministic functions of (parent, field, arguments): the data world guarantees it");
    let cases = run.scale(8_000, 40_000);
    let cap = run.scale(300, 2000) as usize;
    run.set_floors(2000, 300);
    run.require_counter("cases_with_faults");
    run.require_counter("cases_fully_enumerated");
    run.require_counter("cases_with_2plus_faults");
    let shards = n_shards(&run);
    let run = &run;
    let statics = static_family(run);
    let statics = &statics;
    std::thread::scope(|sc| {
        for shard in 0..shards {
            sc.spawn(move || {
                let mut r = shard_rng(run, 5, shard);
                let s1ts = s1::model();
                let s1schema = AnySchema::S1(s1::schema());
                let mut i = shard;
                while i < cases {
                    i += shards;
                    let (ts, schema) = if r.chance(2, 3) {
                        // static flavour: S1, or (a sixth of these: the check is at its time budget and the family is
                        // compiled without optimisation) a member of the generated derive-built family
                        match pick_family_p(run, statics, &mut r, 1, 6) {
                            Some(m) => (m.ts.clone(), m.schema.clone()),
                            None => (s1ts.clone(), s1schema.clone()),
                        }
                    } else {
                        let mut to = ts_opts(run);
                        to.max_objects = 3;
                        let ts = Arc::new(gen_type_system(&mut r, &to));
                        match catch(|| dynb::build(&ts)) {
                            Ok(Ok(s)) => (ts, AnySchema::Dyn(s)),
                            _ => continue,
                        }
                    };
                    let mut o = doc_opts(run);
                    o.max_depth = 2;
                    o.max_items = 3;
                    o.kind = OpKind::Query;
                    let gd = gen_doc(&ts, &mut r, &o);
                    let world = world_for(schema.flavour(), r.next_u64());
                    let mut case = Case::new(ts.clone(), gd, world, false);
                    let base = case.reference();
                    if base.request_error.is_some() || (base.merged_groups > 0 && !run.feature("repeated_key")) {
                        continue;
                    }
                    // Resolver failures at field positions. Interactions between failures are local, so besides
                    // 0-2 failures anywhere the placement is aimed: siblings of one parent, different items of one
                    // list (an item failing at a non-null position cancels its list; what the other items recorded
                    // must not depend on who finished first), and a response key that merges several field nodes.
                    let paths: Vec<&String> = base.calls.iter().map(|c| &c.path).collect();
                    let mut faults: Vec<(String, Fault)> = vec![];
                    let strategy = r.below(5);
                    run.count(["faults_anywhere", "faults_anywhere", "faults_siblings", "faults_two_list_items", "faults_merged_key"][strategy as usize], 1);
                    match strategy {
                        0 | 1 => {
                            let nf = r.below(3).min(paths.len());
                            for _ in 0..nf {
                                faults.push(((*r.pick(&paths)).clone(), Fault::Err));
                            }
                        }
                        2 => {
                            // 2-3 failing siblings below one parent
                            let parents: Vec<&String> = {
                                let mut m: std::collections::BTreeMap<&String, usize> = Default::default();
                                for c in &base.calls {
                                    *m.entry(&c.parent_path).or_insert(0) += 1;
                                }
                                m.into_iter().filter(|(_, n)| *n >= 2).map(|(p, _)| p).collect()
                            };
                            if !parents.is_empty() {
                                let parent = *r.pick(&parents);
                                let sibs: Vec<&String> = base.calls.iter().filter(|c| &c.parent_path == parent).map(|c| &c.path).collect();
                                for _ in 0..(2 + r.below(2)) {
                                    faults.push(((*r.pick(&sibs)).clone(), Fault::Err));
                                }
                            }
                        }
                        3 => {
                            // one failure in each of two (or three) different items of the same list
                            let item_of = |p: &str| -> Option<(String, String)> {
                                let segs: Vec<&str> = p.split('.').collect();
                                let k = segs.iter().position(|s| s.chars().all(|c| c.is_ascii_digit()))?;
                                Some((segs[..k].join("."), segs[k].to_string()))
                            };
                            let mut lists: std::collections::BTreeMap<String, std::collections::BTreeMap<String, Vec<&String>>> = Default::default();
                            for c in &base.calls {
                                if let Some((list, idx)) = item_of(&c.path) {
                                    lists.entry(list).or_default().entry(idx).or_default().push(&c.path);
                                }
                            }
                            let multi: Vec<&std::collections::BTreeMap<String, Vec<&String>>> = lists.values().filter(|m| m.len() >= 2).collect();
                            if !multi.is_empty() {
                                // items in index order; the earliest chosen item preferably fails at a non-null
                                // position (its error propagates to the list), the later ones at nullable positions
                                // (their errors are recorded in place)
                                let chosen = *r.pick(&multi);
                                let mut idxs: Vec<&String> = chosen.keys().collect();
                                idxs.sort_by_key(|k| k.parse::<usize>().unwrap_or(0));
                                let n = (2 + r.below(2)).min(idxs.len());
                                let start = r.below(idxs.len() - n + 1);
                                let nonnull_of = |p: &String| -> bool {
                                    base.calls
                                        .iter()
                                        .find(|c| &c.path == p)
                                        .and_then(|c| ts.field(&c.parent_ty, &c.field))
                                        .map(|f| f.ty.is_nonnull())
                                        .unwrap_or(false)
                                };
                                for k in 0..n {
                                    let it = &chosen[idxs[start + k]];
                                    let want_nonnull = k == 0;
                                    let pref: Vec<&String> = it.iter().copied().filter(|p| nonnull_of(p) == want_nonnull).collect();
                                    let pool: &Vec<&String> = if !pref.is_empty() && r.chance(3, 4) { &pref } else { it };
                                    faults.push(((*r.pick(pool)).clone(), Fault::Err));
                                }
                            }
                        }
                        _ => {
                            // a failing response key that merges several field nodes, plus 1-2 failures elsewhere
                            let merged: Vec<&String> = base.calls.iter().filter(|c| c.field_ids.len() > 1).map(|c| &c.path).collect();
                            if !merged.is_empty() {
                                faults.push(((*r.pick(&merged)).clone(), Fault::Err));
                                for _ in 0..(1 + r.below(2)) {
                                    faults.push(((*r.pick(&paths)).clone(), Fault::Err));
                                }
                            } else if !paths.is_empty() {
                                faults.push(((*r.pick(&paths)).clone(), Fault::Err));
                            }
                        }
                    }
                    faults.sort_by(|a, b| a.0.cmp(&b.0));
                    faults.dedup_by(|a, b| a.0 == b.0);
                    if !faults.is_empty() {
                        case.world = case.world.with_faults(&faults);
                        run.count("cases_with_faults", 1);
                        if faults.len() >= 2 {
                            run.count("cases_with_2plus_faults", 1);
                        }
                    }
                    one_case(run, &schema, &case, &mut r, cap);
                }
            });
        }
    });
    run.extra("static_schemas", static_family_extra(statics));
    run.finish_code_exit();
}

fn one_case(run: &Run, schema: &AnySchema, case: &Case, r: &mut Rng, cap: usize) {
    let mut first: Option<((J, Vec<String>), Vec<String>)> = None;
    let schedules = std::cell::Cell::new(0usize);
    let mut branchy = false;
    let mut exec = |ch: &mut dyn Chooser, name: &str| -> bool {
        let out = catch(|| run_scheduled(schema, case, ch));
        let (resp, _events, report) = match out {
            Ok(x) => x,
            Err(p) => {
                run.violation(&format!("C05-panic:{:x}", case.hash()), &format!("executor panicked: {p}"), case.replay_json(schema.flavour()));
                return false;
            }
        };
        run.eval();
        schedules.set(schedules.get() + 1);
        if report.branch_points > 0 {
            branchy = true;
        }
        run.seen("max_armed", &report.max_armed.to_string());
        let Some(resp) = resp else {
            run.violation(
                &format!("C05-stuck:{:x}", case.hash()),
                &format!("request did not complete under schedule {name}: {:?}", report.outcome),
                case.replay_json(schema.flavour()),
            );
            return false;
        };
        let c = canonical(&resp);
        if branchy {
            run.nontrivial(rng::mix(&[case.hash(), rng::hash_str(&report.opened.join(","))]));
        }
        match &first {
            None => {
                first = Some((c, report.opened.clone()));
                true
            }
            Some((f, fsched)) => {
                if *f != c {
                    let mut rj = case.replay_json(schema.flavour());
                    rj["schedule_a"] = json!(fsched);
                    rj["schedule_b"] = json!(report.opened);
                    rj["response_a"] = json!({"data": f.0, "errors": f.1});
                    rj["response_b"] = json!({"data": c.0, "errors": c.1});
                    run.violation(
                        &format!("C05:{:x}", case.hash()),
                        &format!(
                            "[{}] two completion orders give different responses: order {:?} -> data {} errors {:?}; order {:?} -> data {} errors {:?} | doc: {} faults {:?}",
                            schema.flavour(), fsched, f.0, f.1, report.opened, c.0, c.1, case.printed.text, case.world.faults
                        ),
                        rj,
                    );
                    false
                } else {
                    true
                }
            }
        }
    };
    // DFS over all completion orders, capped
    let mut dfs = Dfs::new();
    let mut complete = false;
    loop {
        if !exec(&mut dfs, "dfs") {
            return;
        }
        if schedules.get() >= cap {
            break;
        }
        if !dfs.advance() {
            complete = true;
            break;
        }
    }
    if complete {
        run.count("cases_fully_enumerated", 1);
    } else {
        run.count("cases_capped", 1);
        if !exec(&mut LifoChooser, "lifo") {
            return;
        }
        for k in 0..20 {
            let mut ch = RandomChooser(r.fork(k));
            if !exec(&mut ch, "random") {
                return;
            }
        }
    }
    run.count("schedules", schedules.get() as u64);
    run.sample_upto(
        4,
        json!({"document": case.printed.text, "faults": format!("{:?}", case.world.faults), "flavour": schema.flavour(),
               "schedules_executed": schedules.get(), "fully_enumerated": complete,
               "response": first.as_ref().map(|f| json!({"data": f.0.0, "errors": f.0.1}))}),
    );
}
