//! C03 — a field error nulls only the nearest nullable position and is reported once.
//! Fault enumeration: every single fault position × applicable kind of every
//! generated (document, world); pairs exhaustively for small trees, sampled
//! beyond.

use std::sync::Arc;

use serde_json::json;
use vh_core::{Rng, Run, catch, rng};
use vh_model::doc::OpKind;
use vh_model::gen_doc::gen_doc;
use vh_model::gen_ts::gen_type_system;
use vh_model::world::{Fault, World, bad_leaf_applies};
use vh_model::{Ty, TypeSystem};
use vh_schema::compare::{ErrMode, compare, observe};
use vh_schema::{Env, dynb};

use crate::common::*;

/// Fault kinds applicable at a position of type `ty` (dynamic flavour).
/// `item`: the position is a list item (no resolver of its own).
pub fn kinds_for(ts: &TypeSystem, ty: &Ty, item: bool, flavour: &str, nonfinite_float: bool) -> Vec<Fault> {
    let mut k = vec![];
    if !item {
        k.push(Fault::Err);
    }
    if flavour == "static" {
        // a Rust resolver of a non-null type cannot yield nothing, and the only invalid
        // leaf it can yield is a non-finite float
        if !ty.is_nonnull() {
            k.push(Fault::Null);
        }
        if ty.name() == "Float" && ty.list_depth() == 0 && nonfinite_float {
            k.push(Fault::BadLeaf);
        }
        return k;
    }
    // a dynamic resolver can express "nothing" for a field (None), and a null list
    // item only for built-in scalars
    if !item || (ty.list_depth() == 0 && TypeSystem::is_builtin_scalar(ty.name())) {
        k.push(Fault::Null);
    }
    if bad_leaf_applies(ts, ty) {
        k.push(Fault::BadLeaf);
    }
    k
}

fn nullability_class(ts: &TypeSystem, ty: &Ty) -> String {
    let base = if ts.is_leaf(ty.name()) { "leaf" } else { "composite" };
    let shape = match ty {
        Ty::NonNull(i) if matches!(**i, Ty::List(_)) => "list!",
        Ty::NonNull(_) => "nonnull",
        Ty::List(_) => "list",
        Ty::Named(_) => "nullable",
    };
    format!("{shape}-{base}")
}

pub fn main() {
    let mut run = Run::from_args(
        "fault_enumeration",
        "for each generated (schema, document, world) the fault-free run yields the tree of completed positions \
         (fields and list items); EVERY position x applicable fault kind (resolver returns Err, yields null/nothing, \
         yields a value invalid for the leaf type) is injected alone and the response compared with the reference \
         executor: data equal, exactly one error per failing field with its path and a location that is the start of \
         one of the merged field nodes, null at the nearest nullable position, everything else unchanged; pairs of \
         faults exhaustively when the tree has <= 10 positions, 40 sampled pairs otherwise (errors whose position was \
         discarded by the other fault's propagation may be absent). Non-trivial = faulted execution whose reference has \
         at least one error; distinct by (case hash, fault set). Subscription events: single-root subscriptions on S1 and on \
         a dynamic schema built from the same model, every (resolver call, event) x {Err, null} injected alone (keyed by \
         node id, so one event only) plus sampled pairs; every response of the stream is compared with the reference \
         result of its own event",
    );
    run.assume("reference executor R1 implements spec §6.4.4 (errors and non-null propagation)");
    run.assume("for two simultaneous faults the spec lets an implementation drop an error whose position was nulled by the other; both outcomes are accepted for such errors only");
    run.assume("whether a dynamic subscription keeps streaming after an event failed at a non-null root field is not asserted");
    let cases = run.scale(400, 12_000);
    let static_cases = run.scale(400, 12_000);
    run.set_floors(2000, 500);
    run.require_counter("faults_injected");
    run.require_counter("subscription_event_responses_compared");
    let shards = n_shards(&run);
    let run = &run;
    crate::witness::c03_merged(run);
    crate::witness::c03_float(run);
    let statics = static_family(run);
    let statics = &statics;
    std::thread::scope(|sc| {
        for shard in 0..shards {
            sc.spawn(move || {
                let mut r = shard_rng(run, 3, shard);
                let mut i = shard;
                while i < cases {
                    i += shards;
                    let mut to = ts_opts(run);
                    to.max_objects = 4;
                    let ts = Arc::new(gen_type_system(&mut r, &to));
                    let Ok(Ok(schema)) = catch(|| dynb::build(&ts)) else {
                        run.count("schema_build_failed", 1);
                        continue;
                    };
                    let mut o = doc_opts(run);
                    o.max_depth = 3;
                    o.max_items = 3;
                    o.kind = if ts.mutation.is_some() && r.chance(1, 4) { OpKind::Mutation } else { OpKind::Query };
                    let gd = gen_doc(&ts, &mut r, &o);
                    let world = world_for("dynamic", r.next_u64());
                    let case = Case::new(ts.clone(), gd, world, r.bool());
                    enumerate(run, &AnySchema::Dyn(schema), &case, &mut r);
                }
                // static flavour: S1
                let ts = vh_schema::s1::model();
                let schema = AnySchema::S1(vh_schema::s1::schema());
                let mut i = shard;
                while i < static_cases {
                    i += shards;
                    let mut o = doc_opts(run);
                    o.max_depth = 3;
                    o.max_items = 3;
                    o.kind = if r.chance(1, 4) { OpKind::Mutation } else { OpKind::Query };
                    let gd = gen_doc(&ts, &mut r, &o);
                    let world = World::new(r.next_u64());
                    let case = Case::new(ts.clone(), gd, world, r.bool());
                    enumerate(run, &schema, &case, &mut r);
                }
                // static flavour: the generated derive-built family (harness/gens), a quarter of S1's cases per member
                for m in statics.iter().filter(|m| m.name != "S1") {
                    let mut i = shard;
                    while i < static_cases / 4 {
                        i += shards;
                        let mut o = doc_opts(run);
                        o.max_depth = 3;
                        o.max_items = 3;
                        o.kind = if m.ts.mutation.is_some() && r.chance(1, 4) { OpKind::Mutation } else { OpKind::Query };
                        let gd = gen_doc(&m.ts, &mut r, &o);
                        let world = World::new(r.next_u64());
                        let case = Case::new(m.ts.clone(), gd, world, r.bool());
                        run.count(&format!("static_cases_{}", m.name), 1);
                        enumerate(run, &m.schema, &case, &mut r);
                    }
                }
            });
        }
    });
    run.extra("static_schemas", static_family_extra(statics));
    crate::c27::c03_subscription_events(run);
    run.exhaustive(true);
    run.extra(
        "exhaustive_scope",
        json!("single faults: every position x kind of every generated case; pairs: exhaustive for trees <= 10 positions"),
    );
    run.finish_code_exit();
}

fn enumerate(run: &Run, schema: &AnySchema, case: &Case, r: &mut Rng) {
    let flavour = schema.flavour();
    let base = case.reference();
    if base.request_error.is_some() {
        return;
    }
    if base.merged_groups > 0 {
        if !run.feature("repeated_key") {
            // excluded while the duplicate-resolution finding is open (see known_findings.json)
            run.count("cases_skipped_repeated_key", 1);
            return;
        }
        run.count("cases_with_merged_fields", 1);
    }
    // positions of the fault-free tree
    let mut singles: Vec<(String, Fault, String)> = vec![];
    let field_paths: std::collections::BTreeMap<&String, &vh_model::exec::Call> = base.calls.iter().map(|c| (&c.path, c)).collect();
    for (p, ty) in &base.positions {
        if p.ends_with("__typename") {
            continue;
        }
        let call = field_paths.get(p);
        let item = call.is_none();
        if flavour == "static" {
            // fields of the eagerly built SimpleObject have no resolver that could fail
            let under_simple = base.calls.iter().any(|c| {
                schema.eager_field(&c.parent_ty, &c.field) && (p == &c.path || p.starts_with(&format!("{}.", c.path)))
            });
            if under_simple {
                continue;
            }
        }
        for k in kinds_for(&case.ts, ty, item, flavour, run.feature("static_nonfinite_float")) {
            singles.push((p.clone(), k, format!("{flavour}:{}", nullability_class(&case.ts, ty))));
        }
    }
    run.count("cases", 1);
    run.count(&format!("cases_{flavour}"), 1);
    run.count("positions", base.positions.len() as u64);
    for (p, k, class) in &singles {
        let w = case.world.with_faults(&[(p.clone(), *k)]);
        one(run, schema, case, w, &format!("{}:{}", k.name(), class));
    }
    // pairs
    let n = singles.len();
    if n >= 2 {
        let exhaustive = base.positions.len() <= 10;
        let mut pairs: Vec<(usize, usize)> = vec![];
        if exhaustive {
            for a in 0..n {
                for b in a + 1..n {
                    if singles[a].0 != singles[b].0 {
                        pairs.push((a, b));
                    }
                }
            }
            run.count("cases_with_exhaustive_pairs", 1);
        } else {
            for _ in 0..40 {
                let a = r.below(n);
                let b = r.below(n);
                if singles[a].0 != singles[b].0 {
                    pairs.push((a.min(b), a.max(b)));
                }
            }
        }
        for (a, b) in pairs {
            let w = case.world.with_faults(&[(singles[a].0.clone(), singles[a].1), (singles[b].0.clone(), singles[b].1)]);
            one(run, schema, case, w, &format!("{flavour}:pair"));
        }
    }
}

fn one(run: &Run, schema: &AnySchema, base: &Case, world: World, class: &str) {
    let case = Case { ts: base.ts.clone(), gd: base.gd.clone(), printed: base.printed.clone(), world };
    let reference = case.reference();
    let env = Env::new(case.ts.clone(), case.world.clone());
    let resp = match catch(|| schema.execute(case.request(&env))) {
        Ok(r) => r,
        Err(p) => {
            run.violation(&format!("C03-panic:{:x}", case.hash()), &format!("executor panicked: {p}"), case.replay_json(schema.flavour()));
            return;
        }
    };
    run.eval();
    run.count("faults_injected", case.world.faults.len() as u64);
    run.seen("fault_classes", class);
    if !reference.errors.is_empty() {
        run.nontrivial(case.hash());
        run.count("executions_with_expected_errors", 1);
    }
    let obs = observe(&resp);
    run.sample_upto(
        4,
        json!({"document": case.printed.text, "variables": case.gd.vars, "faults": format!("{:?}", case.world.faults), "response": obs.raw}),
    );
    let diffs = compare(&obs, &reference, &case.printed, ErrMode::Exact);
    if !diffs.is_empty() {
        let mut rj = case.replay_json(schema.flavour());
        rj["observed"] = obs.raw.clone();
        rj["expected_data"] = reference.data.clone();
        rj["expected_errors"] = json!(reference
            .errors
            .iter()
            .map(|e| json!({"path": vh_model::exec::path_str(&e.path), "kind": e.kind, "nulled": e.nulled.as_ref().map(|n| vh_model::exec::path_str(n))}))
            .collect::<Vec<_>>());
        run.violation(
            &format!("C03:{:x}", rng::mix(&[case.hash(), rng::hash_str(class)])),
            &format!("[{class}] faults {:?}: {} | doc: {}", case.world.faults, diffs.join("; "), case.printed.text),
            rj,
        );
    }
}
