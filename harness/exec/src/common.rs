//! Shared pieces of the executor checks.

use std::sync::Arc;

use async_graphql::{Request, Response, Variables};
use serde_json::{Value as J, json};
use vh_core::{Rng, Run, rng};
use vh_model::doc::{Printed, print};
use vh_model::exec::RefResult;
use vh_model::gen_doc::{DocOpts, GenDoc};
use vh_model::gen_ts::TsOpts;
use vh_model::world::World;
use vh_model::TypeSystem;
use vh_schema::Env;

pub struct Case {
    pub ts: Arc<TypeSystem>,
    pub gd: GenDoc,
    pub printed: Printed,
    pub world: World,
}

impl Case {
    pub fn new(ts: Arc<TypeSystem>, gd: GenDoc, world: World, pretty: bool) -> Case {
        let printed = print(&gd.doc, pretty);
        Case { ts, gd, printed, world }
    }

    pub fn request(&self, env: &Env) -> Request {
        let mut req = Request::new(self.printed.text.clone())
            .variables(Variables::from_json(self.gd.vars.clone()))
            .data(env.clone());
        if let Some(n) = &self.gd.op_name {
            req = req.operation_name(n.clone());
        }
        req
    }

    pub fn reference(&self) -> RefResult {
        vh_model::exec::execute(&self.ts, &self.gd.doc, self.gd.op_name.as_deref(), &self.gd.vars, &self.world)
    }

    pub fn hash(&self) -> u64 {
        rng::mix(&[
            rng::hash_str(&self.ts.sdl()),
            rng::hash_str(&self.printed.text),
            rng::hash_str(&self.gd.vars.to_string()),
            self.world.seed,
            rng::hash_str(&format!("{:?}", self.world.faults)),
        ])
    }

    pub fn replay_json(&self, flavour: &str) -> J {
        json!({
            "flavour": flavour,
            "schema_sdl": self.ts.sdl(),
            "document": self.printed.text,
            "operation_name": self.gd.op_name,
            "variables": self.gd.vars,
            "world_seed": self.world.seed,
            "faults": self.world.faults.iter().map(|(k, v)| (k.clone(), v.name())).collect::<std::collections::BTreeMap<_, _>>(),
            "features": self.gd.features,
        })
    }
}

pub fn exec_dynamic(schema: &async_graphql::dynamic::Schema, req: Request) -> Response {
    vh_core::vsched::block_on(schema.execute(req))
}

/// A schema of either flavour.
#[derive(Clone)]
pub enum AnySchema {
    Dyn(async_graphql::dynamic::Schema),
    S1(vh_schema::s1::S1Schema),
}

impl AnySchema {
    pub fn flavour(&self) -> &'static str {
        match self {
            AnySchema::Dyn(_) => "dynamic",
            AnySchema::S1(_) => "static",
        }
    }
    pub fn execute(&self, req: Request) -> Response {
        match self {
            AnySchema::Dyn(s) => vh_core::vsched::block_on(s.execute(req)),
            AnySchema::S1(s) => vh_core::vsched::block_on(s.execute(req)),
        }
    }
    pub async fn execute_async(&self, req: Request) -> Response {
        match self {
            AnySchema::Dyn(s) => s.execute(req).await,
            AnySchema::S1(s) => s.execute(req).await,
        }
    }
}

pub fn ts_opts(_run: &Run) -> TsOpts {
    TsOpts::default()
}

/// Document options with generator features switched off while a known
/// finding excludes them.
pub fn doc_opts(run: &Run) -> DocOpts {
    let mut o = DocOpts::default();
    o.union_cond_on_concrete = run.feature("union_cond_on_concrete");
    o.directive_var_default = run.feature("directive_var_default");
    o.omitted_var_uses_arg_default = run.feature("omitted_var_uses_arg_default");
    o.nullable_var_with_default_at_nonnull = run.feature("nullable_var_with_default_at_nonnull");
    o.repeated_keys = run.feature("repeated_key");
    o
}

pub fn shard_rng(run: &Run, prop: u64, shard: u64) -> Rng {
    Rng::new(rng::mix(&[run.seed, prop, shard]))
}

pub fn n_shards(run: &Run) -> u64 {
    if run.is_thorough() { 16 } else { 8 }
}

/// Execute a case with every resolver gated, under the given chooser.
pub fn run_scheduled(
    schema: &AnySchema,
    case: &Case,
    chooser: &mut dyn vh_core::vsched::Chooser,
) -> (Option<Response>, Vec<vh_schema::Event>, vh_core::vsched::RunReport) {
    let sched = vh_core::vsched::Sched::new();
    let env = Env::new(case.ts.clone(), case.world.clone()).with_sched(sched.clone());
    let req = case.request(&env);
    let schema = schema.clone();
    let (resp, report) = sched.run(async move { schema.execute_async(req).await }, chooser, false, 100_000);
    (resp, env.log.snapshot(), report)
}

/// A fault-free world for the given flavour (see `World::null_items_builtin_only`).
pub fn world_for(flavour: &str, seed: u64) -> World {
    let mut w = World::new(seed);
    w.null_items_builtin_only = flavour == "dynamic";
    w
}
