//! Shared pieces of the executor checks.

use std::sync::Arc;

use async_graphql::{Request, Response, Variables};
use serde_json::{Value as J, json};
use vh_core::{Rng, Run, rng};
use vh_model::doc::{Printed, print};
use vh_model::exec::RefResult;
use vh_model::gen_doc::{DocOpts, GenDoc};
use vh_model::gen_ts::TsOpts;
use vh_model::world::World;
use vh_model::TypeSystem;
use vh_schema::Env;

pub struct Case {
    pub ts: Arc<TypeSystem>,
    pub gd: GenDoc,
    pub printed: Printed,
    pub world: World,
}

impl Case {
    pub fn new(ts: Arc<TypeSystem>, gd: GenDoc, world: World, pretty: bool) -> Case {
        let printed = print(&gd.doc, pretty);
        Case { ts, gd, printed, world }
    }

    pub fn request(&self, env: &Env) -> Request {
        let mut req = Request::new(self.printed.text.clone())
            .variables(Variables::from_json(self.gd.vars.clone()))
            .data(env.clone());
        if let Some(n) = &self.gd.op_name {
            req = req.operation_name(n.clone());
        }
        req
    }

    pub fn reference(&self) -> RefResult {
        vh_model::exec::execute(&self.ts, &self.gd.doc, self.gd.op_name.as_deref(), &self.gd.vars, &self.world)
    }

    pub fn hash(&self) -> u64 {
        rng::mix(&[
            rng::hash_str(&self.ts.sdl()),
            rng::hash_str(&self.printed.text),
            rng::hash_str(&self.gd.vars.to_string()),
            self.world.seed,
            rng::hash_str(&format!("{:?}", self.world.faults)),
        ])
    }

    pub fn replay_json(&self, flavour: &str) -> J {
        json!({
            "flavour": flavour,
            "schema_name": if flavour != "static" {
                "generated dynamic schema"
            } else if self.ts.sdl() == vh_schema::s1::model().sdl() {
                "S1 (harness/schema/src/s1.rs)"
            } else {
                vh_gens::name_of_sdl(&self.ts.sdl()).unwrap_or("static schema of a pinned witness")
            },
            "schema_sdl": self.ts.sdl(),
            "document": self.printed.text,
            "operation_name": self.gd.op_name,
            "variables": self.gd.vars,
            "world_seed": self.world.seed,
            "faults": self.world.faults.iter().map(|(k, v)| (k.clone(), v.name())).collect::<std::collections::BTreeMap<_, _>>(),
            "features": self.gd.features,
        })
    }
}

pub fn exec_dynamic(schema: &async_graphql::dynamic::Schema, req: Request) -> Response {
    vh_core::vsched::block_on(schema.execute(req))
}

/// A schema of either flavour.
#[derive(Clone)]
pub enum AnySchema {
    Dyn(async_graphql::dynamic::Schema),
    S1(vh_schema::s1::S1Schema),
    /// a member of the generated derive-built family (harness/gens); static flavour like S1
    Gen(Arc<dyn vh_schema::StaticExec>),
}

impl AnySchema {
    pub fn flavour(&self) -> &'static str {
        match self {
            AnySchema::Dyn(_) => "dynamic",
            AnySchema::S1(_) | AnySchema::Gen(_) => "static",
        }
    }
    pub fn execute(&self, req: Request) -> Response {
        match self {
            AnySchema::Dyn(s) => vh_core::vsched::block_on(s.execute(req)),
            AnySchema::S1(s) => vh_core::vsched::block_on(s.execute(req)),
            AnySchema::Gen(s) => vh_core::vsched::block_on(s.execute(req)),
        }
    }
    pub async fn execute_async(&self, req: Request) -> Response {
        match self {
            AnySchema::Dyn(s) => s.execute(req).await,
            AnySchema::S1(s) => s.execute(req).await,
            AnySchema::Gen(s) => s.execute(req).await,
        }
    }
    /// Is `parent_ty.field` an eagerly built SimpleObject member (no resolver that could fail or be gated)?
    pub fn eager_field(&self, parent_ty: &str, field: &str) -> bool {
        match self {
            AnySchema::Dyn(_) => false,
            AnySchema::S1(_) => parent_ty == "Stats" && field != "derived",
            AnySchema::Gen(s) => s.eager_field(parent_ty, field),
        }
    }
}

/// One static-flavour (derive-built) schema a check runs on.
#[derive(Clone)]
pub struct StaticMember {
    /// "S1", "g0", "g1", …
    pub name: &'static str,
    pub ts: Arc<TypeSystem>,
    pub schema: AnySchema,
    /// None for S1
    pub exec: Option<Arc<dyn vh_schema::StaticExec>>,
}

/// The derive-built schemas of the static flavour: the hand-written S1 first, then every member of the generated
/// family (harness/gens). `VERIF_GENS=0` leaves the family out (S1 only, as before the family existed).
/// The family is used only when it is sound to judge it: every module rebuilds exactly the model it was generated
/// from and declares exactly that model (introspection self-check); otherwise the run is INCONCLUSIVE — a stale
/// or wrong generator is a harness problem, never a violation.
pub fn static_family(run: &Run) -> Vec<StaticMember> {
    let mut out = vec![StaticMember { name: "S1", ts: vh_schema::s1::model(), schema: AnySchema::S1(vh_schema::s1::schema()), exec: None }];
    if std::env::var("VERIF_GENS").as_deref() == Ok("0") {
        run.note("VERIF_GENS=0: generated schema family left out, static flavour = S1 only");
        return out;
    }
    // generator feature, off while a known finding excludes it (see vh_schema::genrt::set_nested_routing)
    vh_schema::genrt::set_nested_routing(family_feature(run, "value_through_nested_interface_variant"));
    match vh_core::catch(vh_gens::try_family) {
        Ok(Ok(members)) => {
            for (name, ts, exec) in members {
                let diffs = vh_gens::selfcheck::check(&ts, &exec);
                if !diffs.is_empty() {
                    run.inconclusive(&format!("generated schema {name} does not declare its model: {}", diffs.join("; ")));
                    continue;
                }
                out.push(StaticMember { name, ts, schema: AnySchema::Gen(exec.clone()), exec: Some(exec) });
            }
        }
        Ok(Err(e)) | Err(e) => run.inconclusive(&e),
    }
    out
}

/// A generator feature of the shared family: off while a known finding of ANY property excludes it (the family
/// is one set of schemas used by several checks; the pinned witness lives in the check whose property it breaks).
pub fn family_feature(run: &Run, name: &str) -> bool {
    run.feature(name)
        && !vh_core::run::load_findings(&run.root).iter().any(|f| f.status == "known" && f.excludes_features.iter().any(|x| x == name))
}

/// For checks that draw the schema per case: with probability 1/3 (and when the family is available) a member of the
/// generated family instead of S1. Counts `static_cases_<name>` for the member, `static_cases_S1` otherwise.
pub fn pick_family<'a>(run: &Run, statics: &'a [StaticMember], r: &mut Rng) -> Option<&'a StaticMember> {
    pick_family_p(run, statics, r, 1, 3)
}

/// `pick_family` with probability num/den.
pub fn pick_family_p<'a>(run: &Run, statics: &'a [StaticMember], r: &mut Rng, num: u32, den: u32) -> Option<&'a StaticMember> {
    if statics.len() > 1 && r.chance(num, den) {
        let m = &statics[1 + r.below(statics.len() - 1)];
        run.count(&format!("static_cases_{}", m.name), 1);
        Some(m)
    } else {
        run.count("static_cases_S1", 1);
        None
    }
}

/// Evidence entry describing the static schemas of a run: name, SDL hash of the model, object count, derive features.
pub fn static_family_extra(members: &[StaticMember]) -> J {
    let feats: std::collections::BTreeMap<&str, &[&str]> = vh_gens::features().into_iter().collect();
    J::Array(
        members
            .iter()
            .map(|m| {
                json!({
                    "name": m.name,
                    "source": if m.name == "S1" { "harness/schema/src/s1.rs (hand-written)".to_string() } else { format!("harness/gens/src/{}.rs (generated)", m.name) },
                    "model_sdl_hash": format!("{:016x}", rng::hash_str(&m.ts.sdl())),
                    "object_types": m.ts.objects().len(),
                    "derive_features": feats.get(m.name).map(|f| f.to_vec()).unwrap_or_default(),
                })
            })
            .collect(),
    )
}

pub fn ts_opts(_run: &Run) -> TsOpts {
    TsOpts::default()
}

/// Document options with generator features switched off while a known
/// finding excludes them.
pub fn doc_opts(run: &Run) -> DocOpts {
    let mut o = DocOpts::default();
    o.union_cond_on_concrete = run.feature("union_cond_on_concrete");
    o.directive_var_default = run.feature("directive_var_default");
    o.omitted_var_uses_arg_default = run.feature("omitted_var_uses_arg_default");
    o.nullable_var_with_default_at_nonnull = run.feature("nullable_var_with_default_at_nonnull");
    o.repeated_keys = run.feature("repeated_key");
    o
}

pub fn shard_rng(run: &Run, prop: u64, shard: u64) -> Rng {
    Rng::new(rng::mix(&[run.seed, prop, shard]))
}

pub fn n_shards(run: &Run) -> u64 {
    if run.is_thorough() { 16 } else { 8 }
}

/// Execute a case with every resolver gated, under the given chooser.
pub fn run_scheduled(
    schema: &AnySchema,
    case: &Case,
    chooser: &mut dyn vh_core::vsched::Chooser,
) -> (Option<Response>, Vec<vh_schema::Event>, vh_core::vsched::RunReport) {
    let sched = vh_core::vsched::Sched::new();
    let env = Env::new(case.ts.clone(), case.world.clone()).with_sched(sched.clone());
    let req = case.request(&env);
    let schema = schema.clone();
    let (resp, report) = sched.run(async move { schema.execute_async(req).await }, chooser, false, 100_000);
    (resp, env.log.snapshot(), report)
}

/// A fault-free world for the given flavour (see `World::null_items_builtin_only`).
pub fn world_for(flavour: &str, seed: u64) -> World {
    let mut w = World::new(seed);
    w.null_items_builtin_only = flavour == "dynamic";
    w
}
