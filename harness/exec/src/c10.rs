//! C10 — depth / complexity / recursion / directive limits are enforced exactly.
//!
//! For every generated single-operation document the four measures are computed
//! by the harness' own reference (R3, on the harness AST, fragments inlined),
//! the schema is rebuilt with one limit at m−1, m, m+1 and the request executed
//! against it. The monitor reads the response and the resolver event log:
//! measure > limit ⇒ errors, no data and not one resolver `Start` event;
//! measure ≤ limit ⇒ the request executes.

use std::collections::{BTreeSet, HashMap};
use std::sync::Arc;

use async_graphql::{Request, Response, ValidationMode, Variables};
use serde_json::{Value as J, json};
use vh_core::{Rng, Run, catch, rng};
use vh_model::doc::*;
use vh_model::gen_doc::{GenDoc, gen_doc};
use vh_model::gen_ts::gen_type_system;
use vh_model::types::*;
use vh_model::world::World;
use vh_schema::{Ek, Env, dynb, s1};

use crate::common::{doc_opts, n_shards, ts_opts, world_for};

// ================================================================= S10: a second derive-built schema
//
// S1 declares one complexity rule, on a root field (`Query.page`); no fragment
// can reach a root field from a selection set of another type. S10 puts rules
// on fields of objects that sit behind an interface and a union, on a
// SimpleObject and on a ComplexObject, in four shapes.

pub mod s10 {
    use std::sync::Arc;

    use async_graphql::*;
    use vh_model::types::{ArgDef, FieldDef, Kind, Ty, TypeDef, TypeSystem, Val};
    use vh_model::world::PlanVal;
    use vh_schema::s1::{Cx, Echo, FromPlan, plan};

    use super::Rule;

    fn bad<T>(what: &str, pv: &PlanVal) -> Result<T> {
        Err(Error::new(format!("harness: cannot express {pv:?} as {what}")))
    }

    macro_rules! node_type {
        ($name:ident, $gql:literal) => {
            #[derive(Clone, Debug)]
            pub struct $name(pub u64);
            impl FromPlan for $name {
                fn from_plan(pv: PlanVal, _: &Cx) -> Result<Self> {
                    match pv {
                        PlanVal::Node { ty, id } if ty == $gql => Ok($name(id)),
                        other => bad($gql, &other),
                    }
                }
            }
        };
    }
    node_type!(Shelf, "Shelf");
    node_type!(Book, "Book");
    node_type!(Page, "Page");

    #[derive(Interface)]
    #[graphql(name = "Node", field(name = "id", ty = "ID"))]
    pub enum NodeI {
        Shelf(Shelf),
        Book(Book),
    }
    impl FromPlan for NodeI {
        fn from_plan(pv: PlanVal, _: &Cx) -> Result<Self> {
            match pv {
                PlanVal::Node { ty, id } if ty == "Shelf" => Ok(NodeI::Shelf(Shelf(id))),
                PlanVal::Node { ty, id } if ty == "Book" => Ok(NodeI::Book(Book(id))),
                other => bad("Node", &other),
            }
        }
    }

    #[derive(Union)]
    pub enum Item {
        Shelf(Shelf),
        Book(Book),
    }
    impl FromPlan for Item {
        fn from_plan(pv: PlanVal, _: &Cx) -> Result<Self> {
            match pv {
                PlanVal::Node { ty, id } if ty == "Shelf" => Ok(Item::Shelf(Shelf(id))),
                PlanVal::Node { ty, id } if ty == "Book" => Ok(Item::Book(Book(id))),
                other => bad("Item", &other),
            }
        }
    }

    #[Object]
    impl Shelf {
        async fn id(&self, ctx: &Context<'_>) -> Result<ID> {
            plan(ctx, "Shelf", self.0, "id", vec![]).await
        }
        async fn label(&self, ctx: &Context<'_>) -> Result<String> {
            plan(ctx, "Shelf", self.0, "label", vec![]).await
        }
        #[graphql(complexity = 7)]
        async fn cost(&self, ctx: &Context<'_>) -> Result<i32> {
            plan(ctx, "Shelf", self.0, "cost", vec![]).await
        }
        #[graphql(complexity = "(count.max(0) as usize).saturating_mul(child_complexity).saturating_add(2)")]
        async fn books(&self, ctx: &Context<'_>, #[graphql(default = 5)] count: i32) -> Result<Vec<Book>> {
            plan(ctx, "Shelf", self.0, "books", vec![("count", count.echo())]).await
        }
        #[graphql(complexity = "child_complexity.saturating_mul(2)")]
        async fn parent(&self, ctx: &Context<'_>) -> Result<Option<Shelf>> {
            plan(ctx, "Shelf", self.0, "parent", vec![]).await
        }
        async fn owner(&self, ctx: &Context<'_>) -> Result<Option<NodeI>> {
            plan(ctx, "Shelf", self.0, "owner", vec![]).await
        }
        async fn first(&self, ctx: &Context<'_>) -> Result<Option<Item>> {
            plan(ctx, "Shelf", self.0, "first", vec![]).await
        }
    }

    #[Object]
    impl Book {
        async fn id(&self, ctx: &Context<'_>) -> Result<ID> {
            plan(ctx, "Book", self.0, "id", vec![]).await
        }
        async fn title(&self, ctx: &Context<'_>) -> Result<String> {
            plan(ctx, "Book", self.0, "title", vec![]).await
        }
        /// nullable argument without default: absent and null both mean 10
        #[graphql(complexity = "(first.unwrap_or(10).max(0) as usize).saturating_mul(child_complexity).saturating_add(1)")]
        async fn pages(&self, ctx: &Context<'_>, first: Option<i32>) -> Result<Vec<Page>> {
            plan(ctx, "Book", self.0, "pages", vec![("first", first.echo())]).await
        }
        async fn shelf(&self, ctx: &Context<'_>) -> Result<Option<Shelf>> {
            plan(ctx, "Book", self.0, "shelf", vec![]).await
        }
        async fn meta(&self, ctx: &Context<'_>) -> Result<Meta> {
            plan(ctx, "Book", self.0, "meta", vec![]).await
        }
    }

    #[Object]
    impl Page {
        async fn n(&self, ctx: &Context<'_>) -> Result<i32> {
            plan(ctx, "Page", self.0, "n", vec![]).await
        }
        async fn text(&self, ctx: &Context<'_>) -> Result<Option<String>> {
            plan(ctx, "Page", self.0, "text", vec![]).await
        }
        async fn book(&self, ctx: &Context<'_>) -> Result<Option<Book>> {
            plan(ctx, "Page", self.0, "book", vec![]).await
        }
    }

    /// derive(SimpleObject) field rules and a ComplexObject method rule
    #[derive(SimpleObject, Clone, Debug)]
    #[graphql(complex)]
    pub struct Meta {
        #[graphql(complexity = 0)]
        pub words: i32,
        #[graphql(complexity = 3)]
        pub rating: Option<f64>,
        pub plain: i32,
        #[graphql(skip)]
        pub id: u64,
    }
    #[ComplexObject]
    impl Meta {
        #[graphql(complexity = "(k.max(0) as usize).saturating_add(child_complexity)")]
        async fn derived(&self, ctx: &Context<'_>, #[graphql(default = 1)] k: i32) -> Result<i32> {
            plan(ctx, "Meta", self.id, "derived", vec![("k", k.echo())]).await
        }
        async fn more(&self, ctx: &Context<'_>) -> Result<i32> {
            plan(ctx, "Meta", self.id, "more", vec![]).await
        }
    }
    impl FromPlan for Meta {
        fn from_plan(pv: PlanVal, cx: &Cx) -> Result<Self> {
            match pv {
                PlanVal::Node { ty, id } if ty == "Meta" => {
                    let ts = &cx.env.ts;
                    let f = |name: &str| {
                        let fd = ts.field("Meta", name).cloned().expect("Meta field in model");
                        cx.env.world.resolve(ts, "Meta", id, &fd, "{}", "<simple-object-field>")
                    };
                    Ok(Meta {
                        words: i32::from_plan(f("words"), cx)?,
                        rating: Option::<f64>::from_plan(f("rating"), cx)?,
                        plain: i32::from_plan(f("plain"), cx)?,
                        id,
                    })
                }
                other => bad("Meta", &other),
            }
        }
    }

    pub struct Query;
    #[Object]
    impl Query {
        async fn shelf(&self, ctx: &Context<'_>, i: Option<i32>) -> Result<Option<Shelf>> {
            plan(ctx, "Query", 0, "shelf", vec![("i", i.echo())]).await
        }
        async fn node(&self, ctx: &Context<'_>, i: Option<i32>) -> Result<Option<NodeI>> {
            plan(ctx, "Query", 0, "node", vec![("i", i.echo())]).await
        }
        async fn item(&self, ctx: &Context<'_>, i: Option<i32>) -> Result<Option<Item>> {
            plan(ctx, "Query", 0, "item", vec![("i", i.echo())]).await
        }
        async fn items(&self, ctx: &Context<'_>) -> Result<Vec<Item>> {
            plan(ctx, "Query", 0, "items", vec![]).await
        }
        #[graphql(complexity = "(first.max(0) as usize).saturating_mul(child_complexity).saturating_add(1)")]
        async fn shelves(&self, ctx: &Context<'_>, #[graphql(default = 3)] first: i32) -> Result<Vec<Shelf>> {
            plan(ctx, "Query", 0, "shelves", vec![("first", first.echo())]).await
        }
        #[graphql(complexity = 0)]
        async fn version(&self, ctx: &Context<'_>) -> Result<String> {
            plan(ctx, "Query", 0, "version", vec![]).await
        }
    }

    struct Noop;
    impl CustomDirective for Noop {}

    #[Directive(location = "Field", name = "tagA")]
    fn tag_a() -> impl CustomDirective {
        Noop
    }
    #[Directive(location = "Field", name = "tagB")]
    fn tag_b(n: Option<i32>) -> impl CustomDirective {
        let _ = n;
        Noop
    }

    pub type Schema10 = Schema<Query, EmptyMutation, EmptySubscription>;

    pub fn builder() -> SchemaBuilder<Query, EmptyMutation, EmptySubscription> {
        Schema::build(Query, EmptyMutation, EmptySubscription).directive(tag_a).directive(tag_b)
    }

    fn f(name: &str, ty: &str) -> FieldDef {
        FieldDef { name: name.into(), args: vec![], ty: Ty::parse(ty) }
    }
    fn fa(name: &str, ty: &str, args: Vec<ArgDef>) -> FieldDef {
        FieldDef { name: name.into(), args, ty: Ty::parse(ty) }
    }
    fn a(name: &str, ty: &str, default: Option<Val>) -> ArgDef {
        ArgDef { name: name.into(), ty: Ty::parse(ty), default }
    }

    /// What the Rust source above declares, written by hand.
    pub fn model() -> Arc<TypeSystem> {
        let mut ts = TypeSystem::new("Query");
        ts.add(TypeDef { name: "Node".into(), kind: Kind::Interface { fields: vec![f("id", "ID!")], implements: vec![] } });
        ts.add(TypeDef {
            name: "Shelf".into(),
            kind: Kind::Object {
                fields: vec![
                    f("id", "ID!"),
                    f("label", "String!"),
                    f("cost", "Int!"),
                    fa("books", "[Book!]!", vec![a("count", "Int!", Some(Val::Int(5)))]),
                    f("parent", "Shelf"),
                    f("owner", "Node"),
                    f("first", "Item"),
                ],
                implements: vec!["Node".into()],
            },
        });
        ts.add(TypeDef {
            name: "Book".into(),
            kind: Kind::Object {
                fields: vec![
                    f("id", "ID!"),
                    f("title", "String!"),
                    fa("pages", "[Page!]!", vec![a("first", "Int", None)]),
                    f("shelf", "Shelf"),
                    f("meta", "Meta!"),
                ],
                implements: vec!["Node".into()],
            },
        });
        ts.add(TypeDef {
            name: "Page".into(),
            kind: Kind::Object { fields: vec![f("n", "Int!"), f("text", "String"), f("book", "Book")], implements: vec![] },
        });
        ts.add(TypeDef {
            name: "Meta".into(),
            kind: Kind::Object {
                fields: vec![
                    f("words", "Int!"),
                    f("rating", "Float"),
                    f("plain", "Int!"),
                    fa("derived", "Int!", vec![a("k", "Int!", Some(Val::Int(1)))]),
                    f("more", "Int!"),
                ],
                implements: vec![],
            },
        });
        ts.add(TypeDef { name: "Item".into(), kind: Kind::Union(vec!["Shelf".into(), "Book".into()]) });
        ts.add(TypeDef {
            name: "Query".into(),
            kind: Kind::Object {
                fields: vec![
                    fa("shelf", "Shelf", vec![a("i", "Int", None)]),
                    fa("node", "Node", vec![a("i", "Int", None)]),
                    fa("item", "Item", vec![a("i", "Int", None)]),
                    f("items", "[Item!]!"),
                    fa("shelves", "[Shelf!]!", vec![a("first", "Int!", Some(Val::Int(3)))]),
                    f("version", "String!"),
                ],
                implements: vec![],
            },
        });
        Arc::new(ts)
    }

    /// The complexity rules the Rust source above declares, written by hand.
    pub fn rules() -> Vec<((&'static str, &'static str), Rule)> {
        vec![
            (("Shelf", "cost"), Rule::Const(7)),
            (("Shelf", "books"), Rule::Mul { arg: "count", absent: 5, add: 2 }),
            (("Shelf", "parent"), Rule::ChildMul(2)),
            (("Book", "pages"), Rule::Mul { arg: "first", absent: 10, add: 1 }),
            (("Meta", "words"), Rule::Const(0)),
            (("Meta", "rating"), Rule::Const(3)),
            (("Meta", "derived"), Rule::Add { arg: "k", absent: 1 }),
            (("Query", "shelves"), Rule::Mul { arg: "first", absent: 3, add: 1 }),
            (("Query", "version"), Rule::Const(0)),
        ]
    }
}

// ================================================================= R3: reference measures

/// A declared complexity rule, as the harness models it. All arithmetic is the
/// saturating usize arithmetic the Rust expressions in S1 / S10 spell out.
#[derive(Clone, Copy, Debug)]
pub enum Rule {
    Const(u64),
    /// `max(arg, 0) * child + add`; `absent` is the value when the argument is absent (or null, for a nullable argument)
    Mul { arg: &'static str, absent: i64, add: u64 },
    /// `child * k`
    ChildMul(u64),
    /// `max(arg, 0) + child`
    Add { arg: &'static str, absent: i64 },
}

pub type Rules = HashMap<(String, String), Rule>;

fn rules_of(v: Vec<((&'static str, &'static str), Rule)>) -> Rules {
    v.into_iter().map(|((t, f), r)| ((t.to_string(), f.to_string()), r)).collect()
}

fn s1_rules() -> Rules {
    rules_of(vec![(("Query", "page"), Rule::Mul { arg: "count", absent: 5, add: 2 })])
}

#[derive(Clone, Debug, PartialEq)]
pub struct Measures {
    pub depth: u64,
    pub complexity: u128,
    pub nesting: u64,
    pub directives: u64,
}

const UMAX: u128 = usize::MAX as u128;

struct Meter<'a> {
    ts: &'a TypeSystem,
    rules: &'a Rules,
    doc: &'a Doc,
    op: &'a Op,
    vars: &'a J,
    /// how fields with a declared rule were reached / fed (evidence)
    via: BTreeSet<String>,
    rules_applied: u64,
    /// generator features (in the sense of `run.feature`) this document's complexity depends on
    needs: BTreeSet<&'static str>,
}

/// Where a selection set sits: innermost enclosing construct and whether a
/// named fragment was entered from a selection set of a different type.
#[derive(Clone, Copy, Default)]
struct Ctx {
    named: bool,
    named_other_type: bool,
    inline_typed: bool,
    inline_untyped: bool,
    nested_fragments: bool,
    /// below a named fragment that was spread in a selection set of another
    /// type, with no type-conditioned inline fragment in between
    below_foreign_spread: bool,
}

impl<'a> Meter<'a> {
    fn frag(&self, name: &str) -> Result<&'a Frag, String> {
        self.doc.frag(name).ok_or_else(|| format!("unknown fragment {name}"))
    }

    /// depth: 0 for a selection set without fields, else 1 + the deepest field; `__typename` is not entered.
    fn depth(&self, sels: &'a [Sel]) -> Result<u64, String> {
        let mut m = 0;
        for s in sels {
            let d = match s {
                Sel::Field(f) if f.name == "__typename" => 0,
                Sel::Field(f) => 1 + self.depth(&f.sel)?,
                Sel::Inline { sel, .. } => self.depth(sel)?,
                Sel::Spread { name, .. } => self.depth(&self.frag(name)?.sel)?,
            };
            m = m.max(d);
        }
        Ok(m)
    }

    /// nesting: the operation's selection set is level 0; the selection set of a
    /// field, of an inline fragment and of a spread fragment is one level further in.
    fn nesting(&self, sels: &'a [Sel], level: u64) -> Result<u64, String> {
        let mut m = level;
        for s in sels {
            let d = match s {
                Sel::Field(f) if f.sel.is_empty() => level,
                Sel::Field(f) => self.nesting(&f.sel, level + 1)?,
                Sel::Inline { sel, .. } => self.nesting(sel, level + 1)?,
                Sel::Spread { name, .. } => self.nesting(&self.frag(name)?.sel, level + 1)?,
            };
            m = m.max(d);
        }
        Ok(m)
    }

    /// largest number of directives written on one field (fields of spread fragments included)
    fn directives(&self, sels: &'a [Sel]) -> Result<u64, String> {
        let mut m = 0;
        for s in sels {
            let d = match s {
                Sel::Field(f) => (f.dirs.len() as u64).max(self.directives(&f.sel)?),
                Sel::Inline { sel, .. } => self.directives(sel)?,
                Sel::Spread { name, .. } => self.directives(&self.frag(name)?.sel)?,
            };
            m = m.max(d);
        }
        Ok(m)
    }

    fn int_arg(&mut self, parent: &str, f: &FieldSel, arg: &str) -> Result<Option<i64>, String> {
        let nonnull = self
            .ts
            .field(parent, &f.name)
            .and_then(|fd| fd.arg(arg))
            .map(|a| a.ty.is_nonnull())
            .ok_or_else(|| format!("model has no argument {parent}.{}({arg})", f.name))?;
        let (v, how): (Option<i64>, &str) = match f.args.iter().find(|(k, _)| k == arg).map(|(_, v)| v) {
            None => (None, "argument_omitted"),
            Some(Val::Int(i)) => (Some(*i), "literal"),
            Some(Val::Null) => (None, "null_literal"),
            Some(Val::Var(v)) => match self.vars.get(v) {
                Some(J::Null) => (None, "variable_null"),
                Some(J::Number(n)) if n.as_i64().is_some() => (n.as_i64(), "variable_supplied"),
                Some(other) => return Err(format!("variable ${v} = {other} is not an Int")),
                None => match self.op.vars.iter().find(|d| &d.name == v) {
                    None => return Err(format!("variable ${v} is not defined")),
                    Some(d) => match &d.default {
                        Some(Val::Int(i)) => (Some(*i), "variable_default"),
                        Some(Val::Null) => (None, "variable_default_null"),
                        Some(other) => return Err(format!("default of ${v} = {} is not an Int", other.gql())),
                        None => (None, "variable_omitted_without_default"),
                    },
                },
            },
            Some(other) => return Err(format!("argument {arg} = {} is not modelled", other.gql())),
        };
        if nonnull && matches!(how, "null_literal" | "variable_null" | "variable_default_null") {
            return Err(format!("null for non-null argument {arg}"));
        }
        self.via.insert(format!("arg:{how}"));
        if how == "variable_omitted_without_default" {
            self.needs.insert(F_OMITTED_VAR);
        }
        Ok(v)
    }

    /// complexity of a selection set whose static type is `parent`
    fn complexity(&mut self, sels: &'a [Sel], parent: &str, cx: Ctx) -> Result<u128, String> {
        let mut sum: u128 = 0;
        for s in sels {
            sum += match s {
                Sel::Field(f) if f.name == "__typename" => 0,
                Sel::Field(f) => {
                    let fd = self
                        .ts
                        .field(parent, &f.name)
                        .ok_or_else(|| format!("model has no field {parent}.{}", f.name))?;
                    let child_ty = fd.ty.name().to_string();
                    let below = Ctx { below_foreign_spread: cx.below_foreign_spread, ..Ctx::default() };
                    let child = self.complexity(&f.sel, &child_ty, below)?;
                    if 1 + child > UMAX {
                        self.needs.insert(F_ABOVE_USIZE);
                    }
                    match self.rules.get(&(parent.to_string(), f.name.clone())).copied() {
                        None => 1 + child,
                        Some(rule) => {
                            self.rules_applied += 1;
                            if cx.below_foreign_spread {
                                self.needs.insert(F_FOREIGN_SPREAD);
                            }
                            self.via.insert("reached:any".into());
                            if cx.named {
                                self.via.insert("reached:named_fragment".into());
                            }
                            if cx.named_other_type {
                                self.via.insert("reached:named_fragment_spread_in_other_type".into());
                            }
                            if cx.inline_typed {
                                self.via.insert("reached:inline_fragment_typed".into());
                            }
                            if cx.inline_untyped {
                                self.via.insert("reached:inline_fragment_untyped".into());
                            }
                            if cx.nested_fragments {
                                self.via.insert("reached:nested_fragments".into());
                            }
                            if f.alias.is_some() {
                                self.via.insert("reached:aliased".into());
                            }
                            let c = child.min(UMAX);
                            match rule {
                                Rule::Const(n) => n as u128,
                                Rule::Mul { arg, absent, add } => {
                                    let a = self.int_arg(parent, f, arg)?.unwrap_or(absent).max(0) as u128;
                                    ((a * c).min(UMAX) + add as u128).min(UMAX)
                                }
                                Rule::ChildMul(k) => (c * k as u128).min(UMAX),
                                Rule::Add { arg, absent } => {
                                    let a = self.int_arg(parent, f, arg)?.unwrap_or(absent).max(0) as u128;
                                    (a + c).min(UMAX)
                                }
                            }
                        }
                    }
                }
                Sel::Inline { cond, sel, .. } => {
                    let mut c2 = cx;
                    if cx.named || cx.inline_typed || cx.inline_untyped {
                        c2.nested_fragments = true;
                    }
                    if cond.is_some() {
                        c2.inline_typed = true;
                        c2.below_foreign_spread = false;
                    } else {
                        c2.inline_untyped = true;
                    }
                    let t = cond.clone().unwrap_or_else(|| parent.to_string());
                    self.complexity(sel, &t, c2)?
                }
                Sel::Spread { name, .. } => {
                    let fr = self.frag(name)?;
                    let mut c2 = cx;
                    if cx.named || cx.inline_typed || cx.inline_untyped {
                        c2.nested_fragments = true;
                    }
                    c2.named = true;
                    if fr.cond != parent {
                        c2.named_other_type = true;
                        c2.below_foreign_spread = true;
                    }
                    self.complexity(&fr.sel, &fr.cond, c2)?
                }
            };
            if sum > UMAX {
                self.needs.insert(F_ABOVE_USIZE);
            }
        }
        Ok(sum)
    }
}

/// Generator features that known findings of this property may exclude.
const F_FOREIGN_SPREAD: &str = "rule_below_spread_in_other_type";
const F_OMITTED_VAR: &str = "rule_arg_omitted_variable";
const F_ABOVE_USIZE: &str = "complexity_above_usize_max";

struct Measured {
    m: Measures,
    via: BTreeSet<String>,
    rules_applied: u64,
    needs: BTreeSet<&'static str>,
}

fn measure(ts: &TypeSystem, rules: &Rules, doc: &Doc, vars: &J) -> Result<Measured, String> {
    if doc.ops.len() != 1 {
        return Err("not a single-operation document".into());
    }
    let op = &doc.ops[0];
    let root = match op.kind {
        OpKind::Query => ts.query.clone(),
        OpKind::Mutation => ts.mutation.clone().ok_or("no mutation type")?,
        OpKind::Subscription => return Err("subscriptions are not part of this workload".into()),
    };
    let mut mt = Meter { ts, rules, doc, op, vars, via: BTreeSet::new(), rules_applied: 0, needs: BTreeSet::new() };
    let depth = mt.depth(&op.sel)?;
    let nesting = mt.nesting(&op.sel, 0)?;
    let directives = mt.directives(&op.sel)?;
    let complexity = mt.complexity(&op.sel, &root, Ctx::default())?;
    Ok(Measured { m: Measures { depth, complexity, nesting, directives }, via: mt.via, rules_applied: mt.rules_applied, needs: mt.needs })
}

// ================================================================= schemas under limits

#[derive(Clone, Copy, Debug, Default, PartialEq, Eq, Hash)]
pub struct Limits {
    pub depth: Option<usize>,
    pub complexity: Option<usize>,
    pub recursion: Option<usize>,
    pub directives: Option<usize>,
}

impl Limits {
    fn json(&self) -> J {
        json!({"depth": self.depth, "complexity": self.complexity, "recursive_depth": self.recursion, "directives": self.directives})
    }
}

#[derive(Clone, Copy, Debug, PartialEq, Eq, Hash)]
pub enum Flavour {
    S1,
    S10,
    Dyn,
}

impl Flavour {
    fn name(&self) -> &'static str {
        match self {
            Flavour::S1 => "static-S1",
            Flavour::S10 => "static-S10",
            Flavour::Dyn => "dynamic",
        }
    }
    /// evidence bucket
    fn group(&self) -> &'static str {
        match self {
            Flavour::S1 | Flavour::S10 => "static",
            Flavour::Dyn => "dynamic",
        }
    }
    fn parse(s: &str) -> Option<Flavour> {
        Some(match s {
            "static-S1" => Flavour::S1,
            "static-S10" => Flavour::S10,
            "dynamic" => Flavour::Dyn,
            _ => return None,
        })
    }
}

#[derive(Clone)]
enum Sch {
    S1(s1::S1Schema),
    S10(s10::Schema10),
    Dyn(async_graphql::dynamic::Schema),
}

impl Sch {
    fn execute(&self, req: Request) -> Response {
        match self {
            Sch::S1(s) => vh_core::vsched::block_on(s.execute(req)),
            Sch::S10(s) => vh_core::vsched::block_on(s.execute(req)),
            Sch::Dyn(s) => vh_core::vsched::block_on(s.execute(req)),
        }
    }
    /// The first response of `execute_stream` (the only one, for a query or mutation).
    fn execute_stream_first(&self, req: Request) -> Option<Response> {
        use futures_util::StreamExt;
        match self {
            Sch::S1(s) => vh_core::vsched::block_on(async { s.execute_stream(req).next().await }),
            Sch::S10(s) => vh_core::vsched::block_on(async { s.execute_stream(req).next().await }),
            Sch::Dyn(s) => vh_core::vsched::block_on(async { s.execute_stream(req).next().await }),
        }
    }
}

macro_rules! with_limits {
    ($b:expr, $lim:expr, $fast:expr) => {{
        let mut b = $b;
        if $fast {
            b = b.validation_mode(ValidationMode::Fast);
        }
        if let Some(v) = $lim.depth {
            b = b.limit_depth(v);
        }
        if let Some(v) = $lim.complexity {
            b = b.limit_complexity(v);
        }
        if let Some(v) = $lim.recursion {
            b = b.limit_recursive_depth(v);
        }
        if let Some(v) = $lim.directives {
            b = b.limit_directives(v);
        }
        b
    }};
}

fn build(fl: Flavour, ts: &TypeSystem, lim: &Limits, fast: bool) -> Result<Sch, String> {
    match fl {
        Flavour::S1 => Ok(Sch::S1(with_limits!(s1::builder(), lim, fast).finish())),
        Flavour::S10 => Ok(Sch::S10(with_limits!(s10::builder(), lim, fast).finish())),
        Flavour::Dyn => with_limits!(dynb::builder(ts), lim, fast).finish().map(Sch::Dyn).map_err(|e| e.to_string()),
    }
}

/// Per-shard state: built static schemas and a local tally of what the monitor
/// observed (flushed into the shared `Run` once per shard, so that shards do
/// not serialise on its lock).
#[derive(Default)]
struct Cache {
    m: HashMap<(Flavour, Limits, bool), Sch>,
    t: Tally,
    sampling: bool,
}

#[derive(Default)]
struct Tally {
    evals: u64,
    counts: HashMap<String, u64>,
    sets: BTreeSet<(String, String)>,
    distinct: Vec<u64>,
    sampled: HashMap<Flavour, usize>,
}

impl Tally {
    fn eval(&mut self) {
        self.evals += 1;
    }
    fn count(&mut self, k: &str, n: u64) {
        match self.counts.get_mut(k) {
            Some(v) => *v += n,
            None => {
                self.counts.insert(k.to_string(), n);
            }
        }
    }
    fn seen(&mut self, set: &str, member: &str) {
        if !self.sets.iter().any(|(a, b)| a == set && b == member) {
            self.sets.insert((set.to_string(), member.to_string()));
        }
    }
    /// number of samples taken so far for this flavour (and count one more)
    fn per_flavour(&mut self, fl: Flavour) -> usize {
        let e = self.sampled.entry(fl).or_insert(0);
        *e += 1;
        *e - 1
    }
    fn flush(&mut self, run: &Run) {
        run.evals(self.evals);
        for (k, v) in self.counts.drain() {
            run.count(&k, v);
        }
        for (a, b) in std::mem::take(&mut self.sets) {
            run.seen(&a, &b);
        }
        for h in self.distinct.drain(..) {
            run.nontrivial(h);
        }
        self.evals = 0;
    }
}

impl Cache {
    fn get(&mut self, fl: Flavour, ts: &TypeSystem, lim: &Limits, fast: bool) -> Result<Sch, String> {
        if fl == Flavour::Dyn {
            return build(fl, ts, lim, fast);
        }
        if let Some(s) = self.m.get(&(fl, *lim, fast)) {
            return Ok(s.clone());
        }
        let s = build(fl, ts, lim, fast)?;
        if self.m.len() < 256 {
            self.m.insert((fl, *lim, fast), s.clone());
        }
        Ok(s)
    }
}

// ================================================================= workload

/// Static model pieces shared by every shard.
struct Statics {
    s1_full: Arc<TypeSystem>,
    /// S1 with a Query type reduced to `page` and the fields that return composite
    /// types, so that the one rule S1 declares is reached in a large share of documents
    s1_page: Arc<TypeSystem>,
    s1_rules: Rules,
    s10: Arc<TypeSystem>,
    s10_rules: Rules,
    no_rules: Rules,
}

impl Statics {
    fn new() -> Statics {
        let s1_full = s1::model();
        let mut page = (*s1_full).clone();
        if let Some(TypeDef { kind: Kind::Object { fields, .. }, .. }) = page.types.iter_mut().find(|t| t.name == "Query") {
            fields.retain(|f| matches!(f.name.as_str(), "page" | "dog" | "dogs" | "pet" | "named" | "people"));
        }
        page.mutation = None;
        page.subscription = None;
        Statics {
            s1_full,
            s1_page: Arc::new(page),
            s1_rules: s1_rules(),
            s10: s10::model(),
            s10_rules: rules_of(s10::rules()),
            no_rules: Rules::new(),
        }
    }
}

/// Harness self-check: a declared rule must not sit on a field an interface of
/// its type also declares (which rule applies to a selection on the interface
/// would be undefined).
fn rules_are_unambiguous(ts: &TypeSystem, rules: &Rules) -> Result<(), String> {
    for (t, f) in rules.keys() {
        ts.field(t, f).ok_or_else(|| format!("rule on unknown field {t}.{f}"))?;
        for i in ts.implements_closure(t) {
            if ts.field(&i, f).is_some() {
                return Err(format!("rule on {t}.{f}, which interface {i} also declares"));
            }
        }
    }
    Ok(())
}

/// Directives that never remove a selection: `@skip(if: false)`, `@include(if: true)`
/// (literal, supplied variable, or omitted variable with that default), and on
/// S10 the two no-op custom field directives.
struct Decor<'a> {
    r: &'a mut Rng,
    new_vars: Vec<VarDef>,
    new_vals: Vec<(String, J)>,
    var_default: bool,
    custom: bool,
    n: usize,
    /// The library's validation does not visit `__typename` selections, so a
    /// variable used only there is reported as unused (a matter of C09, not of
    /// the limits): directives on `__typename` take literals only.
    literal_only: bool,
}

impl Decor<'_> {
    fn bool_dir(&mut self, name: &str, value: bool) -> Dir {
        let v = match if self.literal_only { 3 } else { self.r.below(4) } {
            0 => {
                let n = format!("c{}", self.n);
                self.n += 1;
                self.new_vars.push(VarDef { name: n.clone(), ty: Ty::named("Boolean").nn(), default: None });
                self.new_vals.push((n.clone(), J::from(value)));
                Val::Var(n)
            }
            1 if self.var_default => {
                let n = format!("c{}", self.n);
                self.n += 1;
                let ty = if self.r.bool() { Ty::named("Boolean") } else { Ty::named("Boolean").nn() };
                self.new_vars.push(VarDef { name: n.clone(), ty, default: Some(Val::Bool(value)) });
                Val::Var(n)
            }
            _ => Val::Bool(value),
        };
        Dir { name: name.to_string(), args: vec![("if".into(), v)] }
    }

    fn dirs(&mut self, max: usize, on_field: bool) -> Vec<Dir> {
        let k = self.r.below(max + 1);
        let mut pool: Vec<&str> = vec!["skip", "include"];
        if self.custom && on_field {
            pool.push("tagA");
            pool.push("tagB");
        }
        self.r.shuffle(&mut pool);
        pool.truncate(k);
        pool.into_iter()
            .map(|n| match n {
                "skip" => self.bool_dir("skip", false),
                "include" => self.bool_dir("include", true),
                "tagA" => Dir { name: "tagA".into(), args: vec![] },
                _ => Dir {
                    name: "tagB".into(),
                    args: if self.r.bool() { vec![("n".into(), Val::Int(self.r.below(9) as i64))] } else { vec![] },
                },
            })
            .collect()
    }

    fn walk(&mut self, sels: &mut [Sel], p_field: u32) {
        for s in sels {
            match s {
                Sel::Field(f) => {
                    if self.r.chance(p_field, 8) {
                        self.literal_only = f.name == "__typename";
                        f.dirs = self.dirs(if self.custom { 4 } else { 2 }, true);
                        self.literal_only = false;
                    }
                    self.walk(&mut f.sel, p_field);
                }
                Sel::Inline { dirs, sel, .. } => {
                    if self.r.chance(1, 5) {
                        *dirs = self.dirs(2, false);
                    }
                    self.walk(sel, p_field);
                }
                Sel::Spread { dirs, .. } => {
                    if self.r.chance(1, 5) {
                        *dirs = self.dirs(2, false);
                    }
                }
            }
        }
    }
}

fn decorate(gd: &mut GenDoc, r: &mut Rng, var_default: bool, custom: bool) {
    let p_field = [0, 1, 2, 4][r.below(4)];
    let mut d = Decor { r, new_vars: vec![], new_vals: vec![], var_default, custom, n: 0, literal_only: false };
    let mut doc = std::mem::take(&mut gd.doc);
    for op in &mut doc.ops {
        d.walk(&mut op.sel, p_field);
    }
    for fr in &mut doc.frags {
        d.walk(&mut fr.sel, p_field);
    }
    doc.ops[0].vars.extend(d.new_vars);
    if let J::Object(m) = &mut gd.vars {
        for (k, v) in d.new_vals {
            m.insert(k, v);
        }
    }
    gd.doc = doc;
}

struct Prepared {
    flavour: Flavour,
    /// model the document was generated from and is measured against
    ts: Arc<TypeSystem>,
    /// model handed to the resolvers
    env_ts: Arc<TypeSystem>,
    gd: GenDoc,
    text: String,
    world: World,
    fast: bool,
    /// execute through `Schema::execute_stream` (first response) instead of `Schema::execute`
    via_stream: bool,
    case_seed: u64,
}

fn prepare(run: &Run, st: &Statics, fl: Flavour, case_seed: u64) -> Prepared {
    let mut r = Rng::new(case_seed);
    let (ts, env_ts) = match fl {
        Flavour::S1 => {
            if r.chance(3, 5) { (st.s1_page.clone(), st.s1_full.clone()) } else { (st.s1_full.clone(), st.s1_full.clone()) }
        }
        Flavour::S10 => (st.s10.clone(), st.s10.clone()),
        Flavour::Dyn => {
            let t = Arc::new(gen_type_system(&mut r, &ts_opts(run)));
            (t.clone(), t)
        }
    };
    let mut o = doc_opts(run);
    o.directives = false; // replaced by directives that never prune, see `decorate`
    o.extra_operations = false; // single-operation documents only
    o.max_depth = 1 + r.below(5) as u32;
    o.max_items = 1 + r.below(4);
    o.kind = if ts.mutation.is_some() && r.chance(1, 8) { OpKind::Mutation } else { OpKind::Query };
    let mut gd = gen_doc(&ts, &mut r, &o);
    decorate(&mut gd, &mut r, run.feature("directive_var_default"), fl == Flavour::S10);
    let text = print(&gd.doc, r.bool()).text;
    let world = match fl {
        Flavour::Dyn => world_for("dynamic", r.next_u64()),
        _ => world_for("static", r.next_u64()),
    };
    let fast = r.chance(1, 3);
    // A dynamic schema without subscription root answers every execute_stream
    // call with "Subscription root not found" (src/dynamic/schema.rs), queries
    // included; that is no matter of the limits, so dynamic cases use execute.
    let via_stream = r.chance(1, 4) && fl != Flavour::Dyn;
    Prepared { flavour: fl, ts, env_ts, gd, text, world, fast, via_stream, case_seed }
}

// ================================================================= the monitor

#[derive(Debug, Clone, PartialEq)]
enum Seen {
    /// errors, no data, no resolver event
    Rejected,
    /// at least one resolver ran, or data was produced
    Executed,
    /// neither of the two
    Odd(String),
}

struct Outcome {
    seen: Seen,
    starts: usize,
    errors: Vec<String>,
    data_null: bool,
}

fn observe(p: &Prepared, schema: &Sch) -> Result<Outcome, String> {
    let env = Env::new(p.env_ts.clone(), p.world.clone());
    let mut req = Request::new(p.text.clone()).variables(Variables::from_json(p.gd.vars.clone())).data(env.clone());
    if let Some(n) = &p.gd.op_name {
        req = req.operation_name(n.clone());
    }
    let resp = if p.via_stream {
        match catch(|| schema.execute_stream_first(req))? {
            Some(r) => r,
            None => return Ok(Outcome { seen: Seen::Odd("execute_stream yielded no response".into()), starts: 0, errors: vec![], data_null: true }),
        }
    } else {
        catch(|| schema.execute(req))?
    };
    let ev = env.log.snapshot();
    let starts = ev.iter().filter(|e| e.kind == Ek::Start).count();
    let data_null = resp.data == async_graphql::Value::Null;
    let errors: Vec<String> = resp.errors.iter().map(|e| e.message.clone()).collect();
    let seen = if starts == 0 && data_null && !errors.is_empty() {
        Seen::Rejected
    } else if starts > 0 || !data_null {
        Seen::Executed
    } else {
        Seen::Odd("no data, no errors, no resolver event".into())
    };
    Ok(Outcome { seen, starts, errors, data_null })
}

struct Config {
    kind: &'static str,
    delta: &'static str,
    lim: Limits,
    expect_reject: bool,
}

fn configs(m: &Measures, r: &mut Rng) -> Vec<Config> {
    let mut out = vec![Config { kind: "none", delta: "-", lim: Limits::default(), expect_reject: false }];
    let deltas: [(&'static str, i64); 3] = [("m-1", -1), ("m", 0), ("m+1", 1)];
    let small = |v: u64, d: i64| -> Option<usize> {
        let x = v as i128 + d as i128;
        if x < 0 { None } else { Some(x as usize) }
    };
    for (label, d) in deltas {
        if let Some(l) = small(m.depth, d) {
            out.push(Config { kind: "depth", delta: label, lim: Limits { depth: Some(l), ..Default::default() }, expect_reject: m.depth > l as u64 });
        }
        if let Some(l) = small(m.nesting, d) {
            out.push(Config {
                kind: "recursion",
                delta: label,
                lim: Limits { recursion: Some(l), ..Default::default() },
                expect_reject: m.nesting > l as u64,
            });
        }
        if let Some(l) = small(m.directives, d) {
            out.push(Config {
                kind: "directives",
                delta: label,
                lim: Limits { directives: Some(l), ..Default::default() },
                expect_reject: m.directives > l as u64,
            });
        }
        let c = m.complexity as i128 + d as i128;
        if c >= 0 && c <= UMAX as i128 {
            out.push(Config {
                kind: "complexity",
                delta: label,
                lim: Limits { complexity: Some(c as usize), ..Default::default() },
                expect_reject: m.complexity > c as u128,
            });
        }
    }
    if m.complexity > UMAX {
        // Beyond every configurable value. Whether a complexity that no longer fits
        // usize "exceeds" a limit of exactly usize::MAX is left open (a saturating
        // sum would say it does not), so the limit is set one below.
        out.push(Config {
            kind: "complexity",
            delta: "usize::MAX-1",
            lim: Limits { complexity: Some(usize::MAX - 1), ..Default::default() },
            expect_reject: true,
        });
    }
    if m.complexity <= UMAX {
        let all = Limits {
            depth: Some(m.depth as usize),
            complexity: Some(m.complexity as usize),
            recursion: Some(m.nesting as usize),
            directives: Some(m.directives as usize),
        };
        out.push(Config { kind: "all", delta: "m", lim: all, expect_reject: false });
        // all four at m except one at m-1
        let mut one = all;
        let which = r.below(4);
        let ok = match which {
            0 if m.depth > 0 => {
                one.depth = Some(m.depth as usize - 1);
                true
            }
            1 if m.complexity > 0 => {
                one.complexity = Some(m.complexity as usize - 1);
                true
            }
            2 if m.nesting > 0 => {
                one.recursion = Some(m.nesting as usize - 1);
                true
            }
            3 if m.directives > 0 => {
                one.directives = Some(m.directives as usize - 1);
                true
            }
            _ => false,
        };
        if ok {
            out.push(Config { kind: "all", delta: "one-at-m-1", lim: one, expect_reject: true });
        }
    }
    out
}

fn measures_json(m: &Measures) -> J {
    json!({"depth": m.depth, "complexity": m.complexity.to_string(), "nesting": m.nesting, "directives": m.directives})
}

/// Run every configuration of one prepared case. Returns the number of executions.
fn check(run: &Run, cache: &mut Cache, p: &Prepared, md: &Measured, tag: &str, verbose: bool) {
    let mut r = Rng::new(rng::mix(&[p.case_seed, 0xc10]));
    let m = &md.m;
    let group = p.flavour.group();
    for c in configs(m, &mut r) {
        let schema = match catch(|| cache.get(p.flavour, &p.ts, &c.lim, p.fast)) {
            Ok(Ok(s)) => s,
            Ok(Err(e)) => {
                cache.t.count("schema_build_failed", 1);
                run.sample_upto(8, json!({"schema_build_failed": e, "sdl": p.ts.sdl()}));
                return;
            }
            Err(pn) => {
                run.violation(
                    &format!("{tag}-build-panic:{:x}", rng::hash_str(&p.ts.sdl())),
                    &format!("building the schema panicked: {pn}"),
                    json!({"flavour": p.flavour.name(), "case_seed": p.case_seed, "schema_sdl": p.ts.sdl(), "limits": c.lim.json()}),
                );
                return;
            }
        };
        let replay = |observed: J| {
            json!({
                "flavour": p.flavour.name(),
                "case_seed": p.case_seed,
                "schema_sdl": p.ts.sdl(),
                "document": p.text,
                "operation_name": p.gd.op_name,
                "variables": p.gd.vars,
                "world_seed": p.world.seed,
                "validation_mode": if p.fast { "Fast" } else { "Strict" },
                "executed_through": if p.via_stream { "Schema::execute_stream" } else { "Schema::execute" },
                "limit_kind": c.kind,
                "limit_at": c.delta,
                "limits": c.lim.json(),
                "reference_measures": measures_json(m),
                "expected": if c.expect_reject { "rejected before any resolver runs" } else { "executes" },
                "observed": observed,
            })
        };
        let sig = format!(
            "{tag}:{:x}",
            rng::mix(&[
                rng::hash_str(p.flavour.name()),
                rng::hash_str(&p.ts.sdl()),
                rng::hash_str(&p.text),
                rng::hash_str(&p.gd.vars.to_string()),
                rng::hash_str(&format!("{:?}{}", c.lim, p.fast)),
            ])
        );
        let out = match observe(p, &schema) {
            Ok(o) => o,
            Err(pn) => {
                cache.t.eval();
                cache.t.count("panics", 1);
                run.violation(
                    &sig,
                    &format!(
                        "{} {} limit {:?}: request checking panicked: {pn} | measures {:?} | doc: {}",
                        p.flavour.name(),
                        c.kind,
                        c.lim,
                        m,
                        p.text
                    ),
                    replay(json!({"panic": pn})),
                );
                continue;
            }
        };
        cache.t.eval();
        cache.t.count("resolver_start_events", out.starts as u64);
        cache.t.count(if p.via_stream { "executions_through_execute_stream" } else { "executions_through_execute" }, 1);
        let verdict = match &out.seen {
            Seen::Rejected => "rejected",
            Seen::Executed => "accepted",
            Seen::Odd(_) => "odd",
        };
        cache.t.count(&format!("{group}.{}.{}.{verdict}", c.kind, c.delta), 1);
        cache.t.count(&format!("{}.{verdict}", c.kind), 1);
        if verbose {
            println!(
                "  {:<10} {:<10} {:?} fast={} expect={} observed={verdict} starts={} errors={:?}",
                c.kind,
                c.delta,
                c.lim,
                p.fast,
                if c.expect_reject { "rejected" } else { "accepted" },
                out.starts,
                out.errors
            );
        }
        let ok = match (&out.seen, c.expect_reject) {
            (Seen::Rejected, true) | (Seen::Executed, false) => true,
            _ => false,
        };
        if !ok {
            let obs = json!({"verdict": verdict, "resolver_start_events": out.starts, "errors": out.errors, "data_is_null": out.data_null});
            let what = format!(
                "{} ({}), limit {} at {} {:?}: expected {} but observed {verdict} (resolver starts {}, errors {:?}) | reference measures {:?} | vars {} | doc: {}",
                p.flavour.name(),
                if p.fast { "Fast" } else { "Strict" },
                c.kind,
                c.delta,
                c.lim,
                if c.expect_reject { "rejection before any resolver runs" } else { "execution" },
                out.starts,
                out.errors,
                m,
                p.gd.vars,
                p.text
            );
            run.violation(&sig, &what, replay(obs));
        }
    }
}

fn one_generated(run: &Run, st: &Statics, cache: &mut Cache, fl: Flavour, case_seed: u64, verbose: bool) {
    let p = prepare(run, st, fl, case_seed);
    let rules = match fl {
        Flavour::S1 => &st.s1_rules,
        Flavour::S10 => &st.s10_rules,
        Flavour::Dyn => &st.no_rules,
    };
    let md = match measure(&p.ts, rules, &p.gd.doc, &p.gd.vars) {
        Ok(m) => m,
        Err(e) => {
            cache.t.count("skipped_not_measurable", 1);
            cache.t.seen("skipped_reason", &vh_core::run::truncate(&e, 60));
            return;
        }
    };
    if md.m.nesting + 1 > 32 {
        // other limits are tested under the default recursive-depth limit of 32
        cache.t.count("skipped_nesting_above_default", 1);
        return;
    }
    for f in &md.needs {
        cache.t.seen("finding_prone_features_generated", f);
        if !run.feature(f) {
            if verbose {
                // an explicit replay runs the case even though a known finding excludes it from the workload
                println!("note: this document needs generator feature {f}, which a known finding excludes from the workload; running it anyway");
                continue;
            }
            cache.t.count(&format!("skipped_excluded_feature.{f}"), 1);
            return;
        }
    }
    if verbose {
        println!("flavour: {}\nschema:\n{}document: {}\nvariables: {}\nmeasures: {:?}", fl.name(), p.ts.sdl(), p.text, p.gd.vars, md.m);
    }
    let h = rng::mix(&[rng::hash_str(fl.name()), rng::hash_str(&p.ts.sdl()), rng::hash_str(&p.text), rng::hash_str(&p.gd.vars.to_string())]);
    // non-trivial: fragments, directives, aliases, variables or a declared rule take part in the measures
    if !p.gd.features.is_empty() || md.m.directives > 0 || md.rules_applied > 0 {
        cache.t.distinct.push(h);
    }
    for f in &p.gd.features {
        cache.t.seen("document_features", f);
    }
    for v in &md.via {
        cache.t.seen(&format!("{}_custom_rule", fl.group()), v);
    }
    cache.t.count(&format!("{}.documents", fl.name()), 1);
    if md.rules_applied > 0 {
        cache.t.count("documents_with_declared_rule", 1);
        cache.t.count("declared_rule_applications", md.rules_applied);
    }
    cache.t.seen("depth_values", &md.m.depth.min(12).to_string());
    cache.t.seen("nesting_values", &md.m.nesting.min(16).to_string());
    cache.t.seen("directive_values", &md.m.directives.to_string());
    // samples: the first two documents of each flavour that shard 0 sees
    if cache.sampling && cache.t.per_flavour(fl) < 2 {
        run.sample(json!({
        "flavour": fl.name(),
        "document": p.text,
        "variables": p.gd.vars,
        "validation_mode": if p.fast { "Fast" } else { "Strict" },
        "executed_through": if p.via_stream { "Schema::execute_stream" } else { "Schema::execute" },
        "reference_measures": measures_json(&md.m),
        }));
    }
    check(run, cache, &p, &md, "C10", verbose);
}

// ================================================================= calibration documents

/// Tiny documents whose four measures are written down by hand (from the
/// doc comments of the limit_* builder methods, the property text and the
/// library's own unit tests of the depth / complexity visitors). They pin the
/// conventions of the reference: a disagreement between these numbers and R3
/// is a harness error (inconclusive), a disagreement with the library shows up
/// as a violation of the m−1 / m / m+1 configurations run on them.
struct Calib {
    fl: Flavour,
    text: &'static str,
    vars: J,
    depth: u64,
    complexity: u128,
    nesting: u64,
    directives: u64,
}

fn calibrations() -> Vec<Calib> {
    let c = |fl, text, vars, depth, complexity, nesting, directives| Calib { fl, text, vars, depth, complexity, nesting, directives };
    vec![
        c(Flavour::S1, "{ pets { __typename } }", json!({}), 1, 1, 1, 0),
        c(Flavour::S1, "{ dog { name } }", json!({}), 2, 2, 1, 0),
        c(Flavour::S1, "{ dog { name mate { name bark } } dogs { id } }", json!({}), 3, 7, 2, 0),
        c(Flavour::S1, "{ page { name } }", json!({}), 2, 7, 1, 0),
        c(Flavour::S1, "{ page(count: 3) { name bark } }", json!({}), 2, 8, 1, 0),
        c(Flavour::S1, "query($n: Int! = 4) { page(count: $n) { name } }", json!({}), 2, 6, 1, 0),
        c(Flavour::S1, "query($n: Int! = 4) { page(count: $n) { name } }", json!({"n": 2}), 2, 4, 1, 0),
        c(Flavour::S1, "{ dog { ...F } } fragment F on Dog { owner { name } }", json!({}), 3, 3, 3, 0),
        c(Flavour::S1, "{ dog { name @skip(if: false) @include(if: true) id @include(if: true) } }", json!({}), 2, 3, 1, 2),
        c(Flavour::S1, "{ ... on Query { ... { dog { id } } } }", json!({}), 2, 2, 3, 0),
        c(Flavour::S1, "{ ...Q } fragment Q on Query { a: page(count: 2) { name } b: page(count: 0) { name } }", json!({}), 2, 6, 2, 0),
        c(Flavour::S10, "{ shelf { cost label } }", json!({}), 2, 9, 1, 0),
        c(Flavour::S10, "{ shelf { books(count: 2) { title } } }", json!({}), 3, 5, 2, 0),
        c(Flavour::S10, "{ shelf { ... on Shelf { books(count: 2) { title } } } }", json!({}), 3, 5, 3, 0),
        c(Flavour::S10, "{ shelf { parent { label id } } }", json!({}), 3, 5, 2, 0),
        c(Flavour::S10, "{ shelves { books { pages { n } } } }", json!({}), 4, 172, 3, 0),
        c(Flavour::S10, "{ shelf { books(count: 1) { meta { words rating plain derived(k: 4) more } } } }", json!({}), 4, 13, 3, 0),
        c(Flavour::S10, "{ version @tagA @tagB(n: 1) @skip(if: false) }", json!({}), 1, 0, 0, 3),
    ]
}


// ----------------------------------------------------------------- a small parser for hand-written documents
//
// Calibration documents and witnesses are written as text. They are parsed into
// the harness AST here (a subset of the grammar: no descriptions, no block
// strings, no escapes), re-printed by the harness printer, and the re-printed
// text is what is sent — so the text executed is the AST measured.

mod mini {
    use vh_model::doc::*;
    use vh_model::types::{Ty, Val};

    #[derive(Clone, Debug, PartialEq)]
    enum T {
        P(char),
        Spread,
        Name(String),
        Int(i64),
        Str(String),
    }

    fn lex(s: &str) -> Result<Vec<T>, String> {
        let c: Vec<char> = s.chars().collect();
        let mut i = 0;
        let mut out = vec![];
        while i < c.len() {
            let ch = c[i];
            if ch.is_whitespace() || ch == ',' {
                i += 1;
            } else if ch == '.' {
                if c.get(i + 1) == Some(&'.') && c.get(i + 2) == Some(&'.') {
                    out.push(T::Spread);
                    i += 3;
                } else {
                    return Err("stray '.'".into());
                }
            } else if "{}()[]:!=@$".contains(ch) {
                out.push(T::P(ch));
                i += 1;
            } else if ch == '"' {
                let mut j = i + 1;
                let mut t = String::new();
                while j < c.len() && c[j] != '"' {
                    t.push(c[j]);
                    j += 1;
                }
                out.push(T::Str(t));
                i = j + 1;
            } else if ch == '-' || ch.is_ascii_digit() {
                let mut j = i + 1;
                while j < c.len() && c[j].is_ascii_digit() {
                    j += 1;
                }
                let t: String = c[i..j].iter().collect();
                out.push(T::Int(t.parse().map_err(|_| format!("bad int {t}"))?));
                i = j;
            } else if ch == '_' || ch.is_ascii_alphabetic() {
                let mut j = i + 1;
                while j < c.len() && (c[j] == '_' || c[j].is_ascii_alphanumeric()) {
                    j += 1;
                }
                out.push(T::Name(c[i..j].iter().collect()));
                i = j;
            } else {
                return Err(format!("unexpected character {ch:?}"));
            }
        }
        Ok(out)
    }

    struct P {
        t: Vec<T>,
        i: usize,
        doc: Doc,
    }

    impl P {
        fn peek(&self) -> Option<&T> {
            self.t.get(self.i)
        }
        fn eat(&mut self, c: char) -> bool {
            if self.peek() == Some(&T::P(c)) {
                self.i += 1;
                true
            } else {
                false
            }
        }
        fn expect(&mut self, c: char) -> Result<(), String> {
            if self.eat(c) { Ok(()) } else { Err(format!("expected {c:?} at token {} ({:?})", self.i, self.peek())) }
        }
        fn name(&mut self) -> Result<String, String> {
            match self.peek().cloned() {
                Some(T::Name(n)) => {
                    self.i += 1;
                    Ok(n)
                }
                other => Err(format!("expected a name at token {} ({other:?})", self.i)),
            }
        }
        fn value(&mut self) -> Result<Val, String> {
            match self.peek().cloned() {
                Some(T::P('$')) => {
                    self.i += 1;
                    Ok(Val::Var(self.name()?))
                }
                Some(T::Int(i)) => {
                    self.i += 1;
                    Ok(Val::Int(i))
                }
                Some(T::Str(s)) => {
                    self.i += 1;
                    Ok(Val::Str(s))
                }
                Some(T::Name(n)) => {
                    self.i += 1;
                    Ok(match n.as_str() {
                        "true" => Val::Bool(true),
                        "false" => Val::Bool(false),
                        "null" => Val::Null,
                        _ => Val::Enum(n),
                    })
                }
                Some(T::P('[')) => {
                    self.i += 1;
                    let mut xs = vec![];
                    while !self.eat(']') {
                        xs.push(self.value()?);
                    }
                    Ok(Val::List(xs))
                }
                Some(T::P('{')) => {
                    self.i += 1;
                    let mut m = vec![];
                    while !self.eat('}') {
                        let k = self.name()?;
                        self.expect(':')?;
                        m.push((k, self.value()?));
                    }
                    Ok(Val::Obj(m))
                }
                other => Err(format!("expected a value at token {} ({other:?})", self.i)),
            }
        }
        fn args(&mut self) -> Result<Vec<(String, Val)>, String> {
            let mut out = vec![];
            if self.eat('(') {
                while !self.eat(')') {
                    let k = self.name()?;
                    self.expect(':')?;
                    out.push((k, self.value()?));
                }
            }
            Ok(out)
        }
        fn dirs(&mut self) -> Result<Vec<Dir>, String> {
            let mut out = vec![];
            while self.eat('@') {
                let name = self.name()?;
                let args = self.args()?;
                out.push(Dir { name, args });
            }
            Ok(out)
        }
        fn ty(&mut self) -> Result<Ty, String> {
            let mut t = if self.eat('[') {
                let inner = self.ty()?;
                self.expect(']')?;
                inner.list()
            } else {
                Ty::Named(self.name()?)
            };
            if self.eat('!') {
                t = t.nn();
            }
            Ok(t)
        }
        fn selset(&mut self) -> Result<Vec<Sel>, String> {
            self.expect('{')?;
            let mut out = vec![];
            while !self.eat('}') {
                if self.peek() == Some(&T::Spread) {
                    self.i += 1;
                    match self.peek().cloned() {
                        Some(T::Name(n)) if n == "on" => {
                            self.i += 1;
                            let cond = self.name()?;
                            let dirs = self.dirs()?;
                            let sel = self.selset()?;
                            let id = self.doc.fresh_id();
                            out.push(Sel::Inline { id, cond: Some(cond), dirs, sel });
                        }
                        Some(T::Name(n)) => {
                            self.i += 1;
                            let dirs = self.dirs()?;
                            let id = self.doc.fresh_id();
                            out.push(Sel::Spread { id, name: n, dirs });
                        }
                        _ => {
                            let dirs = self.dirs()?;
                            let sel = self.selset()?;
                            let id = self.doc.fresh_id();
                            out.push(Sel::Inline { id, cond: None, dirs, sel });
                        }
                    }
                } else {
                    let first = self.name()?;
                    let (alias, name) = if self.eat(':') { (Some(first), self.name()?) } else { (None, first) };
                    let args = self.args()?;
                    let dirs = self.dirs()?;
                    let sel = if self.peek() == Some(&T::P('{')) { self.selset()? } else { vec![] };
                    let id = self.doc.fresh_id();
                    out.push(Sel::Field(FieldSel { id, alias, name, args, dirs, sel }));
                }
            }
            if out.is_empty() {
                return Err("empty selection set".into());
            }
            Ok(out)
        }
    }

    pub fn parse(text: &str) -> Result<Doc, String> {
        let mut p = P { t: lex(text)?, i: 0, doc: Doc::default() };
        let mut ops = vec![];
        let mut frags = vec![];
        while p.peek().is_some() {
            match p.peek().cloned() {
                Some(T::P('{')) => {
                    let sel = p.selset()?;
                    ops.push(Op { kind: OpKind::Query, name: None, vars: vec![], dirs: vec![], sel });
                }
                Some(T::Name(k)) if k == "fragment" => {
                    p.i += 1;
                    let name = p.name()?;
                    let on = p.name()?;
                    if on != "on" {
                        return Err("expected 'on'".into());
                    }
                    let cond = p.name()?;
                    let sel = p.selset()?;
                    frags.push(Frag { name, cond, sel });
                }
                Some(T::Name(k)) if k == "query" || k == "mutation" => {
                    p.i += 1;
                    let kind = if k == "query" { OpKind::Query } else { OpKind::Mutation };
                    let name = match p.peek() {
                        Some(T::Name(_)) => Some(p.name()?),
                        _ => None,
                    };
                    let mut vars = vec![];
                    if p.eat('(') {
                        while !p.eat(')') {
                            p.expect('$')?;
                            let n = p.name()?;
                            p.expect(':')?;
                            let ty = p.ty()?;
                            let default = if p.eat('=') { Some(p.value()?) } else { None };
                            vars.push(VarDef { name: n, ty, default });
                        }
                    }
                    let dirs = p.dirs()?;
                    let sel = p.selset()?;
                    ops.push(Op { kind, name, vars, dirs, sel });
                }
                other => return Err(format!("unexpected token {other:?}")),
            }
        }
        let mut doc = p.doc;
        doc.ops = ops;
        doc.frags = frags;
        Ok(doc)
    }
}

/// A hand-written case over one of the static schemas.
fn written(st: &Statics, fl: Flavour, text: &str, vars: J, fast: bool, seed: u64) -> Result<Prepared, String> {
    let doc = mini::parse(text)?;
    let ts = match fl {
        Flavour::S1 => st.s1_full.clone(),
        Flavour::S10 => st.s10.clone(),
        Flavour::Dyn => return Err("hand-written cases use the static schemas".into()),
    };
    let op_name = doc.ops.first().and_then(|o| o.name.clone());
    let printed = print(&doc, false).text;
    let gd = GenDoc { doc, op_name, vars, features: Default::default() };
    Ok(Prepared {
        flavour: fl,
        ts: ts.clone(),
        env_ts: ts,
        gd,
        text: printed,
        world: world_for("static", seed),
        fast,
        via_stream: seed % 2 == 1,
        case_seed: seed,
    })
}

fn rules_for<'a>(st: &'a Statics, fl: Flavour) -> &'a Rules {
    match fl {
        Flavour::S1 => &st.s1_rules,
        Flavour::S10 => &st.s10_rules,
        Flavour::Dyn => &st.no_rules,
    }
}

fn run_calibrations(run: &Run, st: &Statics, cache: &mut Cache) {
    for (i, c) in calibrations().into_iter().enumerate() {
        for fast in [false, true] {
            let p = match written(st, c.fl, c.text, c.vars.clone(), fast, 100 + i as u64) {
                Ok(p) => p,
                Err(e) => {
                    run.inconclusive(&format!("harness error: calibration document {i} does not parse: {e}"));
                    return;
                }
            };
            let md = match measure(&p.ts, rules_for(st, c.fl), &p.gd.doc, &p.gd.vars) {
                Ok(m) => m,
                Err(e) => {
                    run.inconclusive(&format!("harness error: calibration document {i} is not measurable: {e}"));
                    return;
                }
            };
            let hand = Measures { depth: c.depth, complexity: c.complexity, nesting: c.nesting, directives: c.directives };
            if md.m != hand {
                run.inconclusive(&format!(
                    "harness error: reference measures {:?} differ from the hand-written {:?} on calibration document {}",
                    md.m, hand, c.text
                ));
                return;
            }
            cache.t.count("calibration_documents", 1);
            check(run, cache, &p, &md, "C10-calibration", false);
        }
    }
}

// ================================================================= main

pub fn main() {
    let mut run = Run::from_args(
        "exploration",
        "single-operation documents, valid by construction (gen_doc: aliases, inline fragments with and without type \
         condition, named fragments incl. reuse and nesting, arguments from literals / supplied variables / variable \
         defaults / omitted variables / omitted arguments; plus @skip(if:false) / @include(if:true) and two no-op custom \
         field directives that never remove a selection) over (a) the derive-built schema S1 (rule on Query.page), (b) \
         the derive-built schema S10 of this check (rules of four shapes on Object, SimpleObject and ComplexObject \
         fields behind an interface and a union) and (c) random dynamic schemas; per document the reference measures \
         (depth, complexity, nesting, directives per field; fragments inlined) are computed on the harness AST and the \
         schema is rebuilt and the request executed with no limit, with each of the four limits at m-1, m, m+1, with all \
         four at m and with all at m but one at m-1, in Strict or Fast validation mode; the monitor reads response and \
         resolver event log. Non-trivial = the document uses a fragment, alias, variable, directive or a field with a \
         declared complexity rule; distinct by hash of (schema, document, variables)",
    );
    run.assume("conventions of the measures, read from src/validation/visitors/{depth,complexity}.rs (and their unit tests), src/schema.rs check_recursive_depth / check_max_directives and the limit_* doc comments, and pinned by hand-computed calibration documents: a root field has depth 1; the operation's selection set is nesting level 0 and every field / inline fragment / fragment spread selection set is one level further in; the meta field __typename adds nothing to depth and complexity (the visitors never enter it; it runs no resolver) but its directives count; directives on fragment spreads and inline fragments are not per-field directives");
    run.assume("the property does not say whether selections removed by @skip/@include count; every generated directive keeps its selection (@skip(if:false), @include(if:true), no-op custom directives), so both readings give the same measures");
    run.assume("single-operation documents only (whether unselected operations count is not fixed by the property)");
    run.assume("a declared rule is looked up on the static type of the enclosing selection set (field return type, or the type condition of the nearest enclosing fragment); no rule is declared on a field that an interface of its type also declares (checked at start), so which rule applies is never ambiguous");
    run.assume("rules are evaluated with the saturating usize arithmetic their Rust expressions spell out; a document whose reference complexity exceeds usize::MAX must execute without limits and be rejected under limit_complexity(usize::MAX - 1); whether it exceeds a limit of exactly usize::MAX is not asserted");
    run.assume("dynamic schemas cannot declare complexity rules (async_graphql::dynamic registers compute_complexity: None), so their complexity is the number of selected fields");
    run.assume("documents are valid by construction (gen_doc.rs); the hand models s1::model() and c10::s10::model() state what the Rust sources declare");
    run.assume("'executes' is observed as: at least one resolver Start event, or non-null data; 'rejected before any resolver runs' as: errors, null data and no Start event in the request's event log");
    run.exhaustive(false);

    let st = Statics::new();
    for (ts, rules, n) in [(&st.s1_full, &st.s1_rules, "S1"), (&st.s10, &st.s10_rules, "S10")] {
        if let Err(e) = rules_are_unambiguous(ts, rules) {
            run.inconclusive(&format!("harness error: {n}: {e}"));
            run.finish();
        }
    }

    if let Some(path) = run.replay.clone() {
        replay(&run, &st, &path);
        run.finish();
    }

    let docs = run.scale(480, 400_000);
    // thorough stops taking new documents after this many seconds (the floors still apply)
    let deadline_s = 420.0;
    run.set_max_samples(6);
    run.set_floors(run.scale(2_880, 300_000), run.scale(120, 12_000));
    for k in ["depth", "complexity", "recursion", "directives"] {
        run.require_counter(&format!("{k}.accepted"));
        run.require_counter(&format!("{k}.rejected"));
    }
    run.require_counter("resolver_start_events");
    run.require_counter("declared_rule_applications");
    run.require_counter("calibration_documents");

    {
        let mut cache = Cache::default();
        run_calibrations(&run, &st, &mut cache);
        witnesses(&run, &st, &mut cache);
        cache.t.flush(&run);
    }

    let shards = n_shards(&run);
    let run_ref = &run;
    let st_ref = &st;
    std::thread::scope(|sc| {
        for shard in 0..shards {
            sc.spawn(move || {
                let mut cache = Cache::default();
                cache.sampling = shard == 0;
                let mut i = shard;
                while i < docs {
                    if run_ref.elapsed_s() > deadline_s {
                        cache.t.count("documents_not_run_deadline", (docs - i).div_ceil(shards));
                        break;
                    }
                    let case_seed = rng::mix(&[run_ref.seed, 10, i]);
                    let fl = match (case_seed >> 7) % 4 {
                        0 => Flavour::S1,
                        1 => Flavour::S10,
                        _ => Flavour::Dyn,
                    };
                    one_generated(run_ref, st_ref, &mut cache, fl, case_seed, false);
                    i += shards;
                }
                cache.t.flush(run_ref);
            });
        }
    });
    run.extra("schemas", json!("S1 (harness/schema/src/s1.rs), S10 (harness/exec/src/c10.rs), dynamic (gen_ts)"));
    run.finish();
}

fn replay(run: &Run, st: &Statics, path: &std::path::Path) {
    let Ok(text) = std::fs::read_to_string(path) else {
        run.inconclusive("replay file unreadable");
        return;
    };
    let Ok(j) = serde_json::from_str::<J>(&text) else {
        run.inconclusive("replay file is not JSON");
        return;
    };
    let case = j.get("case").unwrap_or(&j);
    let Some(fl) = case.get("flavour").and_then(|v| v.as_str()).and_then(Flavour::parse) else {
        run.inconclusive("replay file names no flavour");
        return;
    };
    let mut cache = Cache::default();
    if let Some(seed) = case.get("case_seed").and_then(|v| v.as_u64()) {
        if case.get("written").and_then(|v| v.as_bool()) != Some(true) {
            println!("replaying generated case {seed} ({})", fl.name());
            one_generated(run, st, &mut cache, fl, seed, true);
            cache.t.flush(run);
            return;
        }
    }
    // a pinned witness: run the witnesses again
    if case.get("witness").is_some() {
        witnesses(run, st, &mut cache);
        return;
    }
    // a hand-written case: document text + variables
    let doc = case.get("document").and_then(|v| v.as_str()).unwrap_or_default();
    let vars = case.get("variables").cloned().unwrap_or(json!({}));
    let fast = case.get("validation_mode").and_then(|v| v.as_str()) == Some("Fast");
    match written(st, fl, doc, vars, fast, 1) {
        Ok(p) => match measure(&p.ts, rules_for(st, fl), &p.gd.doc, &p.gd.vars) {
            Ok(md) => {
                println!("document: {}\nvariables: {}\nmeasures: {:?}", p.text, p.gd.vars, md.m);
                check(run, &mut cache, &p, &md, "C10-replay", true);
            }
            Err(e) => run.inconclusive(&format!("document is not measurable: {e}")),
        },
        Err(e) => run.inconclusive(&format!("document does not parse with the harness' small parser: {e}")),
    }
}

// ================================================================= pinned witnesses of findings

/// Smallest complexity limit in 0..=upto under which the request executes
/// (= the complexity the library computed), or a description of what happened.
fn library_complexity(p: &Prepared, cache: &mut Cache, upto: usize) -> String {
    for l in 0..=upto {
        let lim = Limits { complexity: Some(l), ..Default::default() };
        let schema = match cache.get(p.flavour, &p.ts, &lim, p.fast) {
            Ok(s) => s,
            Err(e) => return format!("schema build failed: {e}"),
        };
        match observe(p, &schema) {
            Ok(o) if o.seen == Seen::Executed => return l.to_string(),
            Ok(o) if o.seen == Seen::Rejected && o.errors == ["Query is too complex."] => {}
            Ok(o) => return format!("at limit {l}: {:?} {:?}", o.seen, o.errors),
            Err(pn) => return format!("panicked: {}", pn.split(" @ ").next().unwrap_or_default()),
        }
    }
    format!("above {upto}")
}

fn short_outcome(p: &Prepared, cache: &mut Cache, lim: &Limits) -> String {
    let schema = match cache.get(p.flavour, &p.ts, lim, p.fast) {
        Ok(s) => s,
        Err(e) => return format!("schema build failed: {e}"),
    };
    match observe(p, &schema) {
        Ok(o) => match o.seen {
            Seen::Executed => "executed".to_string(),
            Seen::Rejected => format!("rejected: {}", o.errors.join("; ")),
            Seen::Odd(s) => s,
        },
        Err(pn) => format!("panicked: {}", pn.split(" @ ").next().unwrap_or_default()),
    }
}

/// Pinned witnesses. Each reports its finding with the exact wrong observation;
/// a different wrong observation is a new violation, the right one a NOTE.
fn witnesses(run: &Run, st: &Statics, cache: &mut Cache) {
    let prep = |fl, text: &str| -> Option<(Prepared, Measured)> {
        let p = written(st, fl, text, json!({}), false, 7).ok()?;
        let md = measure(&p.ts, rules_for(st, fl), &p.gd.doc, &p.gd.vars).ok()?;
        Some((p, md))
    };
    let report = |id: &str, obs: Vec<String>, clean: bool, docs: Vec<String>| {
        run.count("witness_runs", 1);
        if clean {
            run.note(&format!("witness {id} now behaves as the property states: {}", obs.join(" | ")));
            run.count(&format!("witness_clean.{id}"), 1);
        } else {
            run.violation(
                &format!("{id}|{}", obs.join(" | ")),
                &format!("pinned witness: {}", obs.join(" | ")),
                json!({"witness": id, "flavour": "static-S10", "written": true, "documents": docs, "observed": obs}),
            );
        }
    };

    // 1 — a rule is looked up on the type of the spread site
    {
        let id = "C10-rule-lost-below-fragment-spread";
        let mut obs = vec![];
        let mut clean = true;
        let mut docs = vec![];
        for text in ["{ node { ...F } } fragment F on Shelf { cost }", "{ item { ...F } } fragment F on Book { meta { words } }"] {
            let Some((p, md)) = prep(Flavour::S10, text) else {
                run.inconclusive("harness error: witness document of finding 1 does not parse / measure");
                return;
            };
            let lib = library_complexity(&p, cache, md.m.complexity as usize + 8);
            run.evals(1);
            clean &= lib == md.m.complexity.to_string();
            obs.push(format!("[{}] library complexity {lib}, reference {}", p.text, md.m.complexity));
            docs.push(p.text.clone());
        }
        report(id, obs, clean, docs);
    }
    // 2 — an omitted variable without default feeding a rule argument fails the request
    {
        let id = "C10-rule-argument-omitted-variable";
        let mut obs = vec![];
        let mut clean = true;
        let mut docs = vec![];
        for (fl, text) in [
            (Flavour::S1, "query($v: Int) { page(count: $v) { name } }"),
            (Flavour::S10, "query($v: Int) { shelf { books { pages(first: $v) { n } } } }"),
        ] {
            let Some((p, md)) = prep(fl, text) else {
                run.inconclusive("harness error: witness document of finding 2 does not parse / measure");
                return;
            };
            let o = short_outcome(&p, cache, &Limits::default());
            let lib = if o == "executed" { library_complexity(&p, cache, md.m.complexity as usize + 8) } else { "-".into() };
            run.evals(1);
            clean &= o == "executed" && lib == md.m.complexity.to_string();
            obs.push(format!("[{}] without limits: {o}; library complexity {lib}, reference {}", p.text, md.m.complexity));
            docs.push(p.text.clone());
        }
        report(id, obs, clean, docs);
    }
    // 3 — the visitor's own sums overflow usize
    {
        let id = "C10-complexity-sum-overflow";
        let mut obs = vec![];
        let mut clean = true;
        let mut docs = vec![];
        for text in [
            "{ shelf { id } shelves(first: 2147483647) { books(count: 2147483647) { pages(first: 2147483647) { n } } } }",
            "{ shelf { parent { books(count: 2147483647) { pages(first: 2147483647) { book { pages(first: 2147483647) { n } } } } } } }",
        ] {
            let Some((p, md)) = prep(Flavour::S10, text) else {
                run.inconclusive("harness error: witness document of finding 3 does not parse / measure");
                return;
            };
            if md.m.complexity <= UMAX {
                run.inconclusive("harness error: witness document of finding 3 does not exceed usize::MAX");
                return;
            }
            let a = short_outcome(&p, cache, &Limits::default());
            let b = short_outcome(&p, cache, &Limits { complexity: Some(usize::MAX - 1), ..Default::default() });
            let c = short_outcome(&p, cache, &Limits { complexity: Some(1000), ..Default::default() });
            run.evals(3);
            clean &= a == "executed" && b == "rejected: Query is too complex." && c == "rejected: Query is too complex.";
            obs.push(format!("[{}] reference {} > usize::MAX; without limits: {a}; limit usize::MAX-1: {b}; limit 1000: {c}", p.text, md.m.complexity));
            docs.push(p.text.clone());
        }
        report(id, obs, clean, docs);
    }
}
