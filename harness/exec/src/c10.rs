//! C10 — stub (being built).
pub fn main() {
    println!("INCONCLUSIVE property=C10 reason=check not built yet");
    std::process::exit(2);
}
