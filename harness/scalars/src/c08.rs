//! C08 — built-in input validators accept exactly the values satisfying their predicate.
//!
//! A derive-built schema has one query field per (validator kind x declared type);
//! every resolver records that it ran and with which value into a per-request log.
//! Real requests are executed with `schema.execute` on two schema instances
//! (ValidationMode::Strict and ::Fast), the value given as a literal or as a variable.
//!
//! Oracle (harness side, exact arithmetic for the *declared* Rust type): integers as
//! i128, floats as f64 compared exactly against integer/float bounds, byte length vs
//! char count, item counts, `regex` crate for patterns, list forms element-wise.
//!   predicate true  -> the resolver ran with exactly the sent value and the response has no error
//!   predicate false -> the resolver did not run and the response has an error for that field

use std::cmp::Ordering;
use std::sync::{Arc, Mutex};

use async_graphql::{Context, EmptyMutation, EmptySubscription, InputObject, Object, Request, Schema, ValidationMode, Variables};
use vh_core::serde_json::{self, json};
use vh_core::vsched::block_on;
use vh_core::{Rng, Run, catch, rng};

use crate::util::{Acc, run_jobs, threads};

// ---------------------------------------------------------------------------
// value model

#[derive(Clone, Debug)]
pub enum Val {
    Int(i128),
    Float(f64),
    Str(String),
    List(Vec<Val>),
    Obj(Vec<(&'static str, Val)>),
    Null,
}

impl PartialEq for Val {
    fn eq(&self, o: &Val) -> bool {
        match (self, o) {
            (Val::Int(a), Val::Int(b)) => a == b,
            (Val::Float(a), Val::Float(b)) => a.to_bits() == b.to_bits(),
            (Val::Str(a), Val::Str(b)) => a == b,
            (Val::List(a), Val::List(b)) => a == b,
            (Val::Obj(a), Val::Obj(b)) => a == b,
            (Val::Null, Val::Null) => true,
            _ => false,
        }
    }
}

impl Val {
    fn literal(&self) -> String {
        match self {
            Val::Int(n) => n.to_string(),
            Val::Float(f) => format!("{f:?}"),
            Val::Str(s) => serde_json::to_string(s).unwrap(),
            Val::List(xs) => format!("[{}]", xs.iter().map(|x| x.literal()).collect::<Vec<_>>().join(", ")),
            Val::Obj(fs) => format!("{{{}}}", fs.iter().map(|(k, v)| format!("{k}: {}", v.literal())).collect::<Vec<_>>().join(", ")),
            Val::Null => "null".into(),
        }
    }
    fn json(&self) -> serde_json::Value {
        match self {
            Val::Int(n) => {
                if *n < 0 {
                    json!(*n as i64)
                } else {
                    json!(*n as u64)
                }
            }
            Val::Float(f) => json!(*f),
            Val::Str(s) => json!(s),
            Val::List(xs) => serde_json::Value::Array(xs.iter().map(|x| x.json()).collect()),
            Val::Obj(fs) => serde_json::Value::Object(fs.iter().map(|(k, v)| (k.to_string(), v.json())).collect()),
            Val::Null => serde_json::Value::Null,
        }
    }
}

trait ToVal {
    fn to_val(&self) -> Val;
}
impl ToVal for i32 {
    fn to_val(&self) -> Val {
        Val::Int(*self as i128)
    }
}
impl ToVal for i64 {
    fn to_val(&self) -> Val {
        Val::Int(*self as i128)
    }
}
impl ToVal for u64 {
    fn to_val(&self) -> Val {
        Val::Int(*self as i128)
    }
}
impl ToVal for f64 {
    fn to_val(&self) -> Val {
        Val::Float(*self)
    }
}
impl ToVal for String {
    fn to_val(&self) -> Val {
        Val::Str(self.clone())
    }
}
impl<T: ToVal> ToVal for Vec<T> {
    fn to_val(&self) -> Val {
        Val::List(self.iter().map(|x| x.to_val()).collect())
    }
}
impl<T: ToVal> ToVal for Option<T> {
    fn to_val(&self) -> Val {
        match self {
            Some(x) => x.to_val(),
            None => Val::Null,
        }
    }
}

// ---------------------------------------------------------------------------
// oracle: predicates in exact arithmetic

#[derive(Clone, Copy, Debug)]
pub enum B {
    I(i64),
    F(f64),
}

#[derive(Clone, Debug)]
pub enum Pred {
    Max(B),
    Min(B),
    MultipleOf(B),
    MaxLen(usize),
    MinLen(usize),
    CharsMax(usize),
    CharsMin(usize),
    MaxItems(usize),
    MinItems(usize),
    Regex(&'static str),
}

#[derive(Clone, Copy, Debug, PartialEq)]
pub enum Ty {
    I32,
    I64,
    U64,
    F64,
    Str,
    OptI32,
    ListI32,
    ListU64,
    ListF64,
    ListStr,
    OptListI32,
    In,
}

impl Ty {
    fn gql(&self) -> &'static str {
        match self {
            Ty::I32 | Ty::I64 | Ty::U64 => "Int!",
            Ty::F64 => "Float!",
            Ty::Str => "String!",
            Ty::OptI32 => "Int",
            Ty::ListI32 | Ty::ListU64 => "[Int!]!",
            Ty::ListF64 => "[Float!]!",
            Ty::ListStr => "[String!]!",
            Ty::OptListI32 => "[Int!]",
            Ty::In => "In!",
        }
    }
    fn elem(&self) -> Ty {
        match self {
            Ty::ListI32 | Ty::OptListI32 => Ty::I32,
            Ty::ListU64 => Ty::U64,
            Ty::ListF64 => Ty::F64,
            Ty::ListStr => Ty::Str,
            Ty::OptI32 => Ty::I32,
            t => *t,
        }
    }
    fn is_list(&self) -> bool {
        matches!(self, Ty::ListI32 | Ty::ListU64 | Ty::ListF64 | Ty::ListStr | Ty::OptListI32)
    }
}

/// Exact comparison of an integer with a finite double.
fn cmp_int_float(v: i128, f: f64) -> Ordering {
    let fl = f.floor();
    if fl >= 1.7e38 {
        return Ordering::Less;
    }
    if fl <= -1.7e38 {
        return Ordering::Greater;
    }
    let fi = fl as i128; // exact: fl is an integer below 2^127
    match v.cmp(&fi) {
        Ordering::Less => Ordering::Less,
        Ordering::Greater => Ordering::Greater,
        Ordering::Equal => {
            if f > fl {
                Ordering::Less
            } else {
                Ordering::Equal
            }
        }
    }
}

fn cmp_exact(v: &Val, b: B) -> Ordering {
    match (v, b) {
        (Val::Int(x), B::I(y)) => x.cmp(&(y as i128)),
        (Val::Int(x), B::F(y)) => cmp_int_float(*x, y),
        (Val::Float(x), B::I(y)) => cmp_int_float(y as i128, *x).reverse(),
        (Val::Float(x), B::F(y)) => x.partial_cmp(&y).expect("harness: NaN cannot be sent"),
        _ => panic!("harness: numeric predicate on non-number {v:?}"),
    }
}

/// Is v an exact multiple of b? (b != 0, |b| small; checked by the spec test below)
fn multiple_exact(v: &Val, b: B) -> bool {
    match (v, b) {
        (Val::Int(x), B::I(n)) => x % (n as i128) == 0,
        (Val::Float(x), B::I(n)) => x.fract() == 0.0 && x % (n as f64) == 0.0, // fmod is exact, n < 2^53
        (Val::Float(x), B::F(m)) => x % m == 0.0,
        (Val::Int(x), B::F(m)) => {
            // m = mant * 2^exp exactly
            let bits = m.abs().to_bits();
            let e = ((bits >> 52) & 0x7ff) as i32;
            let frac = bits & 0x000f_ffff_ffff_ffff;
            let (mut mant, mut exp) = if e == 0 { (frac as i128, -1074) } else { ((frac | (1 << 52)) as i128, e - 1075) };
            while mant % 2 == 0 && mant != 0 {
                mant /= 2;
                exp += 1;
            }
            if exp >= 0 {
                x % (mant << exp) == 0
            } else {
                assert!(-exp < 40, "harness: float bound with too fine a grain");
                (x << (-exp)) % mant == 0
            }
        }
        _ => panic!("harness: multiple_of on non-number"),
    }
}

fn is_zero(v: &Val) -> bool {
    match v {
        Val::Int(x) => *x == 0,
        Val::Float(x) => *x == 0.0,
        _ => false,
    }
}

/// Some(true/false) = the predicate's exact answer; None = excluded from the oracle.
fn pred_holds(p: &Pred, v: &Val) -> Option<bool> {
    Some(match p {
        Pred::Max(b) => cmp_exact(v, *b) != Ordering::Greater,
        Pred::Min(b) => cmp_exact(v, *b) != Ordering::Less,
        Pred::MultipleOf(b) => {
            if is_zero(v) {
                return None;
            }
            multiple_exact(v, *b)
        }
        Pred::MaxLen(n) => matches!(v, Val::Str(s) if s.len() <= *n),
        Pred::MinLen(n) => matches!(v, Val::Str(s) if s.len() >= *n),
        Pred::CharsMax(n) => matches!(v, Val::Str(s) if s.chars().count() <= *n),
        Pred::CharsMin(n) => matches!(v, Val::Str(s) if s.chars().count() >= *n),
        Pred::MaxItems(n) => matches!(v, Val::List(xs) if xs.len() <= *n),
        Pred::MinItems(n) => matches!(v, Val::List(xs) if xs.len() >= *n),
        Pred::Regex(re) => {
            let r = regex::Regex::new(re).expect("harness: regex of the spec compiles");
            matches!(v, Val::Str(s) if r.is_match(s))
        }
    })
}

fn is_item_pred(p: &Pred) -> bool {
    !matches!(p, Pred::MaxItems(_) | Pred::MinItems(_))
}

#[derive(Clone, Debug)]
pub struct Spec {
    pub name: &'static str,
    pub ty: Ty,
    pub list_mode: bool,
    pub preds: Vec<Pred>,
}

/// Exact answer for a whole argument. None = a multiple_of(0) case decides it (excluded).
fn spec_holds(spec: &Spec, v: &Val) -> Option<bool> {
    if matches!(v, Val::Null) {
        return Some(true); // absent optional value: nothing to validate
    }
    let mut undecided = false;
    for p in &spec.preds {
        let r = if is_item_pred(p) && spec.list_mode {
            let Val::List(xs) = v else { panic!("harness: list mode on non-list") };
            let mut all = Some(true);
            for x in xs {
                match pred_holds(p, x) {
                    Some(true) => {}
                    Some(false) => {
                        all = Some(false);
                        break;
                    }
                    None => all = None,
                }
            }
            all
        } else {
            pred_holds(p, v)
        };
        match r {
            Some(false) => return Some(false),
            None => undecided = true,
            Some(true) => {}
        }
    }
    if undecided { None } else { Some(true) }
}

// ---------------------------------------------------------------------------
// the schema under test

type Log = Arc<Mutex<Vec<(&'static str, Val)>>>;

fn record(ctx: &Context<'_>, field: &'static str, v: Val) {
    if let Some(log) = ctx.data_opt::<Log>() {
        log.lock().unwrap().push((field, v));
    }
}

pub struct Query;

/// One table generates both the derive-built field (attribute tokens) and the
/// harness-side spec (written out separately, as data for the oracle).
macro_rules! fields {
    ( $( $name:ident : $ty:ty = $tyk:ident, list=$lm:literal, [ $($attr:tt)* ], [ $($pred:expr),* ] ; )* ) => {
        #[Object]
        impl Query {
            $(
                async fn $name(&self, ctx: &Context<'_>, #[graphql(validator($($attr)*))] v: $ty) -> bool {
                    record(ctx, stringify!($name), v.to_val());
                    true
                }
            )*
            async fn obj(&self, ctx: &Context<'_>, v: In) -> bool {
                record(ctx, "obj", v.to_val());
                true
            }
        }
        fn arg_specs() -> Vec<Spec> {
            use Pred::*;
            vec![ $( Spec { name: stringify!($name), ty: Ty::$tyk, list_mode: $lm, preds: vec![$($pred),*] } ),* ]
        }
    };
}

const RE1: &str = "^[a-z]+[0-9]{2}$";
const RE2: &str = r"^\p{L}{2,4}$";

fields! {
    // maximum
    maxi32: i32 = I32, list=false, [maximum = 100], [Max(B::I(100))];
    maxi64: i64 = I64, list=false, [maximum = 100], [Max(B::I(100))];
    maxi64big: i64 = I64, list=false, [maximum = 9007199254740993], [Max(B::I(9007199254740993))];
    maxi64f: i64 = I64, list=false, [maximum = 100.5], [Max(B::F(100.5))];
    maxi64fbig: i64 = I64, list=false, [maximum = 9007199254740992.0], [Max(B::F(9007199254740992.0))];
    maxu64: u64 = U64, list=false, [maximum = 100], [Max(B::I(100))];
    maxu64f: u64 = U64, list=false, [maximum = 100.5], [Max(B::F(100.5))];
    maxf64: f64 = F64, list=false, [maximum = 100], [Max(B::I(100))];
    maxf64f: f64 = F64, list=false, [maximum = 100.5], [Max(B::F(100.5))];
    // minimum
    mini32: i32 = I32, list=false, [minimum = 10], [Min(B::I(10))];
    mini64: i64 = I64, list=false, [minimum = 10], [Min(B::I(10))];
    mini64f: i64 = I64, list=false, [minimum = 10.5], [Min(B::F(10.5))];
    minu64: u64 = U64, list=false, [minimum = 10], [Min(B::I(10))];
    minu64big: u64 = U64, list=false, [minimum = 9223372036854775807], [Min(B::I(9223372036854775807))];
    minu64f: u64 = U64, list=false, [minimum = 10.5], [Min(B::F(10.5))];
    minf64: f64 = F64, list=false, [minimum = 10], [Min(B::I(10))];
    minf64zero: f64 = F64, list=false, [minimum = 0], [Min(B::I(0))];
    minf64f: f64 = F64, list=false, [minimum = 10.5], [Min(B::F(10.5))];
    // both
    rangei32: i32 = I32, list=false, [minimum = 10, maximum = 100], [Min(B::I(10)), Max(B::I(100))];
    rangeu64: u64 = U64, list=false, [minimum = 10, maximum = 100], [Min(B::I(10)), Max(B::I(100))];
    // multiple_of
    moi32: i32 = I32, list=false, [multiple_of = 3], [MultipleOf(B::I(3))];
    moi64: i64 = I64, list=false, [multiple_of = 7], [MultipleOf(B::I(7))];
    moi64f: i64 = I64, list=false, [multiple_of = 2.5], [MultipleOf(B::F(2.5))];
    mou64: u64 = U64, list=false, [multiple_of = 10], [MultipleOf(B::I(10))];
    mof64: f64 = F64, list=false, [multiple_of = 2], [MultipleOf(B::I(2))];
    mof64f: f64 = F64, list=false, [multiple_of = 0.5], [MultipleOf(B::F(0.5))];
    // optional argument
    maxopt: Option<i32> = OptI32, list=false, [maximum = 100], [Max(B::I(100))];
    // strings
    maxlen: String = Str, list=false, [max_length = 5], [MaxLen(5)];
    minlen: String = Str, list=false, [min_length = 3], [MinLen(3)];
    lenrange: String = Str, list=false, [min_length = 2, max_length = 4], [MinLen(2), MaxLen(4)];
    cmaxlen: String = Str, list=false, [chars_max_length = 5], [CharsMax(5)];
    cminlen: String = Str, list=false, [chars_min_length = 3], [CharsMin(3)];
    clenrange: String = Str, list=false, [chars_min_length = 2, chars_max_length = 4], [CharsMin(2), CharsMax(4)];
    bytesandchars: String = Str, list=false, [max_length = 8, chars_min_length = 3], [MaxLen(8), CharsMin(3)];
    re1: String = Str, list=false, [regex = "^[a-z]+[0-9]{2}$"], [Regex(RE1)];
    re2: String = Str, list=false, [regex = r"^\p{L}{2,4}$"], [Regex(RE2)];
    // lists
    maxitems: Vec<i32> = ListI32, list=false, [max_items = 3], [MaxItems(3)];
    minitems: Vec<i32> = ListI32, list=false, [min_items = 2], [MinItems(2)];
    itemsrange: Vec<String> = ListStr, list=false, [min_items = 1, max_items = 3], [MinItems(1), MaxItems(3)];
    // list forms (element-wise)
    lmaxi32: Vec<i32> = ListI32, list=true, [list, maximum = 100], [Max(B::I(100))];
    lmaxu64: Vec<u64> = ListU64, list=true, [list, maximum = 100], [Max(B::I(100))];
    lminf64: Vec<f64> = ListF64, list=true, [list, minimum = 10], [Min(B::I(10))];
    lminf64f: Vec<f64> = ListF64, list=true, [list, minimum = 10.5], [Min(B::F(10.5))];
    lmou64: Vec<u64> = ListU64, list=true, [list, multiple_of = 10], [MultipleOf(B::I(10))];
    lmaxlen: Vec<String> = ListStr, list=true, [list, max_length = 3], [MaxLen(3)];
    lcminlen: Vec<String> = ListStr, list=true, [list, chars_min_length = 2], [CharsMin(2)];
    lre1: Vec<String> = ListStr, list=true, [list, regex = "^[a-z]+[0-9]{2}$"], [Regex(RE1)];
    lboth: Vec<String> = ListStr, list=true, [list, max_length = 3, max_items = 2], [MaxLen(3), MaxItems(2)];
    lmaxitemsmin: Vec<i32> = ListI32, list=true, [list, minimum = 10, min_items = 1, max_items = 3], [Min(B::I(10)), MinItems(1), MaxItems(3)];
    loptmax: Option<Vec<i32>> = OptListI32, list=true, [list, maximum = 100], [Max(B::I(100))];
}

#[derive(InputObject)]
pub struct In {
    #[graphql(validator(maximum = 100))]
    a: i32,
    #[graphql(validator(maximum = 100))]
    b: u64,
    #[graphql(validator(minimum = 0))]
    c: f64,
    #[graphql(validator(chars_max_length = 5))]
    s: String,
    #[graphql(validator(list, max_length = 3, max_items = 2))]
    l: Vec<String>,
    #[graphql(validator(regex = "^[a-z]+[0-9]{2}$"))]
    r: String,
    #[graphql(validator(multiple_of = 10))]
    m: u64,
    #[graphql(validator(minimum = 10.5))]
    d: i64,
}

impl ToVal for In {
    fn to_val(&self) -> Val {
        Val::Obj(vec![
            ("a", self.a.to_val()),
            ("b", self.b.to_val()),
            ("c", self.c.to_val()),
            ("s", self.s.to_val()),
            ("l", self.l.to_val()),
            ("r", self.r.to_val()),
            ("m", self.m.to_val()),
            ("d", self.d.to_val()),
        ])
    }
}

/// Harness-side spec of the input object's fields (same order as `In`).
fn in_specs() -> Vec<Spec> {
    use Pred::*;
    vec![
        Spec { name: "a", ty: Ty::I32, list_mode: false, preds: vec![Max(B::I(100))] },
        Spec { name: "b", ty: Ty::U64, list_mode: false, preds: vec![Max(B::I(100))] },
        Spec { name: "c", ty: Ty::F64, list_mode: false, preds: vec![Min(B::I(0))] },
        Spec { name: "s", ty: Ty::Str, list_mode: false, preds: vec![CharsMax(5)] },
        Spec { name: "l", ty: Ty::ListStr, list_mode: true, preds: vec![MaxLen(3), MaxItems(2)] },
        Spec { name: "r", ty: Ty::Str, list_mode: false, preds: vec![Regex(RE1)] },
        Spec { name: "m", ty: Ty::U64, list_mode: false, preds: vec![MultipleOf(B::I(10))] },
        Spec { name: "d", ty: Ty::I64, list_mode: false, preds: vec![Min(B::F(10.5))] },
    ]
}

type S = Schema<Query, EmptyMutation, EmptySubscription>;

fn build(mode: ValidationMode) -> S {
    Schema::build(Query, EmptyMutation, EmptySubscription).validation_mode(mode).finish()
}

// ---------------------------------------------------------------------------
// generators

/// Generator features that isolate value classes hitting known defects
/// (all on unless known_findings.json excludes them for C08).
#[derive(Clone, Copy)]
struct Features {
    /// u64 values above i64::MAX sent while the schema validates in Strict mode
    u64_above_i64_max_strict: bool,
    /// u64 values above i64::MAX against an integer-literal bound (any mode)
    u64_above_i64_max_int_bound: bool,
    fractional_float_vs_int_bound: bool,
    float_beyond_i64_vs_int_bound: bool,
    int_beyond_2p53_vs_float_bound: bool,
}

fn bounds_of(spec: &Spec) -> Vec<B> {
    spec.preds
        .iter()
        .filter_map(|p| match p {
            Pred::Max(b) | Pred::Min(b) | Pred::MultipleOf(b) => Some(*b),
            _ => None,
        })
        .collect()
}

fn has_int_bound(spec: &Spec) -> bool {
    bounds_of(spec).iter().any(|b| matches!(b, B::I(_)))
}
fn has_float_bound(spec: &Spec) -> bool {
    bounds_of(spec).iter().any(|b| matches!(b, B::F(_)))
}

fn gen_int(r: &mut Rng, spec: &Spec, ty: Ty, ft: Features) -> i128 {
    let (lo, hi): (i128, i128) = match ty {
        Ty::I32 => (i32::MIN as i128, i32::MAX as i128),
        Ty::I64 => (i64::MIN as i128, i64::MAX as i128),
        Ty::U64 => (0, u64::MAX as i128),
        _ => unreachable!(),
    };
    let bs = bounds_of(spec);
    let pick_bound = |r: &mut Rng| -> i128 {
        if bs.is_empty() {
            return 0;
        }
        match *r.pick(&bs) {
            B::I(n) => n as i128,
            B::F(f) => {
                if r.bool() {
                    f.floor() as i128
                } else {
                    f.ceil() as i128
                }
            }
        }
    };
    let mo: Option<i128> = spec.preds.iter().find_map(|p| match p {
        Pred::MultipleOf(B::I(n)) => Some(*n as i128),
        Pred::MultipleOf(B::F(f)) => Some((f * 2.0) as i128), // 2.5 -> multiples of 5 are the integer multiples
        _ => None,
    });
    for _ in 0..64 {
        let n = match r.below(10) {
            0 | 1 | 2 => pick_bound(r) + r.range(-2, 2) as i128,
            3 => r.range(-5, 5) as i128,
            4 => *r.pick(&[lo, hi, lo + 1, hi - 1]),
            5 => {
                // multiples and their neighbours, across the whole range
                let m = mo.unwrap_or(10);
                let k = match r.below(3) {
                    0 => r.range(-20, 20) as i128,
                    1 => (hi / m) - r.range(0, 1000) as i128,
                    _ => ((1i128 << 63) / m) + r.range(-1000, 1000) as i128,
                };
                k * m + *r.pick(&[0, 0, 1, -1])
            }
            6 => {
                // images of the bound under wrap-around
                (1i128 << 64) + pick_bound(r) + r.range(-3, 3) as i128 - *r.pick(&[0i128, 1 << 64])
            }
            7 => (1i128 << 63) + r.range(-3, 3) as i128,
            8 => (1i128 << 53) + r.range(-3, 3) as i128,
            _ => {
                let span = (hi - lo) as u128 + 1;
                lo + ((r.next_u64() as u128 | ((r.next_u64() as u128) << 64)) % span) as i128
            }
        };
        if n < lo || n > hi {
            continue;
        }
        if !ft.u64_above_i64_max_int_bound && ty == Ty::U64 && n > i64::MAX as i128 && has_int_bound(spec) {
            continue;
        }
        if !ft.int_beyond_2p53_vs_float_bound && n.unsigned_abs() > (1u128 << 53) && has_float_bound(spec) {
            continue;
        }
        return n;
    }
    1
}

fn next_up(f: f64) -> f64 {
    if f == 0.0 {
        return 5e-324;
    }
    let b = f.to_bits();
    f64::from_bits(if f > 0.0 { b + 1 } else { b - 1 })
}
fn next_down(f: f64) -> f64 {
    -next_up(-f)
}

fn gen_float(r: &mut Rng, spec: &Spec, ft: Features) -> f64 {
    let bs = bounds_of(spec);
    for _ in 0..64 {
        let b = if bs.is_empty() {
            0.0
        } else {
            match *r.pick(&bs) {
                B::I(n) => n as f64,
                B::F(f) => f,
            }
        };
        let f = match r.below(12) {
            0 => b,
            1 => b + *r.pick(&[0.5, -0.5, 0.25, -0.25, 0.999, -0.999, 1e-9, -1e-9]),
            2 => *r.pick(&[next_up(b), next_down(b)]),
            3 => b + r.range(-3, 3) as f64,
            4 => *r.pick(&[0.0, -0.0, 5e-324, -5e-324, 0.1, -0.1, 0.5, -0.5, -0.999, 0.999]),
            5 => *r.pick(&[9.3e18, 1e19, 2e19, -9.3e18, -1e19, 1e300, -1e300, f64::MAX, f64::MIN, 9223372036854775808.0, 18446744073709551616.0]),
            6 => r.range(-50, 50) as f64 * b.abs().max(0.5),
            7 => r.range(-50, 50) as f64 * b.abs().max(0.5) + *r.pick(&[0.5, 0.25, -0.125]),
            8 => (r.range(-1_000_000, 1_000_000) as f64) / 1000.0,
            9 => r.range(-1 << 53, 1 << 53) as f64,
            10 => r.range(-1 << 40, 1 << 40) as f64 * 1024.0 * 1024.0 * 4.0, // big even integers, many beyond i64
            _ => f64::from_bits(r.next_u64()),
        };
        if !f.is_finite() {
            continue;
        }
        if has_int_bound(spec) {
            if !ft.fractional_float_vs_int_bound && f.fract() != 0.0 {
                continue;
            }
            if !ft.float_beyond_i64_vs_int_bound && f.abs() >= 9.2e18 {
                continue;
            }
        }
        return f;
    }
    1.0
}

const CH1: &[char] = &['a', 'b', 'z', '0', '9', ' ', 'A'];
const CH2: &[char] = &['é', 'ß', 'ñ', 'Ω'];
const CH3: &[char] = &['中', '你', '€', '\u{301}'];
const CH4: &[char] = &['😀', '𝔘', '\u{10ffff}'];

fn gen_sized_string(r: &mut Rng, chars: usize) -> String {
    let mut s = String::new();
    let ascii_only = r.chance(1, 3);
    for _ in 0..chars {
        let c = if ascii_only {
            *r.pick(CH1)
        } else {
            match r.below(5) {
                0 | 1 => *r.pick(CH1),
                2 => *r.pick(CH2),
                3 => *r.pick(CH3),
                _ => *r.pick(CH4),
            }
        };
        s.push(c);
    }
    s
}

fn gen_re_string(r: &mut Rng, re: &str) -> String {
    if re == RE1 {
        let letters = r.below(4);
        let digits = *r.pick(&[2usize, 2, 2, 1, 3, 0]);
        let mut s = String::new();
        for _ in 0..letters {
            s.push((b'a' + r.below(26) as u8) as char);
        }
        for _ in 0..digits {
            s.push((b'0' + r.below(10) as u8) as char);
        }
        match r.below(8) {
            0 => s.push('\n'),
            1 => s.insert(0, ' '),
            2 => s = s.to_uppercase(),
            3 => s.insert(0, 'é'),
            4 => s.push('٣'), // a non-ASCII digit
            _ => {}
        }
        s
    } else {
        let n = r.below(6);
        let mut s = String::new();
        for _ in 0..n {
            s.push(*r.pick(&['a', 'Z', 'é', '中', 'Ω', '1', ' ', '😀', '\u{301}', '_']));
        }
        s
    }
}

fn gen_str(r: &mut Rng, spec: &Spec) -> String {
    let mut lens: Vec<usize> = vec![];
    let mut re: Option<&str> = None;
    for p in &spec.preds {
        match p {
            Pred::MaxLen(n) | Pred::MinLen(n) | Pred::CharsMax(n) | Pred::CharsMin(n) => lens.push(*n),
            Pred::Regex(x) => re = Some(x),
            _ => {}
        }
    }
    if let Some(re) = re {
        return gen_re_string(r, re);
    }
    let base = if lens.is_empty() { 3 } else { *r.pick(&lens) };
    let n = match r.below(6) {
        0 => 0,
        1 => r.below(12),
        _ => (base as i64 + r.range(-2, 2)).max(0) as usize,
    };
    // either n chars, or (roughly) n bytes made of multi-byte chars
    if r.bool() {
        gen_sized_string(r, n)
    } else {
        let mut s = String::new();
        while s.len() < n {
            let c = match r.below(4) {
                0 => *r.pick(CH1),
                1 => *r.pick(CH2),
                2 => *r.pick(CH3),
                _ => *r.pick(CH4),
            };
            if s.len() + c.len_utf8() > n && r.bool() {
                break;
            }
            s.push(c);
        }
        s
    }
}

fn gen_scalar_val(r: &mut Rng, spec: &Spec, ty: Ty, ft: Features) -> Val {
    match ty {
        Ty::I32 | Ty::I64 | Ty::U64 => Val::Int(gen_int(r, spec, ty, ft)),
        Ty::F64 => {
            // an integer literal is a legal Float input as well
            if r.chance(1, 8) {
                Val::Int(r.range(-120, 120) as i128)
            } else {
                Val::Float(gen_float(r, spec, ft))
            }
        }
        Ty::Str => Val::Str(gen_str(r, spec)),
        _ => unreachable!(),
    }
}

fn gen_val(r: &mut Rng, spec: &Spec, ft: Features) -> Val {
    match spec.ty {
        Ty::OptI32 => {
            if r.chance(1, 5) {
                Val::Null
            } else {
                gen_scalar_val(r, spec, Ty::I32, ft)
            }
        }
        Ty::OptListI32 if r.chance(1, 5) => Val::Null,
        t if t.is_list() => {
            let mut ns: Vec<usize> = vec![];
            for p in &spec.preds {
                if let Pred::MaxItems(n) | Pred::MinItems(n) = p {
                    ns.push(*n);
                }
            }
            let base = if ns.is_empty() { 2 } else { *r.pick(&ns) };
            let n = match r.below(5) {
                0 => 0,
                1 => r.below(7),
                _ => (base as i64 + r.range(-1, 1)).max(0) as usize,
            };
            // mostly-satisfying elements so that a single offending one decides
            let mut xs = vec![];
            for _ in 0..n {
                let mut x = gen_scalar_val(r, spec, t.elem(), ft);
                if r.chance(2, 3) {
                    for _ in 0..8 {
                        let ok = spec.preds.iter().filter(|p| is_item_pred(p)).all(|p| pred_holds(p, &norm(&x, t.elem())) != Some(false));
                        if ok {
                            break;
                        }
                        x = gen_scalar_val(r, spec, t.elem(), ft);
                    }
                }
                xs.push(x);
            }
            Val::List(xs)
        }
        Ty::In => {
            let specs = in_specs();
            let bad = if r.chance(1, 3) { usize::MAX } else { r.below(specs.len()) };
            let mut fs = vec![];
            for (i, s) in specs.iter().enumerate() {
                let mut x = gen_val(r, s, ft);
                if i != bad {
                    // make the other fields satisfy their predicates (so one field decides)
                    for _ in 0..200 {
                        if spec_holds(s, &norm(&x, s.ty)) == Some(true) {
                            break;
                        }
                        x = gen_val(r, s, ft);
                    }
                }
                fs.push((s.name, x));
            }
            Val::Obj(fs)
        }
        t => gen_scalar_val(r, spec, t, ft),
    }
}

/// What the resolver must see: an integer literal sent to a Float position is that float.
fn norm(v: &Val, ty: Ty) -> Val {
    match (v, ty) {
        (Val::Int(n), Ty::F64) => Val::Float(*n as f64),
        (Val::List(xs), t) if t.is_list() => Val::List(xs.iter().map(|x| norm(x, t.elem())).collect()),
        (Val::Obj(fs), Ty::In) => {
            let specs = in_specs();
            Val::Obj(fs.iter().zip(specs.iter()).map(|((k, x), s)| (*k, norm(x, s.ty))).collect())
        }
        (v, _) => v.clone(),
    }
}

/// Does the value contain an integer above i64::MAX (only u64 positions can)?
fn has_big_u64(v: &Val) -> bool {
    match v {
        Val::Int(n) => *n > i64::MAX as i128,
        Val::List(xs) => xs.iter().any(has_big_u64),
        Val::Obj(fs) => fs.iter().any(|(_, x)| has_big_u64(x)),
        _ => false,
    }
}

fn holds(spec: &Spec, v: &Val) -> Option<bool> {
    if spec.ty == Ty::In {
        let Val::Obj(fs) = v else { panic!("harness: In value") };
        let mut undecided = false;
        for ((_, x), s) in fs.iter().zip(in_specs().iter()) {
            match spec_holds(s, x) {
                Some(false) => return Some(false),
                None => undecided = true,
                _ => {}
            }
        }
        if undecided { None } else { Some(true) }
    } else {
        spec_holds(spec, v)
    }
}

// ---------------------------------------------------------------------------
// one executed case

struct Outcome {
    ran: Vec<Val>,
    errors: Vec<String>,
    error_for_field: bool,
    data_true: bool,
}

fn execute(schema: &S, field: &'static str, ty: Ty, v: &Val, as_variable: bool) -> Result<Outcome, String> {
    let log: Log = Arc::new(Mutex::new(vec![]));
    let req = if as_variable {
        let q = format!("query($v: {}) {{ {field}(v: $v) }}", ty.gql());
        Request::new(q).variables(Variables::from_json(json!({"v": v.json()})))
    } else {
        Request::new(format!("{{ {field}(v: {}) }}", v.literal()))
    }
    .data(log.clone());
    let resp = catch(|| block_on(schema.execute(req)))?;
    let ran: Vec<Val> = log.lock().unwrap().iter().filter(|(f, _)| *f == field).map(|(_, v)| v.clone()).collect();
    let error_for_field = resp.errors.iter().any(|e| {
        matches!(e.path.first(), Some(async_graphql::PathSegment::Field(f)) if f == field) || !e.locations.is_empty()
    });
    let data_true = match &resp.data {
        async_graphql::Value::Object(m) => m.get(field) == Some(&async_graphql::Value::Boolean(true)),
        _ => false,
    };
    Ok(Outcome { ran, errors: resp.errors.iter().map(|e| e.message.clone()).collect(), error_for_field, data_true })
}

fn mode_name(strict: bool) -> &'static str {
    if strict { "Strict" } else { "Fast" }
}

fn judge(run: &Run, acc: &mut Acc, tag: &str, spec: &Spec, sent: &Val, strict: bool, as_variable: bool, out: &Result<Outcome, String>) -> bool {
    let seen = norm(sent, spec.ty);
    let want = holds(spec, &seen);
    let case = json!({"field": spec.name, "declared_type": format!("{:?}", spec.ty), "validators": format!("{:?}", spec.preds), "list_mode": spec.list_mode,
                      "value": sent.literal(), "mode": mode_name(strict), "as_variable": as_variable});
    let sig = |kind: &str| {
        run.seen("violation_classes", &format!("{}|{kind}|{}|{}", spec.name, mode_name(strict), if as_variable { "variable" } else { "literal" }));
        format!("{tag}{kind}:{:x}", rng::hash_str(&format!("{}|{}|{}|{}", spec.name, sent.literal(), strict, as_variable)))
    };
    let out = match out {
        Ok(o) => o,
        Err(p) => {
            run.violation(&sig("panic"), &format!("execute panicked for {}({}) [{}]: {p}", spec.name, sent.literal(), mode_name(strict)), case);
            return false;
        }
    };
    let ran = !out.ran.is_empty();
    // whatever the predicate says: a resolver that ran must have received exactly the sent value, once
    if ran && (out.ran.len() != 1 || out.ran[0] != seen) {
        run.violation(
            &sig("altered"),
            &format!("{}({}) [{} {}]: resolver received {:?}, sent {:?}", spec.name, sent.literal(), mode_name(strict), if as_variable { "variable" } else { "literal" }, out.ran, seen),
            case,
        );
        return false;
    }
    if ran == !out.errors.is_empty() {
        // ran with an error, or did not run without any error
        run.violation(
            &sig("incoherent"),
            &format!(
                "{}({}) [{} {}]: resolver ran={ran} but errors={:?} (a rejected argument must produce an error, an accepted one none)",
                spec.name,
                sent.literal(),
                mode_name(strict),
                if as_variable { "variable" } else { "literal" },
                out.errors
            ),
            case,
        );
        return false;
    }
    match want {
        None => {
            acc.count(if ran { "excluded_multiple_of_zero_accepted" } else { "excluded_multiple_of_zero_rejected" });
            true
        }
        Some(true) => {
            if ran && out.data_true {
                acc.count("accepted_ok");
                true
            } else {
                run.violation(
                    &sig("rejected-valid"),
                    &format!(
                        "{}({}) [{} {}]: validators {:?} hold exactly for declared type {:?}, but the request failed: {:?}",
                        spec.name,
                        sent.literal(),
                        mode_name(strict),
                        if as_variable { "variable" } else { "literal" },
                        spec.preds,
                        spec.ty,
                        out.errors
                    ),
                    case,
                );
                false
            }
        }
        Some(false) => {
            if !ran && out.error_for_field {
                acc.count("rejected_ok");
                true
            } else if !ran {
                run.violation(
                    &sig("error-not-for-field"),
                    &format!("{}({}) [{}]: rejected, but no error carries the field path or a location: {:?}", spec.name, sent.literal(), mode_name(strict), out.errors),
                    case,
                );
                false
            } else {
                run.violation(
                    &sig("accepted-invalid"),
                    &format!(
                        "{}({}) [{} {}]: validators {:?} are violated for declared type {:?}, but the resolver ran with {:?}",
                        spec.name,
                        sent.literal(),
                        mode_name(strict),
                        if as_variable { "variable" } else { "literal" },
                        spec.preds,
                        spec.ty,
                        out.ran
                    ),
                    case,
                );
                false
            }
        }
    }
}

fn is_nontrivial(spec: &Spec, v: &Val) -> bool {
    // at / next to a bound, beyond the signed range, fractional, multi-byte, or a list / object
    fn scalar(spec: &Spec, v: &Val) -> bool {
        match v {
            Val::Int(n) => {
                *n > i64::MAX as i128
                    || n.unsigned_abs() > (1 << 53)
                    || bounds_of(spec).iter().any(|b| match b {
                        B::I(k) => (*n - *k as i128).abs() <= 1,
                        B::F(f) => (*n as f64 - f).abs() <= 1.0,
                    })
            }
            Val::Float(f) => {
                f.fract() != 0.0
                    || f.abs() > 9e18
                    || bounds_of(spec).iter().any(|b| match b {
                        B::I(k) => (*f - *k as f64).abs() <= 1.0,
                        B::F(g) => (*f - g).abs() <= 1.0,
                    })
            }
            Val::Str(s) => !s.is_ascii() || s.is_empty() || spec.preds.iter().any(|p| matches!(p, Pred::MaxLen(n) | Pred::MinLen(n) | Pred::CharsMax(n) | Pred::CharsMin(n) if (s.len() as i64 - *n as i64).abs() <= 1 || (s.chars().count() as i64 - *n as i64).abs() <= 1)) || spec.preds.iter().any(|p| matches!(p, Pred::Regex(_))),
            Val::List(_) | Val::Obj(_) => true,
            Val::Null => true,
        }
    }
    scalar(spec, v)
}

// ---------------------------------------------------------------------------
// pinned witnesses (genuine defects found on the unchanged tree; see known_findings.json)

struct Witness {
    id: &'static str,
    field: &'static str,
    value: Val,
    strict: bool,
    as_variable: bool,
}

fn in_value(b: i128, c: f64) -> Val {
    Val::Obj(vec![
        ("a", Val::Int(1)),
        ("b", Val::Int(b)),
        ("c", Val::Float(c)),
        ("s", Val::Str("ok".into())),
        ("l", Val::List(vec![Val::Str("ab".into())])),
        ("r", Val::Str("ab12".into())),
        ("m", Val::Int(20)),
        ("d", Val::Int(11)),
    ])
}

fn witnesses() -> Vec<Witness> {
    let w = |id, field, value, strict, as_variable| Witness { id, field, value, strict, as_variable };
    vec![
        // --- u64 value above i64::MAX, integer-literal bound: `value.as_()` converts to i64 and wraps
        w("C08-u64-max-wrap", "maxu64", Val::Int(u64::MAX as i128), false, false),
        w("C08-u64-min-wrap", "minu64", Val::Int(1i128 << 63), false, true),
        w("C08-u64-multiple-wrap", "mou64", Val::Int(18446744073709551610), false, false),
        w("C08-u64-list-max-wrap", "lmaxu64", Val::List(vec![Val::Int(1), Val::Int(u64::MAX as i128)]), false, false),
        w("C08-inputobject-u64-max-wrap", "obj", in_value(u64::MAX as i128, 1.0), false, true),
        // --- Strict mode: "Int" is validated with the first registered integer type's is_valid (i32: is_i64)
        w("C08-u64-strict-literal", "minu64f", Val::Int(u64::MAX as i128), true, false),
        w("C08-u64-strict-variable", "minu64f", Val::Int(1i128 << 63), true, true),
        // --- f64 value, integer-literal bound: the value is truncated with `as i64` before comparing
        w("C08-f64-max-trunc", "maxf64", Val::Float(100.5), true, false),
        w("C08-f64-min-trunc", "minf64zero", Val::Float(-0.5), false, true),
        w("C08-f64-multiple-trunc", "mof64", Val::Float(4.5), true, false),
        w("C08-inputobject-f64-min-trunc", "obj", in_value(5, -0.5), true, false),
        // --- f64 beyond the i64 range saturates: 1e300 is an even integer, becomes i64::MAX (odd)
        w("C08-f64-multiple-saturate", "mof64", Val::Float(1e300), true, false),
        // --- integer value, float-literal bound: the value is converted with `as f64` and rounds
        w("C08-i64-float-bound-round", "maxi64fbig", Val::Int((1i128 << 53) + 1), true, false),
        w("C08-i64-multiple-float-round", "moi64f", Val::Int((1i128 << 53) + 3), false, false),
    ]
}

fn run_witnesses(run: &Run, strict: &S, fast: &S, specs: &[Spec], obj_spec: &Spec) {
    for w in witnesses() {
        let spec = if w.field == "obj" { obj_spec } else { specs.iter().find(|s| s.name == w.field).expect("harness: witness field") };
        let value = w.value.clone();
        let schema = if w.strict { strict } else { fast };
        let out = execute(schema, spec.name, spec.ty, &value, w.as_variable);
        run.eval();
        let seen = norm(&value, spec.ty);
        let want = holds(spec, &seen);
        let obs = match &out {
            Err(p) => format!("panic:{p}"),
            Ok(o) => format!("ran={} errors={}", !o.ran.is_empty(), !o.errors.is_empty()),
        };
        let good = match (&out, want) {
            (Ok(o), Some(true)) => !o.ran.is_empty() && o.errors.is_empty() && o.ran[0] == seen,
            (Ok(o), Some(false)) => o.ran.is_empty() && !o.errors.is_empty(),
            _ => false,
        };
        run.sample_upto(
            40,
            json!({"witness": w.id, "field": spec.name, "validators": format!("{:?}", spec.preds), "value": value.literal(), "mode": mode_name(w.strict),
                   "as_variable": w.as_variable, "predicate_exact": want, "observed": obs,
                   "errors": out.as_ref().map(|o| o.errors.clone()).unwrap_or_default()}),
        );
        if good {
            run.count("witness_behaves", 1);
        } else {
            run.count("witness_violates", 1);
            run.violation(
                &format!("{}|{}", w.id, obs),
                &format!(
                    "witness {}: {}({}) [{} {}] validators {:?} on {:?}: exact predicate = {:?}, observed {}",
                    w.id,
                    spec.name,
                    value.literal(),
                    mode_name(w.strict),
                    if w.as_variable { "variable" } else { "literal" },
                    spec.preds,
                    spec.ty,
                    want,
                    obs
                ),
                json!({"witness": w.id, "field": spec.name, "value": value.literal(), "mode": mode_name(w.strict), "as_variable": w.as_variable}),
            );
        }
    }
}

// ---------------------------------------------------------------------------

pub fn main() {
    let mut run = Run::from_args(
        "exploration",
        "case = (field of the derive-built schema = validator kind(s) x declared type, value, validation mode, literal|variable), executed \
         with schema.execute. Values: at / ±1,2 / ±0.5 / next representable double around every bound, 0 and small numbers, type MIN/MAX, \
         u64 around 2^63 and 2^64 and images of the bound under wrap-around, multiples of the multiple_of bound and neighbours over the \
         whole range, integers around 2^53, huge and fractional doubles; strings sized in chars and in bytes around every length bound \
         with 1..4-byte characters, regex matches and near-misses; lists sized around item bounds with mostly-valid elements; an input \
         object with one validator per field where at most one field offends. Non-trivial: at or next to a bound, beyond i64 or 2^53, \
         fractional, non-ASCII/empty text, regex, any list/object; distinct by hash(field, value, mode, literal|variable).",
    );
    run.assume("oracle: predicates in exact arithmetic for the declared Rust type (integers as i128 incl. u64 above i64::MAX, doubles compared exactly with integer and double bounds, fmod for float multiples), byte length = str::len, char count = chars().count(), item count = Vec::len; list forms apply the scalar predicates to every element and the item-count predicates to the list");
    run.assume("the regex crate (same version the library links) is trusted as the oracle for `regex`");
    run.assume("multiple_of with value 0 is excluded from the oracle: the repository's own unit test pins '0 is rejected' while 0 is mathematically a multiple; neither answer alarms (counted as excluded_multiple_of_zero_*)");
    run.assume("NaN rule: no GraphQL literal or JSON variable denotes NaN/±inf, so non-finite doubles cannot reach a validator through a request and are not generated");
    run.assume("only values of the declared type are sent (type coercion failures are C07's subject); bounds are non-negative literals because the derive macro does not accept a negated literal");
    run.assume("an absent/null optional argument has no value to validate: the resolver must run");
    run.set_max_samples(40);

    let specs = arg_specs();
    let obj_spec = Spec { name: "obj", ty: Ty::In, list_mode: false, preds: vec![] };
    // harness self-check: every multiple_of bound is non-zero and coarse enough for the exact routine
    for s in specs.iter().chain(in_specs().iter()) {
        for p in &s.preds {
            if let Pred::MultipleOf(b) = p {
                let ok = match b {
                    B::I(n) => *n != 0 && n.unsigned_abs() < (1 << 53),
                    B::F(f) => *f != 0.0 && f.is_finite(),
                };
                if !ok {
                    run.inconclusive("harness: bad multiple_of bound in spec");
                }
            }
        }
    }

    let strict = match catch(|| build(ValidationMode::Strict)) {
        Ok(s) => s,
        Err(p) => {
            run.inconclusive(&format!("schema build panicked: {p}"));
            run.finish();
        }
    };
    let fast = build(ValidationMode::Fast);

    let ft = Features {
        u64_above_i64_max_strict: run.feature("u64_above_i64_max_strict"),
        u64_above_i64_max_int_bound: run.feature("u64_above_i64_max_int_bound"),
        fractional_float_vs_int_bound: run.feature("fractional_float_vs_int_bound"),
        float_beyond_i64_vs_int_bound: run.feature("float_beyond_i64_vs_int_bound"),
        int_beyond_2p53_vs_float_bound: run.feature("int_beyond_2p53_vs_float_bound"),
    };
    run.extra(
        "generator_features",
        json!({"u64_above_i64_max_strict": ft.u64_above_i64_max_strict, "u64_above_i64_max_int_bound": ft.u64_above_i64_max_int_bound, "fractional_float_vs_int_bound": ft.fractional_float_vs_int_bound,
               "float_beyond_i64_vs_int_bound": ft.float_beyond_i64_vs_int_bound, "int_beyond_2p53_vs_float_bound": ft.int_beyond_2p53_vs_float_bound}),
    );

    let total = run.scale(60_000, 6_000_000);
    run.set_floors(run.scale(20_000, 1_000_000), run.scale(5_000, 100_000));
    for c in ["accepted_ok", "rejected_ok", "mode_Strict", "mode_Fast", "sent_as_literal", "sent_as_variable"] {
        run.require_counter(c);
    }

    // pinned witnesses first
    run_witnesses(&run, &strict, &fast, &specs, &obj_spec);

    let nshards = 16u64;
    let per = total / nshards;
    let seed = run.seed;
    let (runr, strictr, fastr, specsr, objr) = (&run, &strict, &fast, &specs, &obj_spec);
    let mut jobs: Vec<Box<dyn FnOnce() + Send + '_>> = vec![];
    for shard in 0..nshards {
        jobs.push(Box::new(move || {
            let mut acc = Acc::new();
            let mut r = Rng::new(rng::mix(&[seed, 8, shard]));
            for i in 0..per {
                let spec = if r.chance(1, 8) { objr } else { &specsr[((i + shard) as usize) % specsr.len()] };
                let v = gen_val(&mut r, spec, ft);
                let mut strict_mode = r.bool();
                if !ft.u64_above_i64_max_strict && has_big_u64(&v) {
                    strict_mode = false;
                }
                if has_big_u64(&v) {
                    acc.count("u64_above_i64_max_cases");
                }
                let as_variable = r.bool();
                let out = execute(if strict_mode { strictr } else { fastr }, spec.name, spec.ty, &v, as_variable);
                acc.eval();
                acc.count(if strict_mode { "mode_Strict" } else { "mode_Fast" });
                acc.count(if as_variable { "sent_as_variable" } else { "sent_as_literal" });
                if is_nontrivial(spec, &v) {
                    acc.nontrivial(rng::hash_str(&format!("{}|{}|{}|{}", spec.name, v.literal(), strict_mode, as_variable)));
                }
                let ok = judge(runr, &mut acc, "G-", spec, &v, strict_mode, as_variable, &out);
                if ok {
                    if i < 4 * specsr.len() as u64 {
                        runr.seen("fields_exercised", spec.name);
                    }
                    if i < 3 {
                        runr.sample_upto(
                            40,
                            json!({"field": spec.name, "validators": format!("{:?}", spec.preds), "value": v.literal(), "mode": mode_name(strict_mode), "as_variable": as_variable,
                                   "predicate_exact": holds(spec, &norm(&v, spec.ty)),
                                   "resolver_ran": out.as_ref().map(|o| !o.ran.is_empty()).unwrap_or(false),
                                   "errors": out.as_ref().map(|o| o.errors.clone()).unwrap_or_default()}),
                        );
                    }
                }
            }
            acc.flush(runr);
        }));
    }
    run_jobs(threads(), jobs);
    run.extra("fields_in_schema", json!(specs.len() + 1));
    run.finish();
}
