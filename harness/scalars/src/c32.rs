//! C32 — connection cursors round-trip and pagination arguments are checked.
//!
//!   A  every CursorType impl: decode_cursor(encode_cursor(x)) == x (floats bit-wise; see assumption on NaN)
//!   B  random / hostile cursor strings: decode_cursor returns Ok or Err, never panics; an Ok value re-encodes to
//!      something that decodes to the same value
//!   C  connection::query_with / query: negative first/last or an undecodable after/before -> Err and the closure
//!      is NOT called; otherwise the closure is called once with exactly the decoded values and its result is returned
//!   D  executed connection fields (schema.execute): pageInfo.startCursor/endCursor are the encodings of the first/last
//!      edge cursor (null for no edges), edges[i].cursor likewise, flags and nodes pass through, bad arguments give an
//!      error response without the page-fetching closure having run

use std::sync::{Arc, Mutex};

use async_graphql::connection::{Connection, CursorType, Edge, OpaqueCursor, query, query_with};
use async_graphql::{Context, EmptyMutation, EmptySubscription, Error, ID, Object, Request, Schema, SimpleObject, Value, Variables};
use vh_core::serde_json::{self, json};
use vh_core::vsched::block_on;
use vh_core::{Rng, Run, catch, rng};

use crate::c16::{Tree, gen_tree};
use crate::util::{Acc, gen_char, gen_scalar, gen_string, run_jobs, threads};

// ---------------------------------------------------------------------------
// cursor model

pub trait Cur: CursorType<Error: std::fmt::Display + Send + Sync + 'static> + Send + Sync + Sized + 'static {
    const NAME: &'static str;
    /// whether some strings are undecodable for this type
    const CAN_FAIL: bool;
    fn generate(r: &mut Rng) -> Self;
    fn same(&self, o: &Self) -> bool;
    fn show(&self) -> String;
    fn dup(&self) -> Self;
    /// a value whose text form cannot carry all of its bits (NaN payload/sign): only "is NaN" is asserted
    fn lossy_text(&self) -> bool {
        false
    }
}

fn gen_bits(r: &mut Rng) -> u128 {
    let x = (r.next_u64() as u128) << 64 | r.next_u64() as u128;
    match r.below(6) {
        0 => 0,
        1 => u128::MAX,
        2 => x >> r.below(128),
        3 => 1u128 << r.below(128),
        4 => (1u128 << r.below(128)).wrapping_sub(1),
        _ => x,
    }
}

macro_rules! int_cur {
    ($($t:ty),*) => {$(
        impl Cur for $t {
            const NAME: &'static str = stringify!($t);
            const CAN_FAIL: bool = true;
            fn generate(r: &mut Rng) -> Self {
                match r.below(8) {
                    0 => <$t>::MIN,
                    1 => <$t>::MAX,
                    2 => 0,
                    3 => (r.range(-5, 5) as i128) as $t,
                    _ => gen_bits(r) as $t,
                }
            }
            fn same(&self, o: &Self) -> bool { self == o }
            fn show(&self) -> String { self.to_string() }
            fn dup(&self) -> Self { *self }
        }
    )*};
}
int_cur!(i8, i16, i32, i64, i128, isize, u8, u16, u32, u64, u128, usize);

impl Cur for f64 {
    const NAME: &'static str = "f64";
    const CAN_FAIL: bool = true;
    fn generate(r: &mut Rng) -> Self {
        match r.below(8) {
            0 => *r.pick(&[0.0, -0.0, 1.0, -1.0, 0.1, 5e-324, -5e-324, f64::MAX, f64::MIN, f64::MIN_POSITIVE, 1e21, 1e-7, 1e16, 123456789012345680.0]),
            1 => *r.pick(&[f64::INFINITY, f64::NEG_INFINITY, f64::NAN, -f64::NAN, f64::from_bits(0x7ff0_0000_0000_0001), f64::from_bits(0xfff8_0000_dead_beef)]),
            2 => r.range(-1000, 1000) as f64 / 8.0,
            3 => f64::from_bits(r.next_u64() & 0x800f_ffff_ffff_ffff), // subnormals
            _ => f64::from_bits(r.next_u64()),
        }
    }
    fn same(&self, o: &Self) -> bool {
        if self.is_nan() { o.is_nan() } else { self.to_bits() == o.to_bits() }
    }
    fn show(&self) -> String {
        format!("{self:?} (bits {:016x})", self.to_bits())
    }
    fn dup(&self) -> Self {
        *self
    }
    fn lossy_text(&self) -> bool {
        self.is_nan()
    }
}

impl Cur for f32 {
    const NAME: &'static str = "f32";
    const CAN_FAIL: bool = true;
    fn generate(r: &mut Rng) -> Self {
        match r.below(8) {
            0 => *r.pick(&[0.0f32, -0.0, 1.0, 0.1, 1e-45, -1e-45, f32::MAX, f32::MIN, f32::MIN_POSITIVE, 16777217.0, 1e21]),
            1 => *r.pick(&[f32::INFINITY, f32::NEG_INFINITY, f32::NAN, -f32::NAN, f32::from_bits(0x7f80_0001)]),
            2 => r.range(-1000, 1000) as f32 / 8.0,
            _ => f32::from_bits(r.next_u64() as u32),
        }
    }
    fn same(&self, o: &Self) -> bool {
        if self.is_nan() { o.is_nan() } else { self.to_bits() == o.to_bits() }
    }
    fn show(&self) -> String {
        format!("{self:?} (bits {:08x})", self.to_bits())
    }
    fn dup(&self) -> Self {
        *self
    }
    fn lossy_text(&self) -> bool {
        self.is_nan()
    }
}

impl Cur for char {
    const NAME: &'static str = "char";
    const CAN_FAIL: bool = true;
    fn generate(r: &mut Rng) -> Self {
        if r.bool() { gen_scalar(r) } else { gen_char(r) }
    }
    fn same(&self, o: &Self) -> bool {
        self == o
    }
    fn show(&self) -> String {
        format!("{self:?}")
    }
    fn dup(&self) -> Self {
        *self
    }
}

impl Cur for bool {
    const NAME: &'static str = "bool";
    const CAN_FAIL: bool = true;
    fn generate(r: &mut Rng) -> Self {
        r.bool()
    }
    fn same(&self, o: &Self) -> bool {
        self == o
    }
    fn show(&self) -> String {
        self.to_string()
    }
    fn dup(&self) -> Self {
        *self
    }
}

impl Cur for String {
    const NAME: &'static str = "String";
    const CAN_FAIL: bool = false;
    fn generate(r: &mut Rng) -> Self {
        match r.below(6) {
            0 => String::new(),
            1 => r.pick(&["null", "\"", "\\", "a\nb", " ", "NaN", "-0", "e30=", "\u{0}", "\u{feff}x"]).to_string(),
            _ => gen_string(r, 12),
        }
    }
    fn same(&self, o: &Self) -> bool {
        self == o
    }
    fn show(&self) -> String {
        format!("{self:?}")
    }
    fn dup(&self) -> Self {
        self.clone()
    }
}

impl Cur for ID {
    const NAME: &'static str = "ID";
    const CAN_FAIL: bool = false;
    fn generate(r: &mut Rng) -> Self {
        ID(<String as Cur>::generate(r))
    }
    fn same(&self, o: &Self) -> bool {
        self == o
    }
    fn show(&self) -> String {
        format!("{:?}", self.0)
    }
    fn dup(&self) -> Self {
        self.clone()
    }
}

impl Cur for OpaqueCursor<Tree> {
    const NAME: &'static str = "OpaqueCursor<Tree>";
    const CAN_FAIL: bool = true;
    fn generate(r: &mut Rng) -> Self {
        let d = 1 + r.below(4) as u32;
        OpaqueCursor(gen_tree(r, d))
    }
    fn same(&self, o: &Self) -> bool {
        self.0 == o.0
    }
    fn show(&self) -> String {
        vh_core::run::truncate(&format!("{:?}", self.0), 400)
    }
    fn dup(&self) -> Self {
        OpaqueCursor(self.0.clone())
    }
}

type Key = (u64, String, Option<Vec<i32>>);
impl Cur for OpaqueCursor<Key> {
    const NAME: &'static str = "OpaqueCursor<(u64,String,Option<Vec<i32>>)>";
    const CAN_FAIL: bool = true;
    fn generate(r: &mut Rng) -> Self {
        OpaqueCursor((
            gen_bits(r) as u64,
            gen_string(r, 8),
            if r.bool() { Some((0..r.below(4)).map(|_| gen_bits(r) as i32).collect()) } else { None },
        ))
    }
    fn same(&self, o: &Self) -> bool {
        self.0 == o.0
    }
    fn show(&self) -> String {
        format!("{:?}", self.0)
    }
    fn dup(&self) -> Self {
        OpaqueCursor(self.0.clone())
    }
}

// ---------------------------------------------------------------------------
// A: round trip

fn check_roundtrip<C: Cur>(run: &Run, acc: &mut Acc, x: &C) -> Option<String> {
    acc.eval();
    let enc = match catch(|| x.encode_cursor()) {
        Ok(s) => s,
        Err(p) => {
            run.violation(&format!("A-enc-panic:{:x}", rng::hash_str(&format!("{}|{}", C::NAME, x.show()))), &format!("{}: encode_cursor({}) panicked: {p}", C::NAME, x.show()), json!({"type": C::NAME, "value": x.show()}));
            return None;
        }
    };
    acc.nontrivial(rng::hash_str(&format!("{}|rt|{enc}", C::NAME)));
    match catch(|| C::decode_cursor(&enc).map_err(|e| e.to_string())) {
        Ok(Ok(y)) if x.same(&y) => {
            acc.count(if x.lossy_text() { "roundtrip_nan_stays_nan" } else { "roundtrip_ok" });
        }
        other => {
            let obs = match &other {
                Ok(Ok(y)) => format!("Ok({})", y.show()),
                Ok(Err(e)) => format!("Err({e})"),
                Err(p) => format!("panic: {p}"),
            };
            run.violation(
                &format!("A-roundtrip:{:x}", rng::hash_str(&format!("{}|{}", C::NAME, x.show()))),
                &format!("{}: decode_cursor(encode_cursor(x)) != x: x = {}; encoded = {:?}; decoded = {}", C::NAME, x.show(), vh_core::run::truncate(&enc, 300), obs),
                json!({"type": C::NAME, "value": x.show(), "encoded": enc, "decoded": obs}),
            );
        }
    }
    Some(enc)
}

// ---------------------------------------------------------------------------
// B: hostile strings

fn hostile_string(r: &mut Rng) -> String {
    use base64::Engine;
    let b64 = base64::engine::general_purpose::URL_SAFE_NO_PAD;
    match r.below(14) {
        0 => String::new(),
        1 => r.pick(&["+5", "-0", " 5", "5 ", "0x10", "1e5", "1_000", "٣", "５", "--1", "+", "-", "+-1", "00000000000000000000000000000000000000001", "1.0", ".5", "5."]).to_string(),
        2 => r.pick(&["nan", "NaN", "NAN", "inf", "-inf", "+inf", "infinity", "-Infinity", "1e400", "-1e400", "1e-400", "0e0", "1e", "e1", "1e+", "0x1p3", "1f32", "١٫٥"]).to_string(),
        3 => r.pick(&["true", "false", "True", "TRUE", "1", "0", "yes", " true", "true "]).to_string(),
        4 => {
            // very long digit strings / overflow edges
            let n = r.below(60) + 1;
            let mut s: String = (0..n).map(|_| (b'0' + r.below(10) as u8) as char).collect();
            if r.bool() {
                s.insert(0, '-');
            }
            s
        }
        5 => r.pick(&["340282366920938463463374607431768211455", "340282366920938463463374607431768211456", "-170141183460469231731687303715884105728", "-170141183460469231731687303715884105729", "18446744073709551616", "-9223372036854775809", "256", "-129", "65536", "4294967296"]).to_string(),
        6 => b64.encode(gen_string(r, 12)),                              // valid base64, usually not JSON
        7 => b64.encode(r.pick(&["null", "{}", "[]", "0", "\"x\"", "{\"Int\":", "[1,2", "\"Nothing\"", "{\"Int\":1}", "{\"Int\":1,\"Big\":2}", "{\"Nope\":1}", "[[[[[[[[[[[[[[[[", "{\"Seq\":[{\"Opt\":null}]}", "[1,\"a\",null]", "[1,\"a\",[1,2]]", "[1,\"a\"]"])),
        8 => format!("{}=", b64.encode(gen_string(r, 5))),                // padding where none is allowed
        9 => r.pick(&["e30", "e30=", "e3 0", "e30\n", "+/+/", "-_-_", "A", "AA", "AAA", "====", "é", "😀"]).to_string(),
        10 => {
            // deep nesting inside valid base64 (recursion limit of the JSON parser)
            let n = r.below(300) + 1;
            b64.encode(format!("{}{}", "{\"Seq\":[".repeat(n), "]}".repeat(n)))
        }
        11 => b64.encode((0..r.below(12)).map(|_| gen_bits(r) as u8).collect::<Vec<u8>>()), // not UTF-8
        12 => gen_char(r).to_string(),
        _ => gen_string(r, 10),
    }
}

fn check_hostile<C: Cur>(run: &Run, acc: &mut Acc, s: &str) -> bool {
    acc.eval();
    acc.nontrivial(rng::hash_str(&format!("{}|hostile|{s}", C::NAME)));
    match catch(|| C::decode_cursor(s).map_err(|e| e.to_string())) {
        Err(p) => {
            run.violation(
                &format!("B-panic:{:x}", rng::hash_str(&format!("{}|{s}", C::NAME))),
                &format!("{}: decode_cursor({:?}) panicked: {p}", C::NAME, vh_core::run::truncate(s, 200)),
                json!({"type": C::NAME, "string": s}),
            );
            false
        }
        Ok(Err(_)) => {
            acc.count("hostile_string_rejected");
            false
        }
        Ok(Ok(v)) => {
            acc.count("hostile_string_decoded");
            // whatever it decoded to must be a stable cursor value
            let again = catch(|| C::decode_cursor(&v.encode_cursor()).map_err(|e| e.to_string()));
            match again {
                Ok(Ok(w)) if v.same(&w) => {}
                other => {
                    let obs = match &other {
                        Ok(Ok(w)) => format!("Ok({})", w.show()),
                        Ok(Err(e)) => format!("Err({e})"),
                        Err(p) => format!("panic: {p}"),
                    };
                    run.violation(
                        &format!("B-unstable:{:x}", rng::hash_str(&format!("{}|{s}", C::NAME))),
                        &format!("{}: {:?} decodes to {} whose own encoding decodes to {}", C::NAME, vh_core::run::truncate(s, 200), v.show(), obs),
                        json!({"type": C::NAME, "string": s}),
                    );
                }
            }
            true
        }
    }
}

/// A string that decode_cursor of C refuses (found by asking decode itself).
fn bad_cursor_for<C: Cur>(r: &mut Rng) -> Option<String> {
    if !C::CAN_FAIL {
        return None;
    }
    for _ in 0..50 {
        let s = hostile_string(r);
        if let Ok(Err(_)) = catch(|| C::decode_cursor(&s).map_err(|e| e.to_string())) {
            return Some(s);
        }
    }
    None
}

// ---------------------------------------------------------------------------
// C: query_with / query

#[derive(Clone, Copy, PartialEq, Debug)]
enum CurArg {
    Absent,
    Valid,
    Bad,
}

fn gen_count(r: &mut Rng) -> Option<i32> {
    match r.below(10) {
        0 | 1 | 2 => None,
        3 => Some(*r.pick(&[-1, i32::MIN, -2, i32::MIN + 1, -1000])),
        4 => Some(-(r.below(1 << 30) as i32) - 1),
        5 => Some(0),
        6 => Some(i32::MAX),
        _ => Some(r.below(50) as i32),
    }
}

struct Args<C> {
    after_kind: CurArg,
    before_kind: CurArg,
    after_val: Option<C>,
    before_val: Option<C>,
    after: Option<String>,
    before: Option<String>,
    first: Option<i32>,
    last: Option<i32>,
}

impl<C: Cur> Args<C> {
    fn generate(r: &mut Rng) -> Args<C> {
        let side = |r: &mut Rng| -> (CurArg, Option<C>, Option<String>) {
            match r.below(8) {
                0 | 1 | 2 => (CurArg::Absent, None, None),
                3 => match bad_cursor_for::<C>(r) {
                    Some(s) => (CurArg::Bad, None, Some(s)),
                    None => (CurArg::Absent, None, None),
                },
                _ => {
                    let v = C::generate(r);
                    let s = v.encode_cursor();
                    (CurArg::Valid, Some(v), Some(s))
                }
            }
        };
        let (after_kind, after_val, after) = side(r);
        let (before_kind, before_val, before) = side(r);
        // keep most cases error-free so that the pass-through side is well covered
        let (first, last) = if r.chance(1, 3) { (gen_count(r), gen_count(r)) } else { (gen_count(r).filter(|n| *n >= 0), gen_count(r).filter(|n| *n >= 0)) };
        Args { after_kind, before_kind, after_val, before_val, after, before, first, last }
    }
    fn must_fail(&self) -> bool {
        self.first.map(|n| n < 0).unwrap_or(false) || self.last.map(|n| n < 0).unwrap_or(false) || self.after_kind == CurArg::Bad || self.before_kind == CurArg::Bad
    }
    fn describe(&self) -> String {
        format!(
            "after={:?}({:?}) before={:?}({:?}) first={:?} last={:?}",
            self.after.as_ref().map(|s| vh_core::run::truncate(s, 80)),
            self.after_kind,
            self.before.as_ref().map(|s| vh_core::run::truncate(s, 80)),
            self.before_kind,
            self.first,
            self.last
        )
    }
    fn class(&self) -> String {
        format!(
            "after:{:?} before:{:?} first:{} last:{}",
            self.after_kind,
            self.before_kind,
            match self.first {
                None => "none",
                Some(n) if n < 0 => "neg",
                Some(0) => "zero",
                _ => "pos",
            },
            match self.last {
                None => "none",
                Some(n) if n < 0 => "neg",
                Some(0) => "zero",
                _ => "pos",
            }
        )
    }
}

type Seen<C> = Mutex<Vec<(Option<C>, Option<C>, Option<usize>, Option<usize>)>>;

/// Compare what the closure received with what was sent. Returns a description of the difference.
fn received_matches<C: Cur>(args: &Args<C>, seen: &(Option<C>, Option<C>, Option<usize>, Option<usize>)) -> Option<String> {
    let cmp = |sent: &Option<C>, got: &Option<C>, name: &str| -> Option<String> {
        match (sent, got) {
            (None, None) => None,
            (Some(a), Some(b)) if a.same(b) => None,
            (a, b) => Some(format!("{name}: sent {:?}, closure received {:?}", a.as_ref().map(|x| x.show()), b.as_ref().map(|x| x.show()))),
        }
    };
    if let Some(d) = cmp(&args.after_val, &seen.0, "after") {
        return Some(d);
    }
    if let Some(d) = cmp(&args.before_val, &seen.1, "before") {
        return Some(d);
    }
    if args.first.map(|n| n as usize) != seen.2 {
        return Some(format!("first: sent {:?}, closure received {:?}", args.first, seen.2));
    }
    if args.last.map(|n| n as usize) != seen.3 {
        return Some(format!("last: sent {:?}, closure received {:?}", args.last, seen.3));
    }
    None
}

fn check_query_with<C: Cur>(run: &Run, acc: &mut Acc, r: &mut Rng) {
    let args = Args::<C>::generate(r);
    let closure_fails = r.chance(1, 6);
    let marker = r.next_u64();
    acc.eval();
    acc.nontrivial(rng::hash_str(&format!("{}|qw|{}|{closure_fails}", C::NAME, args.describe())));
    acc.seen("query_with_argument_classes", args.class());
    let seen: Seen<C> = Mutex::new(vec![]);
    let res = catch(|| {
        block_on(query_with::<C, u64, _, _, Error>(args.after.clone(), args.before.clone(), args.first, args.last, |a, b, f, l| {
            seen.lock().unwrap().push((a, b, f, l));
            async move { if closure_fails { Err(Error::new("harness: page fetch failed")) } else { Ok(marker) } }
        }))
    });
    let calls = seen.into_inner().unwrap();
    let sig = |k: &str| format!("C-{k}:{:x}", rng::hash_str(&format!("{}|{}", C::NAME, args.describe())));
    let case = json!({"cursor_type": C::NAME, "args": args.describe(), "closure_fails": closure_fails});
    let res = match res {
        Ok(r) => r,
        Err(p) => {
            run.violation(&sig("panic"), &format!("query_with::<{}> panicked for {}: {p}", C::NAME, args.describe()), case);
            return;
        }
    };
    if args.must_fail() {
        if !calls.is_empty() {
            run.violation(&sig("called"), &format!("query_with::<{}>: page-fetching closure was called although the arguments are invalid: {}", C::NAME, args.describe()), case);
        } else if res.is_ok() {
            run.violation(&sig("no-error"), &format!("query_with::<{}>: invalid arguments produced Ok: {}", C::NAME, args.describe()), case);
        } else {
            acc.count("query_with_rejected_before_closure");
        }
        return;
    }
    if calls.len() != 1 {
        run.violation(&sig("calls"), &format!("query_with::<{}>: closure called {} times for valid arguments {} (result {:?})", C::NAME, calls.len(), args.describe(), res.as_ref().map_err(|e| e.message.clone())), case);
        return;
    }
    if let Some(diff) = received_matches(&args, &calls[0]) {
        run.violation(&sig("altered"), &format!("query_with::<{}>: {diff}; args {}", C::NAME, args.describe()), case);
        return;
    }
    match (&res, closure_fails) {
        (Ok(m), false) if *m == marker => acc.count("query_with_passed_through"),
        (Err(e), true) if e.message == "harness: page fetch failed" => acc.count("query_with_closure_error_passed_through"),
        _ => run.violation(&sig("result"), &format!("query_with::<{}>: result {:?} is not the closure's result (closure_fails={closure_fails}) for {}", C::NAME, res.as_ref().map_err(|e| e.message.clone()), args.describe()), case),
    }
}

// ---------------------------------------------------------------------------
// D: executed connection fields

pub struct Plan<C> {
    cursors: Vec<C>,
    prev: bool,
    next: bool,
    seen: Seen<C>,
}

macro_rules! node_types { ($($n:ident),*) => {$(
    #[derive(SimpleObject)]
    pub struct $n { v: i32 }
    impl From<i32> for $n { fn from(v: i32) -> Self { $n { v } } }
)*}; }
node_types!(NUsize, NI64, NF64, NF32, NChar, NBool, NString, NId, NOpaque, NKey, NSlice);

async fn conn<C: Cur, N: async_graphql::OutputType + From<i32>>(
    ctx: &Context<'_>,
    after: Option<String>,
    before: Option<String>,
    first: Option<i32>,
    last: Option<i32>,
) -> async_graphql::Result<Connection<C, N>> {
    let plan = ctx.data::<Arc<Plan<C>>>()?.clone();
    query(after, before, first, last, |a, b, f, l| async move {
        plan.seen.lock().unwrap().push((a, b, f, l));
        let mut c = Connection::new(plan.prev, plan.next);
        for (i, cur) in plan.cursors.iter().enumerate() {
            c.edges.push(Edge::new(cur.dup(), N::from(i as i32)));
        }
        Ok::<_, Error>(c)
    })
    .await
}

pub struct Q;

macro_rules! conn_fields { ($( $name:ident : $c:ty => $n:ty ; )*) => {
    #[Object]
    impl Q {
        $(
            async fn $name(&self, ctx: &Context<'_>, after: Option<String>, before: Option<String>, first: Option<i32>, last: Option<i32>) -> async_graphql::Result<Connection<$c, $n>> {
                conn::<$c, $n>(ctx, after, before, first, last).await
            }
        )*
        /// The documented slice pagination over 0..total with integer cursors.
        async fn slice(&self, ctx: &Context<'_>, total: i32, after: Option<String>, before: Option<String>, first: Option<i32>, last: Option<i32>) -> async_graphql::Result<Connection<usize, NSlice>> {
            let calls = ctx.data::<Arc<Mutex<u32>>>()?.clone();
            let total = total.max(0) as usize;
            query(after, before, first, last, |after, before, first, last| async move {
                *calls.lock().unwrap() += 1;
                let mut start = after.map(|a: usize| a.saturating_add(1)).unwrap_or(0).min(total);
                let mut end = before.unwrap_or(total).min(total).max(start);
                if let Some(first) = first {
                    end = start.saturating_add(first).min(end);
                }
                if let Some(last) = last {
                    start = if last > end - start { start } else { end - last };
                }
                let mut c = Connection::new(start > 0, end < total);
                c.edges.extend((start..end).map(|n| Edge::new(n, NSlice { v: n as i32 })));
                Ok::<_, Error>(c)
            })
            .await
        }
    }
}; }

conn_fields! {
    cusize: usize => NUsize;
    ci64: i64 => NI64;
    cf64: f64 => NF64;
    cf32: f32 => NF32;
    cchar: char => NChar;
    cbool: bool => NBool;
    cstring: String => NString;
    cid: ID => NId;
    copaque: OpaqueCursor<Tree> => NOpaque;
    ckey: OpaqueCursor<Key> => NKey;
}

type S = Schema<Q, EmptyMutation, EmptySubscription>;

const SELECTION: &str = "{ pageInfo { hasPreviousPage hasNextPage startCursor endCursor } edges { cursor node { v } } nodes { v } }";

fn lit(s: &Option<String>) -> String {
    match s {
        None => "null".into(),
        Some(s) => serde_json::to_string(s).unwrap(),
    }
}
fn lit_n(n: &Option<i32>) -> String {
    n.map(|n| n.to_string()).unwrap_or_else(|| "null".into())
}

fn build_request<C: Cur>(field: &str, args: &Args<C>, as_variables: bool, r: &mut Rng) -> Request {
    if as_variables {
        let q = format!("query($a: String, $b: String, $f: Int, $l: Int) {{ {field}(after: $a, before: $b, first: $f, last: $l) {SELECTION} }}");
        Request::new(q).variables(Variables::from_json(json!({"a": args.after, "b": args.before, "f": args.first, "l": args.last})))
    } else {
        // absent arguments are either omitted or written as null
        let mut parts = vec![];
        let omit = r.bool();
        if !(omit && args.after.is_none()) {
            parts.push(format!("after: {}", lit(&args.after)));
        }
        if !(omit && args.before.is_none()) {
            parts.push(format!("before: {}", lit(&args.before)));
        }
        if !(omit && args.first.is_none()) {
            parts.push(format!("first: {}", lit_n(&args.first)));
        }
        if !(omit && args.last.is_none()) {
            parts.push(format!("last: {}", lit_n(&args.last)));
        }
        let a = if parts.is_empty() { String::new() } else { format!("({})", parts.join(", ")) };
        Request::new(format!("{{ {field}{a} {SELECTION} }}"))
    }
}

fn get<'a>(v: &'a Value, path: &[&str]) -> Option<&'a Value> {
    let mut cur = v;
    for p in path {
        match cur {
            Value::Object(m) => cur = m.get(*p)?,
            _ => return None,
        }
    }
    Some(cur)
}

fn check_executed<C: Cur>(run: &Run, acc: &mut Acc, r: &mut Rng, schema: &S, field: &'static str) {
    let args = Args::<C>::generate(r);
    let n_edges = match r.below(5) {
        0 => 0,
        1 => 1,
        _ => r.below(5) + 1,
    };
    let plan = Arc::new(Plan::<C> { cursors: (0..n_edges).map(|_| C::generate(r)).collect(), prev: r.bool(), next: r.bool(), seen: Mutex::new(vec![]) });
    let as_variables = r.bool();
    acc.seen("executed_argument_classes", args.class());
    let req = build_request(field, &args, as_variables, r).data(plan.clone());
    acc.eval();
    acc.nontrivial(rng::hash_str(&format!("{}|exec|{}|{}|{as_variables}", C::NAME, args.describe(), plan.cursors.iter().map(|c| c.show()).collect::<Vec<_>>().join(","))));
    let sig = |k: &str| format!("D-{k}:{:x}", rng::hash_str(&format!("{}|{}|{}", C::NAME, args.describe(), plan.cursors.iter().map(|c| c.show()).collect::<Vec<_>>().join(","))));
    let case = json!({"field": field, "cursor_type": C::NAME, "args": args.describe(), "as_variables": as_variables,
                      "edge_cursors": plan.cursors.iter().map(|c| c.show()).collect::<Vec<_>>(), "prev": plan.prev, "next": plan.next});
    let resp = match catch(|| block_on(schema.execute(req))) {
        Ok(r) => r,
        Err(p) => {
            run.violation(&sig("panic"), &format!("{field}: execute panicked for {}: {p}", args.describe()), case);
            return;
        }
    };
    let calls = plan.seen.lock().unwrap();
    let errors: Vec<String> = resp.errors.iter().map(|e| e.message.clone()).collect();
    if args.must_fail() {
        if !calls.is_empty() {
            run.violation(&sig("called"), &format!("{field}: the page-fetching closure ran although the arguments are invalid: {}", args.describe()), case);
        } else if errors.is_empty() {
            run.violation(&sig("no-error"), &format!("{field}: invalid arguments {} produced no error; data = {}", args.describe(), resp.data), case);
        } else if get(&resp.data, &[field]).map(|v| *v != Value::Null).unwrap_or(false) {
            run.violation(&sig("data-with-error"), &format!("{field}: invalid arguments {} produced data {}", args.describe(), resp.data), case);
        } else {
            acc.count("executed_rejected_before_closure");
        }
        return;
    }
    if !errors.is_empty() || calls.len() != 1 {
        run.violation(&sig("valid-failed"), &format!("{field}: valid arguments {}: errors {errors:?}, closure calls {}", args.describe(), calls.len()), case);
        return;
    }
    if let Some(diff) = received_matches(&args, &calls[0]) {
        run.violation(&sig("altered"), &format!("{field}: {diff}; args {}", args.describe()), case);
        return;
    }
    // response shape
    let want_cursors: Vec<Value> = plan.cursors.iter().map(|c| Value::String(c.encode_cursor())).collect();
    let edges = match get(&resp.data, &[field, "edges"]) {
        Some(Value::List(e)) => e.clone(),
        other => {
            run.violation(&sig("shape"), &format!("{field}: edges missing: {other:?}"), case);
            return;
        }
    };
    let got_cursors: Vec<Value> = edges.iter().map(|e| get(e, &["cursor"]).cloned().unwrap_or(Value::Null)).collect();
    let got_nodes: Vec<Value> = edges.iter().map(|e| get(e, &["node", "v"]).cloned().unwrap_or(Value::Null)).collect();
    let want_nodes: Vec<Value> = (0..plan.cursors.len()).map(|i| Value::from(i as i32)).collect();
    let nodes_field: Vec<Value> = match get(&resp.data, &[field, "nodes"]) {
        Some(Value::List(n)) => n.iter().map(|x| get(x, &["v"]).cloned().unwrap_or(Value::Null)).collect(),
        _ => vec![Value::Null],
    };
    if got_cursors != want_cursors || got_nodes != want_nodes || nodes_field != want_nodes {
        run.violation(
            &sig("edges"),
            &format!("{field}: edges differ from what the resolver returned: cursors {got_cursors:?} (want {want_cursors:?}), nodes {got_nodes:?}, nodes field {nodes_field:?}"),
            case,
        );
        return;
    }
    let start = get(&resp.data, &[field, "pageInfo", "startCursor"]).cloned();
    let end = get(&resp.data, &[field, "pageInfo", "endCursor"]).cloned();
    let want_start = want_cursors.first().cloned().unwrap_or(Value::Null);
    let want_end = want_cursors.last().cloned().unwrap_or(Value::Null);
    let hp = get(&resp.data, &[field, "pageInfo", "hasPreviousPage"]).cloned();
    let hn = get(&resp.data, &[field, "pageInfo", "hasNextPage"]).cloned();
    if start != Some(want_start.clone()) || end != Some(want_end.clone()) {
        run.violation(
            &sig("pageinfo"),
            &format!("{field}: pageInfo start/end = {start:?}/{end:?}, encodings of the first/last edge cursor = {want_start:?}/{want_end:?}"),
            case,
        );
        return;
    }
    if hp != Some(Value::Boolean(plan.prev)) || hn != Some(Value::Boolean(plan.next)) {
        run.violation(&sig("flags"), &format!("{field}: hasPreviousPage/hasNextPage = {hp:?}/{hn:?}, resolver set {}/{}", plan.prev, plan.next), case);
        return;
    }
    // the emitted start cursor is a usable `after` argument: it decodes to the first edge's cursor
    if let (Some(Value::String(s)), Some(first)) = (&start, plan.cursors.first()) {
        match catch(|| C::decode_cursor(s).map_err(|e| e.to_string())) {
            Ok(Ok(v)) if v.same(first) => {}
            other => {
                let obs = match &other {
                    Ok(Ok(v)) => format!("Ok({})", v.show()),
                    Ok(Err(e)) => format!("Err({e})"),
                    Err(p) => format!("panic {p}"),
                };
                run.violation(&sig("start-undecodable"), &format!("{field}: startCursor {s:?} decodes to {obs}, the first edge's cursor is {}", first.show()), case);
                return;
            }
        }
    }
    acc.count(if plan.cursors.is_empty() { "executed_empty_page_null_cursors" } else { "executed_pageinfo_ok" });
    if acc.evals % 1000 < 3 {
        run.sample_upto(30, json!({"executed": case, "pageInfo": get(&resp.data, &[field, "pageInfo"]).map(|v| v.to_string())}));
    }
}

/// The documented slice pagination: independent model of which items a page holds.
fn check_slice(run: &Run, acc: &mut Acc, r: &mut Rng, schema: &S) {
    let total = r.below(12) as i32;
    let after = if r.chance(1, 3) { Some(r.below(14)) } else { None };
    let before = if r.chance(1, 3) { Some(r.below(14)) } else { None };
    let first = gen_count(r);
    let last = gen_count(r);
    let calls = Arc::new(Mutex::new(0u32));
    let q = format!(
        "{{ slice(total: {total}, after: {}, before: {}, first: {}, last: {}) {SELECTION} }}",
        lit(&after.map(|a| a.to_string())),
        lit(&before.map(|a| a.to_string())),
        lit_n(&first),
        lit_n(&last)
    );
    acc.eval();
    acc.nontrivial(rng::hash_str(&q));
    let case = json!({"query": q});
    let resp = match catch(|| block_on(schema.execute(Request::new(q.clone()).data(calls.clone())))) {
        Ok(r) => r,
        Err(p) => {
            run.violation(&format!("D-slice-panic:{:x}", rng::hash_str(&q)), &format!("execute panicked: {p}: {q}"), case);
            return;
        }
    };
    let neg = first.map(|n| n < 0).unwrap_or(false) || last.map(|n| n < 0).unwrap_or(false);
    let ncalls = *calls.lock().unwrap();
    if neg {
        if ncalls != 0 || resp.errors.is_empty() {
            run.violation(&format!("D-slice-neg:{:x}", rng::hash_str(&q)), &format!("negative first/last: closure calls {ncalls}, errors {:?}: {q}", resp.errors), case);
        } else {
            acc.count("executed_rejected_before_closure");
        }
        return;
    }
    // model (Relay): items after `after`, before `before`, then first n, then last n
    let total = total as usize;
    let mut items: Vec<usize> = (0..total).collect();
    if let Some(a) = after {
        items.retain(|x| *x > a);
    }
    if let Some(b) = before {
        items.retain(|x| *x < b);
    }
    if let Some(f) = first {
        items.truncate(f as usize);
    }
    if let Some(l) = last {
        let l = l as usize;
        if items.len() > l {
            items.drain(..items.len() - l);
        }
    }
    let got: Vec<Value> = match get(&resp.data, &["slice", "edges"]) {
        Some(Value::List(e)) => e.iter().map(|x| get(x, &["cursor"]).cloned().unwrap_or(Value::Null)).collect(),
        _ => vec![Value::Null],
    };
    let want: Vec<Value> = items.iter().map(|n| Value::String(n.to_string())).collect();
    let start = get(&resp.data, &["slice", "pageInfo", "startCursor"]).cloned();
    let end = get(&resp.data, &["slice", "pageInfo", "endCursor"]).cloned();
    if ncalls != 1 || !resp.errors.is_empty() || got != want || start != Some(want.first().cloned().unwrap_or(Value::Null)) || end != Some(want.last().cloned().unwrap_or(Value::Null)) {
        run.violation(
            &format!("D-slice:{:x}", rng::hash_str(&q)),
            &format!("slice page differs: calls {ncalls}, errors {:?}, edge cursors {got:?} (model {want:?}), start/end {start:?}/{end:?}: {q}", resp.errors),
            case,
        );
    } else {
        acc.count("executed_slice_page_ok");
    }
}

// ---------------------------------------------------------------------------

fn for_type<C: Cur>(run: &Run, acc: &mut Acc, r: &mut Rng, sample: bool, n_rt: u64, n_hostile: u64, n_query: u64) {
    let mut decoded = 0u64;
    for i in 0..n_rt {
        let x = C::generate(r);
        let enc = check_roundtrip(run, acc, &x);
        if i == 3 && sample {
            run.sample_upto(30, json!({"cursor_type": C::NAME, "value": x.show(), "encoded": enc.map(|e| vh_core::run::truncate(&e, 200))}));
        }
    }
    for _ in 0..n_hostile {
        let s = hostile_string(r);
        if check_hostile::<C>(run, acc, &s) {
            decoded += 1;
        }
    }
    let _ = decoded;
    for _ in 0..n_query {
        check_query_with::<C>(run, acc, r);
    }
    run.seen("cursor_types", C::NAME);
}

pub fn main() {
    let mut run = Run::from_args(
        "exploration",
        "A: random values of every CursorType impl (all 12 integer types over bit patterns and MIN/MAX/0, f32/f64 over bit patterns incl. \
         ±0, subnormals, ±inf and NaNs with payloads, char over all scalar classes, bool, String/ID over Unicode strings, OpaqueCursor over \
         the nested serde enum of C16 (depth 1..4) and over a tuple) encoded and decoded. B: hostile strings (signs, spaces, non-ASCII \
         digits, overflow edges, nan/inf spellings, base64 of non-JSON / wrong-shape JSON / deep nesting / non-UTF-8, bad padding) given to \
         decode_cursor of every type. C: query_with over (after, before) in {absent, valid, undecodable} x (first, last) in {absent, negative \
         incl. i32::MIN, 0, positive incl. i32::MAX}, closure succeeding or failing. D: the same argument space sent through schema.execute \
         (literals, nulls, omitted, variables) to connection fields of 10 cursor types whose resolver returns 0..5 edges with random \
         cursors, plus the documented slice pagination checked against a list model. Distinct by hash of (type, encoded value / string / \
         arguments + edge cursors); every case is non-trivial.",
    );
    run.assume("round trip means decode_cursor(encode_cursor(x)) is bit-identical to x; exception stated here: a float NaN is only required to come back as a NaN, because the cursor is the value's Display text ('NaN') which cannot carry sign or payload (counted as roundtrip_nan_stays_nan)");
    run.assume("'undecodable' is defined by decode_cursor itself: a string is used as an undecodable after/before only after decode_cursor returned Err for it; String and ID accept every string and get no undecodable cases");
    run.assume("OpaqueCursor payloads exclude non-finite floats (JSON cannot hold them) and use string map keys");
    run.assume("first and last given together is not an error of query_with (the Relay spec only discourages it): both must reach the closure unchanged");
    run.assume("the slice resolver and its list model (after/before exclusive, then first, then last) are harness code; only pageInfo/edges consistency and argument handling are the library's");
    run.set_max_samples(30);
    let scale = run.scale(1, 100);
    run.set_floors(run.scale(200_000, 20_000_000), run.scale(100_000, 5_000_000));
    for c in ["roundtrip_ok", "roundtrip_nan_stays_nan", "hostile_string_rejected", "hostile_string_decoded", "query_with_rejected_before_closure", "query_with_passed_through",
              "query_with_closure_error_passed_through", "executed_rejected_before_closure", "executed_pageinfo_ok", "executed_empty_page_null_cursors", "executed_slice_page_ok"] {
        run.require_counter(c);
    }

    let schema: S = match catch(|| Schema::build(Q, EmptyMutation, EmptySubscription).finish()) {
        Ok(s) => s,
        Err(p) => {
            run.inconclusive(&format!("schema build panicked: {p}"));
            run.finish();
        }
    };

    let seed = run.seed;
    let nshards = 16u64;
    let (runr, schemar) = (&run, &schema);
    let mut jobs: Vec<Box<dyn FnOnce() + Send + '_>> = vec![];
    for shard in 0..nshards {
        jobs.push(Box::new(move || {
            let mut acc = Acc::new();
            let mut r = Rng::new(rng::mix(&[seed, 32, shard]));
            let (a, b, c) = (600 * scale, 300 * scale, 200 * scale);
            let sm = shard == 0;
            for_type::<i8>(runr, &mut acc, &mut r, sm, a, b, c);
            for_type::<i16>(runr, &mut acc, &mut r, sm, a, b, c);
            for_type::<i32>(runr, &mut acc, &mut r, sm, a, b, c);
            for_type::<i64>(runr, &mut acc, &mut r, sm, a, b, c);
            for_type::<i128>(runr, &mut acc, &mut r, sm, a, b, c);
            for_type::<isize>(runr, &mut acc, &mut r, sm, a, b, c);
            for_type::<u8>(runr, &mut acc, &mut r, sm, a, b, c);
            for_type::<u16>(runr, &mut acc, &mut r, sm, a, b, c);
            for_type::<u32>(runr, &mut acc, &mut r, sm, a, b, c);
            for_type::<u64>(runr, &mut acc, &mut r, sm, a, b, c);
            for_type::<u128>(runr, &mut acc, &mut r, sm, a, b, c);
            for_type::<usize>(runr, &mut acc, &mut r, sm, a, b, c);
            for_type::<f64>(runr, &mut acc, &mut r, sm, 2 * a, b, c);
            for_type::<f32>(runr, &mut acc, &mut r, sm, 2 * a, b, c);
            for_type::<char>(runr, &mut acc, &mut r, sm, a, b, c);
            for_type::<bool>(runr, &mut acc, &mut r, sm, a / 10, b, c);
            for_type::<String>(runr, &mut acc, &mut r, sm, a, b, c);
            for_type::<ID>(runr, &mut acc, &mut r, sm, a, b, c);
            for_type::<OpaqueCursor<Tree>>(runr, &mut acc, &mut r, sm, a, 2 * b, c);
            for_type::<OpaqueCursor<Key>>(runr, &mut acc, &mut r, sm, a, 2 * b, c);
            // executed fields
            for _ in 0..(60 * scale) {
                check_executed::<usize>(runr, &mut acc, &mut r, schemar, "cusize");
                check_executed::<i64>(runr, &mut acc, &mut r, schemar, "ci64");
                check_executed::<f64>(runr, &mut acc, &mut r, schemar, "cf64");
                check_executed::<f32>(runr, &mut acc, &mut r, schemar, "cf32");
                check_executed::<char>(runr, &mut acc, &mut r, schemar, "cchar");
                check_executed::<bool>(runr, &mut acc, &mut r, schemar, "cbool");
                check_executed::<String>(runr, &mut acc, &mut r, schemar, "cstring");
                check_executed::<ID>(runr, &mut acc, &mut r, schemar, "cid");
                check_executed::<OpaqueCursor<Tree>>(runr, &mut acc, &mut r, schemar, "copaque");
                check_executed::<OpaqueCursor<Key>>(runr, &mut acc, &mut r, schemar, "ckey");
                check_slice(runr, &mut acc, &mut r, schemar);
                check_slice(runr, &mut acc, &mut r, schemar);
            }
            acc.flush(runr);
        }));
    }
    run_jobs(threads(), jobs);

    run.finish();
}
