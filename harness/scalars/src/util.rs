//! Small helpers shared by the checks of this engine.

use std::collections::BTreeMap;
use std::sync::atomic::{AtomicUsize, Ordering};

use vh_core::{Rng, Run};

/// Thread-local accumulator, flushed into the shared `Run` once per job so the
/// hot loops do not take the evidence mutex for every call.
#[derive(Default)]
pub struct Acc {
    pub evals: u64,
    pub counts: BTreeMap<&'static str, u64>,
    pub distinct: std::collections::HashSet<u64>,
    pub sets: std::collections::BTreeSet<(&'static str, String)>,
}

impl Acc {
    pub fn new() -> Acc {
        Acc::default()
    }
    #[inline]
    pub fn eval(&mut self) {
        self.evals += 1;
    }
    #[inline]
    pub fn count(&mut self, k: &'static str) {
        *self.counts.entry(k).or_insert(0) += 1;
    }
    #[inline]
    pub fn nontrivial(&mut self, h: u64) {
        self.distinct.insert(h);
    }
    pub fn seen(&mut self, set: &'static str, member: String) {
        self.sets.insert((set, member));
    }
    pub fn flush(&mut self, run: &Run) {
        for (k, m) in std::mem::take(&mut self.sets) {
            run.seen(k, &m);
        }
        run.evals(self.evals);
        self.evals = 0;
        for (k, v) in std::mem::take(&mut self.counts) {
            run.count(k, v);
        }
        for h in self.distinct.drain() {
            run.nontrivial(h);
        }
    }
}

/// Run `jobs` on up to `threads` workers. Job `i` is always the same work with
/// the same RNG stream, whichever worker picks it up (determinism).
pub fn run_jobs<'a>(threads: usize, jobs: Vec<Box<dyn FnOnce() + Send + 'a>>) {
    let n = jobs.len();
    let slots: Vec<std::sync::Mutex<Option<Box<dyn FnOnce() + Send + 'a>>>> =
        jobs.into_iter().map(|j| std::sync::Mutex::new(Some(j))).collect();
    let next = AtomicUsize::new(0);
    std::thread::scope(|s| {
        for _ in 0..threads.min(n).max(1) {
            s.spawn(|| {
                loop {
                    let i = next.fetch_add(1, Ordering::SeqCst);
                    if i >= n {
                        break;
                    }
                    let job = slots[i].lock().unwrap().take();
                    if let Some(job) = job {
                        job();
                    }
                }
            });
        }
    });
}

pub fn threads() -> usize {
    std::thread::available_parallelism().map(|n| n.get()).unwrap_or(4).clamp(1, 16)
}

/// Random string over several Unicode classes (ASCII, quotes/escapes, controls,
/// 2/3/4-byte code points, combining marks).
pub fn gen_string(r: &mut Rng, max_len: usize) -> String {
    let len = if max_len == 0 { 0 } else { r.below(max_len + 1) };
    let mut s = String::new();
    for _ in 0..len {
        s.push(gen_char(r));
    }
    s
}

pub fn gen_char(r: &mut Rng) -> char {
    match r.below(12) {
        0 => *r.pick(&['"', '\\', '\n', '\t', '\r', '\u{0}', '\u{7f}', ' ']),
        1 => char::from_u32(r.below(0x20) as u32).unwrap(),
        2 => char::from_u32(0x80 + r.below(0x780) as u32).unwrap_or('é'),
        3 => char::from_u32(0x800 + r.below(0xF800) as u32).unwrap_or('中'),
        4 => char::from_u32(0x1_0000 + r.below(0x10_0000) as u32).unwrap_or('😀'),
        5 => *r.pick(&['\u{301}', '\u{200d}', '\u{feff}', '\u{2028}', '\u{fffd}', '\u{10ffff}', '\u{d7ff}', '\u{e000}']),
        _ => (0x20u8 + r.below(0x5f) as u8) as char,
    }
}

/// Any Unicode scalar value, uniformly over the code space.
pub fn gen_scalar(r: &mut Rng) -> char {
    loop {
        if let Some(c) = char::from_u32(r.below(0x11_0000) as u32) {
            return c;
        }
    }
}
