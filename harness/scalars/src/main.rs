//! vh-scalars: built-in scalars, validators, serde<->value conversion, connection cursors.
//! Pure in-process calls and small derive-built schemas; no schedule control needed.

mod c07;
mod c08;
mod c16;
mod c32;
mod util;

fn main() {
    let id = std::env::args().nth(1).unwrap_or_default();
    match id.as_str() {
        "C07" => c07::main(),
        "C08" => c08::main(),
        "C16" => c16::main(),
        "C32" => c32::main(),
        other => {
            println!("INCONCLUSIVE property={other} reason=vh-scalars has no check for this property");
            std::process::exit(2);
        }
    }
}
