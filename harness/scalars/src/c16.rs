//! C16 — serde values convert to GraphQL values and back without loss.
//!
//! Oracle: round trip. For a value x of a harness type T (Serialize + Deserialize):
//!     from_value::<T>(to_value(&x)?)? == x        (floats compared bit-wise)
//! over a family of types that covers every shape of the serde data model:
//! structs, unit/newtype/tuple structs, unit/newtype/tuple/struct enum variants,
//! Option, maps with string keys (BTreeMap, HashMap), sequences, tuples, arrays,
//! all integer widths, f32/f64, bool, String, unit, bytes (hand-written
//! serialize_bytes / visit_bytes wrapper), nested to depth 4.
//! Attribute-driven representations (internally / adjacently tagged enums, flatten)
//! are an extra family; for those a value is inside the model only if the same
//! round trip through serde_json::Value succeeds (guards against shapes serde
//! itself cannot represent).

use std::collections::{BTreeMap, HashMap};
use std::fmt::Debug;
use std::hash::BuildHasherDefault;

use async_graphql_value::{ConstValue, from_value, to_value};
use serde::de::{DeserializeOwned, SeqAccess, Visitor};
use serde::{Deserialize, Deserializer, Serialize, Serializer};
use vh_core::serde_json::{self, json};
use vh_core::{Rng, Run, catch, rng};

use crate::util::{Acc, gen_string, run_jobs, threads};

// ---------------------------------------------------------------------------
// harness types

/// serde_bytes-style wrapper, written by hand.
#[derive(Clone, Debug, PartialEq, Eq)]
pub struct Bytes(pub Vec<u8>);

impl Serialize for Bytes {
    fn serialize<S: Serializer>(&self, s: S) -> Result<S::Ok, S::Error> {
        s.serialize_bytes(&self.0)
    }
}

impl<'de> Deserialize<'de> for Bytes {
    fn deserialize<D: Deserializer<'de>>(d: D) -> Result<Self, D::Error> {
        struct V;
        impl<'de> Visitor<'de> for V {
            type Value = Bytes;
            fn expecting(&self, f: &mut std::fmt::Formatter) -> std::fmt::Result {
                f.write_str("a byte array")
            }
            fn visit_bytes<E: serde::de::Error>(self, v: &[u8]) -> Result<Bytes, E> {
                Ok(Bytes(v.to_vec()))
            }
            fn visit_byte_buf<E: serde::de::Error>(self, v: Vec<u8>) -> Result<Bytes, E> {
                Ok(Bytes(v))
            }
            fn visit_seq<A: SeqAccess<'de>>(self, mut seq: A) -> Result<Bytes, A::Error> {
                let mut out = vec![];
                while let Some(b) = seq.next_element::<u8>()? {
                    out.push(b);
                }
                Ok(Bytes(out))
            }
        }
        d.deserialize_byte_buf(V)
    }
}

/// Floats with bit-wise equality (so that -0.0 != 0.0 and precision loss shows).
#[derive(Clone, Copy, Debug, Serialize, Deserialize)]
pub struct F64(pub f64);
impl PartialEq for F64 {
    fn eq(&self, o: &F64) -> bool {
        self.0.to_bits() == o.0.to_bits()
    }
}
#[derive(Clone, Copy, Debug, Serialize, Deserialize)]
pub struct F32(pub f32);
impl PartialEq for F32 {
    fn eq(&self, o: &F32) -> bool {
        self.0.to_bits() == o.0.to_bits()
    }
}

type DetHashMap<V> = HashMap<String, V, BuildHasherDefault<std::collections::hash_map::DefaultHasher>>;

#[derive(Clone, Debug, PartialEq, Serialize, Deserialize)]
pub struct UnitS;

#[derive(Clone, Debug, PartialEq, Serialize, Deserialize)]
pub struct NewI(pub i64);

#[derive(Clone, Debug, PartialEq, Serialize, Deserialize)]
pub struct Tup(pub i32, pub String, pub bool);

#[derive(Clone, Debug, PartialEq, Serialize, Deserialize)]
pub struct Tup0();

#[derive(Clone, Debug, PartialEq, Serialize, Deserialize)]
pub struct Scalars {
    a: i8,
    b: i16,
    c: i32,
    d: i64,
    e: u8,
    f: u16,
    g: u32,
    h: u64,
    i: isize,
    j: usize,
    x: F32,
    y: F64,
    t: bool,
    s: String,
    by: Bytes,
    u: (),
    us: UnitS,
    o: Option<u64>,
}

#[derive(Clone, Debug, PartialEq, Serialize, Deserialize)]
pub enum Shape {
    Unit,
    Other,
    New(i64),
    NewStr(String),
    NewOpt(Option<u32>),
    NewTree(Box<Tree>),
    Tuple(i16, String),
    Tuple3(F64, Option<bool>, Vec<u8>),
    Struct { a: Option<u32>, b: Vec<Tree> },
    EmptyStruct {},
}

#[derive(Clone, Debug, PartialEq, Serialize, Deserialize)]
pub enum Tree {
    Nothing,
    Int(i64),
    Big(u64),
    Text(String),
    Flag(bool),
    Real(F64),
    Single(F32),
    Blob(Bytes),
    Leaf(Scalars),
    Opt(Option<Box<Tree>>),
    Seq(Vec<Tree>),
    Map(BTreeMap<String, Tree>),
    HMap(DetHashMap<Tree>),
    Pair(Box<Tree>, Box<Tree>),
    Triple((Box<Tree>, i32, String)),
    Rec { left: Option<Box<Tree>>, items: Vec<Tree>, tag: Shape, n: NewI, t: Tup },
    Shape(Shape),
    OptSeq(Option<Vec<Option<i32>>>),
    Arr([u16; 3]),
    Units(Vec<()>),
    T0(Tup0),
    OptMap(Option<BTreeMap<String, Option<Vec<F64>>>>),
}

/// Zero-field tuple variant: its own type so that the generator feature can isolate it.
#[derive(Clone, Debug, PartialEq, Serialize, Deserialize)]
pub enum WithEmptyTuple {
    Empty(),
    Full(i32, i32),
}

// attribute-driven representations (extra family, guarded by serde_json)
#[derive(Clone, Debug, PartialEq, Serialize, Deserialize)]
#[serde(tag = "kind")]
pub enum ITag {
    A { x: i32, y: Option<String> },
    B { items: Vec<u16>, f: F64 },
    C,
}

#[derive(Clone, Debug, PartialEq, Serialize, Deserialize)]
#[serde(tag = "t", content = "c")]
pub enum ATag {
    A(i32),
    B(String, bool),
    C { v: Vec<Option<i64>> },
    D,
}

#[derive(Clone, Debug, PartialEq, Serialize, Deserialize)]
#[serde(untagged)]
pub enum UTag {
    N(i64),
    S(String),
    L(Vec<bool>),
    M { only: u8 },
}

#[derive(Clone, Debug, PartialEq, Serialize, Deserialize)]
pub struct Inner {
    p: u32,
    q: Option<String>,
}

#[derive(Clone, Debug, PartialEq, Serialize, Deserialize)]
#[serde(rename_all = "camelCase")]
pub struct Flat {
    first_field: i16,
    #[serde(flatten)]
    inner: Inner,
    #[serde(rename = "type")]
    ty: String,
    #[serde(default, skip_serializing_if = "Option::is_none")]
    skipped: Option<u8>,
    #[serde(flatten)]
    rest: BTreeMap<String, i64>,
}

// ---------------------------------------------------------------------------
// generators

fn gen_i(r: &mut Rng, lo: i64, hi: i64) -> i64 {
    match r.below(5) {
        0 => *r.pick(&[lo, hi, 0, lo.saturating_add(1), hi - 1]),
        1 => r.range(-3, 3).clamp(lo, hi),
        _ => r.range(lo, hi),
    }
}
fn gen_u64(r: &mut Rng) -> u64 {
    match r.below(5) {
        0 => *r.pick(&[0, u64::MAX, i64::MAX as u64, i64::MAX as u64 + 1, 1 << 53, (1 << 53) + 1]),
        1 => r.below(10) as u64,
        _ => r.next_u64(),
    }
}
fn gen_f64(r: &mut Rng) -> F64 {
    loop {
        let f = match r.below(6) {
            0 => *r.pick(&[0.0, -0.0, 1.0, -1.5, 0.1, 5e-324, f64::MAX, f64::MIN, f64::MIN_POSITIVE, 1e16, 9007199254740993.0, 1e300]),
            1 => r.range(-1000, 1000) as f64,
            2 => r.range(-1_000_000, 1_000_000) as f64 / 1000.0,
            _ => f64::from_bits(r.next_u64()),
        };
        if f.is_finite() {
            return F64(f);
        }
    }
}
fn gen_f32(r: &mut Rng) -> F32 {
    loop {
        let f = match r.below(5) {
            0 => *r.pick(&[0.0f32, -0.0, 1.0, 0.1, f32::MAX, f32::MIN, f32::MIN_POSITIVE, 1e-45, 16777217.0]),
            1 => r.range(-1000, 1000) as f32 / 8.0,
            _ => f32::from_bits(r.next_u64() as u32),
        };
        if f.is_finite() {
            return F32(f);
        }
    }
}
fn gen_bytes(r: &mut Rng) -> Bytes {
    let n = r.below(6);
    Bytes((0..n).map(|_| *r.pick(&[0u8, 1, 0x7f, 0x80, 0xff, b'a', b'"', 0xc3])).collect())
}
fn gen_key(r: &mut Rng) -> String {
    match r.below(6) {
        0 => String::new(),
        1 => r.pick(&["type", "__typename", "a b", "0", "null", "$v", "ключ", "😀"]).to_string(),
        2 => gen_string(r, 6),
        _ => {
            let n = r.below(5) + 1;
            (0..n).map(|_| (b'a' + r.below(26) as u8) as char).collect()
        }
    }
}

fn gen_scalars(r: &mut Rng) -> Scalars {
    Scalars {
        a: gen_i(r, i8::MIN as i64, i8::MAX as i64) as i8,
        b: gen_i(r, i16::MIN as i64, i16::MAX as i64) as i16,
        c: gen_i(r, i32::MIN as i64, i32::MAX as i64) as i32,
        d: gen_i(r, i64::MIN, i64::MAX),
        e: gen_i(r, 0, u8::MAX as i64) as u8,
        f: gen_i(r, 0, u16::MAX as i64) as u16,
        g: gen_i(r, 0, u32::MAX as i64) as u32,
        h: gen_u64(r),
        i: gen_i(r, i64::MIN, i64::MAX) as isize,
        j: gen_u64(r) as usize,
        x: gen_f32(r),
        y: gen_f64(r),
        t: r.bool(),
        s: gen_string(r, 8),
        by: gen_bytes(r),
        u: (),
        us: UnitS,
        o: if r.bool() { Some(gen_u64(r)) } else { None },
    }
}

fn gen_shape(r: &mut Rng, depth: u32) -> Shape {
    match r.below(if depth == 0 { 8 } else { 10 }) {
        0 => Shape::Unit,
        1 => Shape::Other,
        2 => Shape::New(gen_i(r, i64::MIN, i64::MAX)),
        3 => Shape::NewStr(gen_string(r, 6)),
        4 => Shape::NewOpt(if r.bool() { Some(r.next_u64() as u32) } else { None }),
        5 => Shape::Tuple(gen_i(r, i16::MIN as i64, i16::MAX as i64) as i16, gen_string(r, 5)),
        6 => Shape::Tuple3(gen_f64(r), *r.pick(&[None, Some(true), Some(false)]), (0..r.below(4)).map(|_| r.next_u64() as u8).collect()),
        7 => Shape::EmptyStruct {},
        8 => Shape::NewTree(Box::new(gen_tree(r, depth - 1))),
        _ => Shape::Struct {
            a: if r.bool() { Some(r.next_u64() as u32) } else { None },
            b: (0..r.below(3)).map(|_| gen_tree(r, depth - 1)).collect(),
        },
    }
}

pub fn gen_tree(r: &mut Rng, depth: u32) -> Tree {
    let leaf = depth == 0 || r.chance(1, 4);
    if leaf {
        return match r.below(14) {
            0 => Tree::Nothing,
            1 => Tree::Int(gen_i(r, i64::MIN, i64::MAX)),
            2 => Tree::Big(gen_u64(r)),
            3 => Tree::Text(gen_string(r, 10)),
            4 => Tree::Flag(r.bool()),
            5 => Tree::Real(gen_f64(r)),
            6 => Tree::Single(gen_f32(r)),
            7 => Tree::Blob(gen_bytes(r)),
            8 => Tree::Leaf(gen_scalars(r)),
            9 => Tree::Shape(gen_shape(r, 0)),
            10 => Tree::OptSeq(match r.below(3) {
                0 => None,
                _ => Some((0..r.below(4)).map(|_| if r.bool() { Some(r.next_u64() as i32) } else { None }).collect()),
            }),
            11 => Tree::Arr([r.next_u64() as u16, 0, u16::MAX]),
            12 => Tree::Units(vec![(); r.below(4)]),
            _ => r.pick(&[Tree::T0(Tup0()), Tree::Opt(None), Tree::Seq(vec![]), Tree::Map(BTreeMap::new())]).clone(),
        };
    }
    let d = depth - 1;
    match r.below(10) {
        0 => Tree::Opt(if r.chance(1, 4) { None } else { Some(Box::new(gen_tree(r, d))) }),
        1 => Tree::Seq((0..r.below(4)).map(|_| gen_tree(r, d)).collect()),
        2 => Tree::Map((0..r.below(4)).map(|_| (gen_key(r), gen_tree(r, d))).collect()),
        3 => {
            let mut m = DetHashMap::default();
            for _ in 0..r.below(4) {
                m.insert(gen_key(r), gen_tree(r, d));
            }
            Tree::HMap(m)
        }
        4 => Tree::Pair(Box::new(gen_tree(r, d)), Box::new(gen_tree(r, d))),
        5 => Tree::Triple((Box::new(gen_tree(r, d)), r.next_u64() as i32, gen_string(r, 4))),
        6 => Tree::Rec {
            left: if r.bool() { Some(Box::new(gen_tree(r, d))) } else { None },
            items: (0..r.below(3)).map(|_| gen_tree(r, d)).collect(),
            tag: gen_shape(r, d),
            n: NewI(gen_i(r, i64::MIN, i64::MAX)),
            t: Tup(r.next_u64() as i32, gen_string(r, 4), r.bool()),
        },
        7 => Tree::Shape(gen_shape(r, depth)),
        8 => Tree::OptMap(if r.chance(1, 4) {
            None
        } else {
            Some((0..r.below(3)).map(|_| (gen_key(r), if r.bool() { Some((0..r.below(3)).map(|_| gen_f64(r)).collect()) } else { None })).collect())
        }),
        _ => Tree::Leaf(gen_scalars(r)),
    }
}

fn depth_of(t: &Tree) -> u32 {
    fn shape(s: &Shape) -> u32 {
        match s {
            Shape::NewTree(t) => 1 + depth_of(t),
            Shape::Struct { b, .. } => 1 + b.iter().map(depth_of).max().unwrap_or(0),
            _ => 0,
        }
    }
    match t {
        Tree::Opt(Some(t)) => 1 + depth_of(t),
        Tree::Seq(v) => 1 + v.iter().map(depth_of).max().unwrap_or(0),
        Tree::Map(m) => 1 + m.values().map(depth_of).max().unwrap_or(0),
        Tree::HMap(m) => 1 + m.values().map(depth_of).max().unwrap_or(0),
        Tree::Pair(a, b) => 1 + depth_of(a).max(depth_of(b)),
        Tree::Triple((a, _, _)) => 1 + depth_of(a),
        Tree::Rec { left, items, tag, .. } => 1 + left.as_ref().map(|t| depth_of(t)).unwrap_or(0).max(items.iter().map(depth_of).max().unwrap_or(0)).max(shape(tag)),
        Tree::Shape(s) => shape(s),
        _ => 0,
    }
}

// ---------------------------------------------------------------------------
// the round-trip monitor

#[derive(PartialEq)]
enum Guard {
    /// every value of the type is inside the model
    None,
    /// inside the model only if serde_json::Value round-trips it
    SerdeJson,
}

fn roundtrip<T>(run: &Run, acc: &mut Acc, family: &'static str, x: &T, guard: Guard, nontrivial: bool)
where
    T: Serialize + DeserializeOwned + PartialEq + Debug,
{
    acc.eval();
    let dbg = format!("{x:?}");
    let h = rng::hash_str(&format!("{family}|{dbg}"));
    if nontrivial {
        acc.nontrivial(h);
    }
    if guard == Guard::SerdeJson {
        let ok = serde_json::to_value(x).ok().and_then(|j| serde_json::from_value::<T>(j).ok()).map(|y| &y == x).unwrap_or(false);
        if !ok {
            acc.count("outside_model_serde_json_cannot_roundtrip");
            return;
        }
    }
    let v: ConstValue = match catch(|| to_value(x)) {
        Ok(Ok(v)) => v,
        Ok(Err(e)) => {
            run.violation(
                &format!("S-err:{h:x}"),
                &format!("{family}: to_value failed for a value inside the model: {e}; value = {}", vh_core::run::truncate(&dbg, 600)),
                json!({"family": family, "value_debug": dbg, "error": e.to_string()}),
            );
            return;
        }
        Err(p) => {
            run.violation(&format!("S-panic:{h:x}"), &format!("{family}: to_value panicked: {p}; value = {}", vh_core::run::truncate(&dbg, 600)), json!({"family": family, "value_debug": dbg}));
            return;
        }
    };
    let shown = v.to_string();
    match catch(|| from_value::<T>(v)) {
        Ok(Ok(y)) if &y == x => acc.count("roundtrip_ok"),
        Ok(Ok(y)) => run.violation(
            &format!("D-differs:{h:x}"),
            &format!("{family}: from_value(to_value(x)) != x: x = {}; graphql value = {}; back = {}", vh_core::run::truncate(&dbg, 500), vh_core::run::truncate(&shown, 500), vh_core::run::truncate(&format!("{y:?}"), 500)),
            json!({"family": family, "value_debug": dbg, "graphql_value": shown, "back": format!("{y:?}")}),
        ),
        Ok(Err(e)) => run.violation(
            &format!("D-err:{h:x}"),
            &format!("{family}: from_value failed on to_value's own output: {e}; x = {}; graphql value = {}", vh_core::run::truncate(&dbg, 500), vh_core::run::truncate(&shown, 500)),
            json!({"family": family, "value_debug": dbg, "graphql_value": shown, "error": e.to_string()}),
        ),
        Err(p) => run.violation(&format!("D-panic:{h:x}"), &format!("{family}: from_value panicked: {p}; x = {}", vh_core::run::truncate(&dbg, 500)), json!({"family": family, "value_debug": dbg, "graphql_value": shown})),
    }
}

/// One-sided: types the converter declares unsupported. Explicit Err is fine; if it
/// says Ok the value must come back unchanged.
fn unsupported_or_roundtrip<T>(run: &Run, acc: &mut Acc, family: &'static str, x: &T)
where
    T: Serialize + DeserializeOwned + PartialEq + Debug,
{
    acc.eval();
    match catch(|| to_value(x)) {
        Ok(Err(e)) => {
            acc.count("explicitly_unsupported_error");
            run.seen("explicitly_unsupported", &format!("{family}: {e}"));
        }
        Ok(Ok(v)) => match catch(|| from_value::<T>(v.clone())) {
            Ok(Ok(y)) if &y == x => acc.count("unsupported_family_but_roundtrips"),
            Ok(Err(e)) => {
                // loss is impossible (error, not a wrong value); recorded
                acc.count("unsupported_family_decode_error");
                run.seen("explicitly_unsupported", &format!("{family}: encodes as {v}, decode error: {e}"));
            }
            other => run.violation(
                &format!("U-differs:{:x}", rng::hash_str(&format!("{family}|{x:?}"))),
                &format!("{family}: to_value accepted {x:?} as {v} but it came back as {other:?}"),
                json!({"family": family, "value_debug": format!("{x:?}")}),
            ),
        },
        Err(p) => run.violation(&format!("U-panic:{:x}", rng::hash_str(&format!("{family}|{x:?}"))), &format!("{family}: to_value panicked on {x:?}: {p}"), json!({"family": family})),
    }
}

fn gen_itag(r: &mut Rng) -> ITag {
    match r.below(3) {
        0 => ITag::A { x: r.next_u64() as i32, y: if r.bool() { Some(gen_string(r, 5)) } else { None } },
        1 => ITag::B { items: (0..r.below(4)).map(|_| r.next_u64() as u16).collect(), f: gen_f64(r) },
        _ => ITag::C,
    }
}
fn gen_atag(r: &mut Rng) -> ATag {
    match r.below(4) {
        0 => ATag::A(r.next_u64() as i32),
        1 => ATag::B(gen_string(r, 5), r.bool()),
        2 => ATag::C { v: (0..r.below(4)).map(|_| if r.bool() { Some(gen_i(r, i64::MIN, i64::MAX)) } else { None }).collect() },
        _ => ATag::D,
    }
}
fn gen_utag(r: &mut Rng) -> UTag {
    match r.below(4) {
        0 => UTag::N(gen_i(r, i64::MIN, i64::MAX)),
        1 => UTag::S(gen_string(r, 5)),
        2 => UTag::L((0..r.below(4)).map(|_| r.bool()).collect()),
        _ => UTag::M { only: r.next_u64() as u8 },
    }
}
fn gen_flat(r: &mut Rng) -> Flat {
    let mut rest = BTreeMap::new();
    for _ in 0..r.below(3) {
        let k: String = (0..3).map(|_| (b'k' + r.below(8) as u8) as char).collect();
        rest.insert(format!("x_{k}"), gen_i(r, i64::MIN, i64::MAX));
    }
    Flat {
        first_field: r.next_u64() as i16,
        inner: Inner { p: r.next_u64() as u32, q: if r.bool() { Some(gen_string(r, 4)) } else { None } },
        ty: gen_string(r, 4),
        skipped: if r.bool() { Some(r.next_u64() as u8) } else { None },
        rest,
    }
}

fn job(run: &Run, seed: u64, shard: u64, n: u64, empty_tuple_variant: bool) {
    let mut acc = Acc::new();
    let mut r = Rng::new(rng::mix(&[seed, 16, shard]));
    for i in 0..n {
        // the main family: nested trees
        let depth = 1 + (i % 4) as u32;
        let t = gen_tree(&mut r, depth);
        let d = depth_of(&t);
        acc.count(match d {
            0 => "tree_depth_0",
            1 => "tree_depth_1",
            2 => "tree_depth_2",
            3 => "tree_depth_3",
            _ => "tree_depth_4plus",
        });
        roundtrip(run, &mut acc, "Tree", &t, Guard::None, true);
        if shard == 0 && i < 4 {
            run.sample(json!({"family": "Tree", "depth": d, "value_debug": vh_core::run::truncate(&format!("{t:?}"), 700),
                              "graphql_value": to_value(&t).map(|v| vh_core::run::truncate(&v.to_string(), 700)).unwrap_or_default()}));
        }
        // top-level shapes of the data model (not wrapped in an enum)
        match i % 16 {
            0 => roundtrip(run, &mut acc, "Scalars", &gen_scalars(&mut r), Guard::None, true),
            1 => roundtrip(run, &mut acc, "i8", &(r.next_u64() as i8), Guard::None, false),
            2 => roundtrip(run, &mut acc, "u64", &gen_u64(&mut r), Guard::None, false),
            3 => roundtrip(run, &mut acc, "i64", &gen_i(&mut r, i64::MIN, i64::MAX), Guard::None, false),
            4 => roundtrip(run, &mut acc, "F64", &gen_f64(&mut r), Guard::None, true),
            5 => roundtrip(run, &mut acc, "F32", &gen_f32(&mut r), Guard::None, true),
            6 => roundtrip(run, &mut acc, "Option<String>", &if r.bool() { Some(gen_string(&mut r, 6)) } else { None }, Guard::None, true),
            7 => roundtrip(run, &mut acc, "(i32,String,Option<bool>)", &(r.next_u64() as i32, gen_string(&mut r, 4), Some(r.bool())), Guard::None, true),
            8 => roundtrip(run, &mut acc, "Vec<Option<Tup>>", &(0..r.below(4)).map(|_| if r.bool() { Some(Tup(1, gen_string(&mut r, 3), r.bool())) } else { None }).collect::<Vec<_>>(), Guard::None, true),
            9 => roundtrip(run, &mut acc, "BTreeMap<String,Vec<u8>>", &(0..r.below(4)).map(|_| (gen_key(&mut r), vec![r.next_u64() as u8; r.below(3)])).collect::<BTreeMap<String, Vec<u8>>>(), Guard::None, true),
            10 => roundtrip(run, &mut acc, "Bytes", &gen_bytes(&mut r), Guard::None, true),
            11 => roundtrip(run, &mut acc, "Shape", &gen_shape(&mut r, 2), Guard::None, true),
            12 => {
                roundtrip(run, &mut acc, "UnitS", &UnitS, Guard::None, false);
                roundtrip(run, &mut acc, "()", &(), Guard::None, false);
                roundtrip(run, &mut acc, "NewI", &NewI(gen_i(&mut r, i64::MIN, i64::MAX)), Guard::None, false);
                roundtrip(run, &mut acc, "bool", &r.bool(), Guard::None, false);
                roundtrip(run, &mut acc, "String", &gen_string(&mut r, 12), Guard::None, true);
                roundtrip(run, &mut acc, "u8/u16/u32/i16/i32", &(r.next_u64() as u8, r.next_u64() as u16, r.next_u64() as u32, r.next_u64() as i16, r.next_u64() as i32), Guard::None, false);
            }
            13 => {
                // attribute-driven representations, guarded by serde_json
                roundtrip(run, &mut acc, "ITag(internally tagged)", &gen_itag(&mut r), Guard::SerdeJson, true);
                roundtrip(run, &mut acc, "ATag(adjacently tagged)", &gen_atag(&mut r), Guard::SerdeJson, true);
                roundtrip(run, &mut acc, "UTag(untagged)", &gen_utag(&mut r), Guard::SerdeJson, true);
                roundtrip(run, &mut acc, "Flat(flatten/rename/skip)", &gen_flat(&mut r), Guard::SerdeJson, true);
            }
            14 => {
                if empty_tuple_variant {
                    roundtrip(run, &mut acc, "WithEmptyTuple", &WithEmptyTuple::Empty(), Guard::None, true);
                }
                roundtrip(run, &mut acc, "WithEmptyTuple", &WithEmptyTuple::Full(r.next_u64() as i32, 7), Guard::None, true);
            }
            _ => {
                // declared unsupported: explicit error, never a wrong value
                unsupported_or_roundtrip(run, &mut acc, "char", &crate::util::gen_char(&mut r));
                unsupported_or_roundtrip(run, &mut acc, "i128", &((r.next_u64() as i128) << 40));
                unsupported_or_roundtrip(run, &mut acc, "u128", &((r.next_u64() as u128) << 40));
            }
        }
    }
    acc.flush(run);
}

/// Pinned witness: a tuple variant with zero fields.
fn witness_empty_tuple_variant(run: &Run) {
    run.eval();
    let x = WithEmptyTuple::Empty();
    let v = to_value(&x);
    let obs = match &v {
        Err(e) => format!("to_value error: {e}"),
        Ok(v) => match catch(|| from_value::<WithEmptyTuple>(v.clone())) {
            Ok(Ok(y)) if y == x => "roundtrip ok".to_string(),
            Ok(Ok(y)) => format!("differs: {y:?}"),
            Ok(Err(e)) => format!("from_value error: {e}"),
            Err(p) => format!("panic: {p}"),
        },
    };
    run.sample_upto(12, json!({"witness": "C16-empty-tuple-variant", "value": "WithEmptyTuple::Empty()", "graphql_value": v.as_ref().map(|v| v.to_string()).unwrap_or_default(), "observed": obs,
                               "serde_json_roundtrip": serde_json::to_value(&x).ok().and_then(|j| serde_json::from_value::<WithEmptyTuple>(j).ok()).map(|y| y == x)}));
    if obs == "roundtrip ok" {
        run.count("witness_behaves", 1);
    } else {
        run.count("witness_violates", 1);
        run.violation(
            &format!("C16-empty-tuple-variant|{obs}"),
            &format!("witness: enum variant `Empty()` (tuple variant with zero fields) encodes as {:?} and does not come back: {obs}", v.as_ref().map(|v| v.to_string())),
            json!({"witness": "C16-empty-tuple-variant", "type": "enum WithEmptyTuple { Empty(), Full(i32, i32) }", "value": "WithEmptyTuple::Empty()"}),
        );
    }
}

pub fn main() {
    let mut run = Run::from_args(
        "exploration",
        "random values of harness serde types: enum Tree (22 variants: unit/newtype/tuple/struct variants holding i64, u64, String, bool, f32, \
         f64, bytes, a struct with every integer width + unit + unit struct + Option, Option<Box<Tree>>, Vec, BTreeMap/HashMap with random \
         Unicode string keys incl. the empty key, tuples, arrays, nested enum Shape with all four variant forms), generated with nesting \
         depth 1..4; plus the same shapes at top level (primitives, Option, tuples, Vec<Option<tuple struct>>, maps, bytes, unit, unit struct, \
         newtype struct) and attribute-driven representations (internally/adjacently tagged, untagged, flatten/rename/skip) guarded by \
         serde_json. Non-trivial: anything but a bare primitive; distinct by hash of (type, Debug of the value).",
    );
    run.assume("equality is the derived PartialEq of the harness types, with floats compared bit-wise (so -0.0 and rounding show)");
    run.assume("excluded: char (to_value returns an explicit 'char is not supported' error: explicit refusal, not loss); exercised one-sidedly");
    run.assume("excluded: i128/u128 (not representable in a GraphQL number; the converter refuses them explicitly); exercised one-sidedly");
    run.assume("excluded: non-finite floats (GraphQL/JSON numbers cannot hold them) and Option<Option<T>> / Option<()> / Option<unit struct> (Some(None) and None are the same null in any self-describing null-based model)");
    run.assume("map keys are strings (the property's precondition); HashMap uses a fixed-key hasher only to keep the run deterministic");
    run.assume("attribute-driven representations (tag/content/untagged/flatten) are inside the model only when serde_json::Value round-trips the same value");
    run.set_max_samples(12);
    let total = run.scale(48_000, 9_600_000);
    run.set_floors(run.scale(40_000, 8_000_000), run.scale(20_000, 4_000_000));
    for c in ["roundtrip_ok", "tree_depth_3", "tree_depth_4plus", "explicitly_unsupported_error"] {
        run.require_counter(c);
    }
    let empty_tuple_variant = run.feature("empty_tuple_variant");
    run.extra("generator_features", json!({"empty_tuple_variant": empty_tuple_variant}));

    witness_empty_tuple_variant(&run);

    let nshards = 16u64;
    let seed = run.seed;
    let runr = &run;
    let mut jobs: Vec<Box<dyn FnOnce() + Send + '_>> = vec![];
    for shard in 0..nshards {
        jobs.push(Box::new(move || job(runr, seed, shard, total / nshards, empty_tuple_variant)));
    }
    run_jobs(threads(), jobs);
    run.finish();
}
