//! C07 — built-in scalar types accept exactly their domain and round-trip.
//!
//! Oracle: an arithmetic domain model written here (i128 ranges for the integer
//! types, f64 classes for the floats, "exactly one Unicode scalar" for char,
//! a hand-written name table for the derived enum). The real
//! `InputType::parse(Some(v))`, `ScalarType::parse(v)` and `to_value` of
//! async-graphql are called and compared with the model:
//!   A  acceptance: parse is Ok exactly on the domain, and the Ok value is the denoted one
//!   R  round trip: parse(Some(x.to_value())) == x and x.to_value() denotes x
//!   K  every other value kind (null, absent, boolean, string, enum, list, object, binary) is rejected
//! A panic anywhere is a violation.

use std::num::{
    NonZeroI8, NonZeroI16, NonZeroI32, NonZeroI64, NonZeroIsize, NonZeroU8, NonZeroU16, NonZeroU32, NonZeroU64,
    NonZeroUsize,
};

use async_graphql::{Enum, ID, InputType, Name, Number, Pos, ScalarType, Value};
use std::sync::atomic::{AtomicU64, Ordering};

use vh_core::serde_json::json;
use vh_core::{Rng, Run, catch, rng};

use crate::util::{Acc, gen_char, gen_scalar, gen_string, run_jobs, threads};

// ---------------------------------------------------------------------------
// observation helpers

#[derive(Debug, Clone, PartialEq)]
enum Obs<T> {
    Ok(T),
    Err(String),
    Panic(String),
}

fn obs_input<T: InputType>(v: Option<Value>) -> Obs<T> {
    match catch(|| T::parse(v).map_err(|e| e.into_server_error(Pos::default()).message)) {
        Ok(Ok(x)) => Obs::Ok(x),
        Ok(Err(m)) => Obs::Err(m),
        Err(p) => Obs::Panic(p),
    }
}

fn obs_scalar<T: InputType + ScalarType>(v: Value) -> Obs<T> {
    match catch(|| <T as ScalarType>::parse(v).map_err(|e| e.into_server_error(Pos::default()).message)) {
        Ok(Ok(x)) => Obs::Ok(x),
        Ok(Err(m)) => Obs::Err(m),
        Err(p) => Obs::Panic(p),
    }
}

fn show(v: &Option<Value>) -> String {
    match v {
        None => "<absent>".to_string(),
        Some(Value::Binary(b)) => format!("<binary {b:?}>"),
        Some(Value::String(s)) => format!("String({s:?})"),
        Some(Value::Enum(n)) => format!("Enum({})", n.as_str()),
        Some(Value::Number(n)) if n.is_f64() => format!("Float({:?})", n.as_f64().unwrap()),
        Some(Value::Number(n)) => format!("Int({n})"),
        Some(other) => other.to_string(),
    }
}

fn viol(run: &Run, tag: &str, ty: &str, offered: &str, observed: &str, expected: &str) {
    let key = format!("{ty}|{offered}");
    run.violation(
        &format!("{tag}:{:x}", rng::hash_str(&key)),
        &format!("{ty}: offered {offered}: observed {observed}; expected {expected}"),
        json!({"type": ty, "offered": offered, "observed": observed, "expected": expected}),
    );
}

fn int_number(n: i128) -> Option<Number> {
    if n >= i64::MIN as i128 && n <= i64::MAX as i128 {
        Some(Number::from(n as i64))
    } else if n >= 0 && n <= u64::MAX as i128 {
        Some(Number::from(n as u64))
    } else {
        None
    }
}

fn number_as_i128(n: &Number) -> Option<i128> {
    if let Some(i) = n.as_i64() {
        Some(i as i128)
    } else {
        n.as_u64().map(|u| u as i128)
    }
}

// ---------------------------------------------------------------------------
// integer domain model

trait IntDom: InputType + ScalarType + Copy + PartialEq + std::fmt::Debug + 'static {
    const NAME: &'static str;
    const MIN: i128;
    const MAX: i128;
    const NONZERO: bool;
    fn to_i(&self) -> i128;
    fn from_i(n: i128) -> Self;
    fn in_dom(n: i128) -> bool {
        n >= Self::MIN && n <= Self::MAX && !(Self::NONZERO && n == 0)
    }
}

macro_rules! int_dom {
    ($($t:ty),*) => {$(
        impl IntDom for $t {
            const NAME: &'static str = stringify!($t);
            const MIN: i128 = <$t>::MIN as i128;
            const MAX: i128 = <$t>::MAX as i128;
            const NONZERO: bool = false;
            fn to_i(&self) -> i128 { *self as i128 }
            fn from_i(n: i128) -> Self { n as $t }
        }
    )*};
}
macro_rules! nz_dom {
    ($($nz:ty : $base:ty),*) => {$(
        impl IntDom for $nz {
            const NAME: &'static str = stringify!($nz);
            const MIN: i128 = <$base>::MIN as i128;
            const MAX: i128 = <$base>::MAX as i128;
            const NONZERO: bool = true;
            fn to_i(&self) -> i128 { self.get() as i128 }
            fn from_i(n: i128) -> Self { <$nz>::new(n as $base).expect("harness: from_i(0) for NonZero") }
        }
    )*};
}
int_dom!(i8, i16, i32, i64, isize, u8, u16, u32, u64, usize);
nz_dom!(NonZeroI8: i8, NonZeroI16: i16, NonZeroI32: i32, NonZeroI64: i64, NonZeroIsize: isize,
        NonZeroU8: u8, NonZeroU16: u16, NonZeroU32: u32, NonZeroU64: u64, NonZeroUsize: usize);

fn near_boundary<T: IntDom>(n: i128) -> bool {
    let near = |b: i128| (n - b).abs() <= 2;
    if near(T::MIN) || near(T::MAX) || near(0) {
        return true;
    }
    let a = n.unsigned_abs();
    // within 1 of a power of two
    a >= 2 && ((a - 1).is_power_of_two() || a.is_power_of_two() || (a + 1).is_power_of_two())
}

/// A: integer literal `n` offered to integer type T.
fn check_int_offer<T: IntDom>(run: &Run, acc: &mut Acc, n: i128) {
    let Some(num) = int_number(n) else { return };
    let v = Value::Number(num);
    acc.eval();
    if near_boundary::<T>(n) {
        acc.nontrivial(rng::hash_str(&format!("{}|i{}", T::NAME, n)));
    }
    let o1: Obs<T> = obs_input(Some(v.clone()));
    let o2: Obs<T> = obs_scalar(v.clone());
    let expect_ok = T::in_dom(n);
    for (which, o) in [("InputType::parse", &o1), ("ScalarType::parse", &o2)] {
        match o {
            Obs::Ok(x) if expect_ok && x.to_i() == n => acc.count("int_accept_ok"),
            Obs::Err(_) if !expect_ok => acc.count("int_reject_ok"),
            other => viol(
                run,
                "A-int",
                T::NAME,
                &format!("Int({n})"),
                &format!("{which} -> {other:?}"),
                &if expect_ok { format!("Ok({n})") } else { "Err (outside the domain)".to_string() },
            ),
        }
    }
}

/// A: float `f` (finite) offered to integer type T. Integral floats in the
/// domain are one-sided (reject, or accept as that same integer).
fn check_float_to_int<T: IntDom>(run: &Run, acc: &mut Acc, f: f64) {
    let Some(num) = Number::from_f64(f) else { return };
    let v = Value::Number(num);
    acc.eval();
    if f.abs() > 1e30 || near_boundary::<T>(f.floor() as i128) || near_boundary::<T>(f.ceil() as i128) {
        acc.nontrivial(rng::hash_str(&format!("{}|f{:016x}", T::NAME, f.to_bits())));
    }
    let integral_in_dom = f.fract() == 0.0 && f.abs() < 1e30 && T::in_dom(f as i128);
    let o1: Obs<T> = obs_input(Some(v.clone()));
    let o2: Obs<T> = obs_scalar(v);
    for (which, o) in [("InputType::parse", &o1), ("ScalarType::parse", &o2)] {
        match o {
            Obs::Err(_) => acc.count(if integral_in_dom { "integral_float_to_int_rejected" } else { "float_to_int_reject_ok" }),
            Obs::Ok(x) if integral_in_dom && x.to_i() == f as i128 => acc.count("integral_float_to_int_accepted_same"),
            other => viol(
                run,
                "A-float-to-int",
                T::NAME,
                &format!("Float({f:?})"),
                &format!("{which} -> {other:?}"),
                if integral_in_dom { "Err, or Ok of that same integer" } else { "Err (denotes no value of the type)" },
            ),
        }
    }
}

/// R: x.to_value() denotes x and parses back to x.
fn check_int_roundtrip<T: IntDom>(run: &Run, acc: &mut Acc, x: T) {
    acc.eval();
    let n = x.to_i();
    if near_boundary::<T>(n) {
        acc.nontrivial(rng::hash_str(&format!("{}|rt{}", T::NAME, n)));
    }
    let v1 = catch(|| <T as InputType>::to_value(&x));
    let v2 = catch(|| <T as ScalarType>::to_value(&x));
    let (v1, v2) = match (v1, v2) {
        (Ok(a), Ok(b)) => (a, b),
        other => {
            viol(run, "R-int-panic", T::NAME, &format!("to_value({n})"), &format!("{other:?}"), "no panic");
            return;
        }
    };
    let denotes = |v: &Value| matches!(v, Value::Number(m) if !m.is_f64() && number_as_i128(m) == Some(n));
    if !denotes(&v1) || !denotes(&v2) {
        viol(
            run,
            "R-int-tovalue",
            T::NAME,
            &format!("to_value({n})"),
            &format!("InputType::to_value={} ScalarType::to_value={}", show(&Some(v1.clone())), show(&Some(v2.clone()))),
            &format!("the integer number {n}"),
        );
        return;
    }
    match obs_input::<T>(Some(v1.clone())) {
        Obs::Ok(y) if y == x => acc.count("int_roundtrip_ok"),
        other => viol(
            run,
            "R-int",
            T::NAME,
            &format!("parse(Some(to_value({n})))"),
            &format!("{other:?} (to_value = {})", show(&Some(v1))),
            &format!("Ok({n})"),
        ),
    }
}

/// K: values of every other kind offered to T must be rejected.
fn other_kinds(valid_inner: Value) -> Vec<(&'static str, Option<Value>)> {
    let mut obj = async_graphql::indexmap::IndexMap::new();
    obj.insert(Name::new("a"), valid_inner.clone());
    vec![
        ("absent", None),
        ("null", Some(Value::Null)),
        ("true", Some(Value::Boolean(true))),
        ("false", Some(Value::Boolean(false))),
        ("int0", Some(Value::Number(Number::from(0i64)))),
        ("int1", Some(Value::Number(Number::from(1i64)))),
        ("float1.5", Some(Value::Number(Number::from_f64(1.5).unwrap()))),
        ("str-empty", Some(Value::String(String::new()))),
        ("str-1", Some(Value::String("1".into()))),
        ("str-a", Some(Value::String("a".into()))),
        ("str-true", Some(Value::String("true".into()))),
        ("str-ab", Some(Value::String("ab".into()))),
        ("enum-A", Some(Value::Enum(Name::new("A")))),
        ("enum-ALPHA", Some(Value::Enum(Name::new("ALPHA")))),
        ("enum-true", Some(Value::Enum(Name::new("true")))),
        ("list-empty", Some(Value::List(vec![]))),
        ("list-of-valid", Some(Value::List(vec![valid_inner.clone()]))),
        ("list-of-2", Some(Value::List(vec![valid_inner.clone(), valid_inner.clone()]))),
        ("object-empty", Some(Value::Object(Default::default()))),
        ("object-of-valid", Some(Value::Object(obj))),
        ("binary", Some(Value::Binary(vec![49u8].into()))),
        ("binary-empty", Some(Value::Binary(Vec::<u8>::new().into()))),
    ]
}

#[derive(Clone, Copy, PartialEq)]
enum Kind {
    Number,
    Boolean,
    String,
    Enum,
}

fn kind_of(v: &Option<Value>) -> Option<Kind> {
    match v {
        Some(Value::Number(_)) => Some(Kind::Number),
        Some(Value::Boolean(_)) => Some(Kind::Boolean),
        Some(Value::String(_)) => Some(Kind::String),
        Some(Value::Enum(_)) => Some(Kind::Enum),
        _ => None,
    }
}

/// Offer every kind that is not in `own` to T; all must be Err (never Ok, never a panic).
fn check_other_kinds<T: InputType + std::fmt::Debug>(run: &Run, acc: &mut Acc, ty: &str, own: &[Kind], valid: Value) {
    for (label, v) in other_kinds(valid) {
        if let Some(k) = kind_of(&v) {
            if own.contains(&k) {
                continue; // judged by the type's own acceptance model
            }
        }
        acc.eval();
        acc.nontrivial(rng::hash_str(&format!("{ty}|kind|{label}")));
        match obs_input::<T>(v.clone()) {
            Obs::Err(_) => acc.count("other_kind_reject_ok"),
            other => viol(run, "K-kind", ty, &show(&v), &format!("{other:?}"), "Err (value of another kind)"),
        }
    }
}

fn check_other_kinds_scalar<T: InputType + ScalarType + std::fmt::Debug>(
    run: &Run,
    acc: &mut Acc,
    ty: &str,
    own: &[Kind],
    valid: Value,
) {
    check_other_kinds::<T>(run, acc, ty, own, valid.clone());
    for (label, v) in other_kinds(valid) {
        let Some(val) = v.clone() else { continue };
        if let Some(k) = kind_of(&v) {
            if own.contains(&k) {
                continue;
            }
        }
        acc.eval();
        acc.nontrivial(rng::hash_str(&format!("{ty}|skind|{label}")));
        match obs_scalar::<T>(val) {
            Obs::Err(_) => acc.count("other_kind_reject_ok"),
            other => viol(run, "K-kind-scalar", ty, &show(&v), &format!("ScalarType::parse -> {other:?}"), "Err (value of another kind)"),
        }
    }
}

// ---------------------------------------------------------------------------
// jobs for integer types

/// Exhaustive: every integer in -70000..=70000 (as an integer literal, as the
/// integral float of the same value, and as value + 0.5), every value of the type
/// round-tripped. Used for the 8 types whose whole domain lies inside that range.
fn job_small<T: IntDom>(run: &Run, done: &AtomicU64) {
    let mut acc = Acc::new();
    let mut offered = 0u64;
    for n in -70_000i128..=70_000 {
        offered += 1;
        check_int_offer::<T>(run, &mut acc, n);
        check_float_to_int::<T>(run, &mut acc, n as f64);
        check_float_to_int::<T>(run, &mut acc, n as f64 + 0.5);
    }
    let mut values = 0u64;
    for n in T::MIN..=T::MAX {
        if T::in_dom(n) {
            check_int_roundtrip::<T>(run, &mut acc, T::from_i(n));
            values += 1;
        }
    }
    run.count("small_type_values_roundtripped", values);
    run.count("small_type_integers_offered", offered);
    done.fetch_add(values + offered, Ordering::SeqCst);
    // beyond the exhaustive window: the Number boundaries themselves
    for n in [i64::MIN as i128, i64::MIN as i128 + 1, i64::MAX as i128, i64::MAX as i128 + 1, u64::MAX as i128, i32::MIN as i128, i32::MAX as i128, u32::MAX as i128] {
        check_int_offer::<T>(run, &mut acc, n);
    }
    check_other_kinds_scalar::<T>(run, &mut acc, T::NAME, &[Kind::Number], Value::Number(Number::from(1i64)));
    run.sample_upto(
        24,
        json!({"type": T::NAME, "case": "exhaustive -70000..=70000 + every value round-tripped",
               "example": {"offered": format!("Int({})", T::MAX + 1), "observed": format!("{:?}", obs_input::<T>(Some(Value::Number(int_number(T::MAX + 1).unwrap()))))}}),
    );
    acc.flush(run);
}

fn gen_wide(r: &mut Rng, min: i128, max: i128) -> i128 {
    const ANCH: [i128; 12] = [
        0,
        i8::MAX as i128,
        i16::MAX as i128,
        i32::MIN as i128,
        i32::MAX as i128,
        u32::MAX as i128,
        i64::MIN as i128,
        i64::MAX as i128,
        u64::MAX as i128,
        1 << 53,
        -(1 << 53),
        1 << 24,
    ];
    let n = match r.below(6) {
        0 => r.next_u64() as i64 as i128,
        1 => r.next_u64() as i128,
        2 => *r.pick(&ANCH) + r.range(-1000, 1000) as i128,
        3 => *r.pick(&[min, max]) + r.range(-100_000, 100_000) as i128,
        4 => {
            let sh = r.below(64) as u32;
            let m = (r.next_u64() >> sh) as i128;
            if r.bool() { m } else { -m }
        }
        _ => {
            // uniformly inside the type's own range
            let span = (max - min) as u128 + 1;
            min + ((r.next_u64() as u128 | ((r.next_u64() as u128) << 64)) % span) as i128
        }
    };
    n.clamp(i64::MIN as i128, u64::MAX as i128)
}

/// Boundary-dense + random for the wider types.
fn job_wide<T: IntDom>(run: &Run, seed: u64, sub: u64, n_random: u64) {
    let mut acc = Acc::new();
    let mut r = Rng::new(rng::mix(&[seed, 7, rng::hash_str(T::NAME), sub]));
    if sub == 0 {
        let mut pts: Vec<i128> = vec![];
        for k in 0..=64u32 {
            let p = 1i128 << k;
            for d in [-2i128, -1, 0, 1, 2] {
                pts.push(p + d);
                pts.push(-p + d);
            }
        }
        for b in [T::MIN, T::MAX, 0] {
            for d in -3i128..=3 {
                pts.push(b + d);
            }
        }
        for n in pts {
            if n < i64::MIN as i128 || n > u64::MAX as i128 {
                continue;
            }
            check_int_offer::<T>(run, &mut acc, n);
            // the same value written as a float, when a double holds it exactly
            let f = n as f64;
            if f as i128 == n {
                check_float_to_int::<T>(run, &mut acc, f);
            }
            if n.abs() < (1 << 52) {
                check_float_to_int::<T>(run, &mut acc, n as f64 + 0.5);
            }
            if T::in_dom(n) {
                check_int_roundtrip::<T>(run, &mut acc, T::from_i(n));
            }
        }
        for f in [1e19, -1e19, 1.8446744073709552e19, 9.223372036854775807e18, -9.223372036854775808e18, 1e300, -1e300, 5e-324, -0.0, 0.5, -0.5, 0.9999999999999999] {
            check_float_to_int::<T>(run, &mut acc, f);
        }
        check_other_kinds_scalar::<T>(run, &mut acc, T::NAME, &[Kind::Number], Value::Number(Number::from(1i64)));
        run.sample_upto(
            24,
            json!({"type": T::NAME, "case": "boundary-dense ±(2^k-2..2^k+2) and random",
                   "example": {"offered": format!("Int({})", if int_number(T::MIN - 1).is_some() { T::MIN - 1 } else { T::MAX + 1 }),
                               "observed": int_number(T::MIN - 1).or(int_number(T::MAX + 1)).map(|m| format!("{:?}", obs_input::<T>(Some(Value::Number(m)))))}}),
        );
    }
    for i in 0..n_random {
        let n = gen_wide(&mut r, T::MIN, T::MAX);
        check_int_offer::<T>(run, &mut acc, n);
        if i % 4 == 0 {
            // a quarter of the random cases is recorded as distinct cases in their own right
            // (all of them would only grow the evidence set, not the coverage)
            acc.nontrivial(rng::hash_str(&format!("{}|i{}", T::NAME, n)));
            let f = n as f64;
            if f as i128 == n {
                check_float_to_int::<T>(run, &mut acc, f);
            }
            if n.abs() < (1 << 52) {
                check_float_to_int::<T>(run, &mut acc, n as f64 + *r.pick(&[0.5, 0.25, -0.125, 1e-3]));
            }
        }
        if T::in_dom(n) {
            check_int_roundtrip::<T>(run, &mut acc, T::from_i(n));
        }
    }
    acc.flush(run);
}

// ---------------------------------------------------------------------------
// floats

fn f64_neighbours(f: f64) -> [f64; 3] {
    let b = f.to_bits();
    [f64::from_bits(b.wrapping_sub(1)), f, f64::from_bits(b.wrapping_add(1))]
}

fn gen_f64(r: &mut Rng) -> f64 {
    loop {
        let f = match r.below(8) {
            0 => f64::from_bits(r.next_u64()),
            1 => (r.range(-1_000_000, 1_000_000) as f64) / 1000.0,
            2 => r.range(-1 << 40, 1 << 40) as f64,
            3 => f64::from_bits(r.next_u64() & 0x800f_ffff_ffff_ffff), // subnormals, ±0
            4 => (f32::from_bits(r.next_u64() as u32)) as f64,         // exactly f32 values
            5 => f64_neighbours(*r.pick(&[f32::MAX as f64, f32::MIN as f64, f32::MIN_POSITIVE as f64, 1e-45, 3.4028235677973366e38]))[r.below(3)],
            6 => f64::from_bits((r.next_u64() & 0x800f_ffff_ffff_ffff) | ((0x3ff + 120 + r.below(16) as u64) << 52)), // around 2^120..2^136
            _ => r.f64_unit() * 10f64.powi(r.range(-320, 308) as i32),
        };
        if f.is_finite() {
            return f;
        }
    }
}

const F64_CLASSES: &[f64] = &[
    0.0,
    -0.0,
    1.0,
    -1.0,
    0.1,
    0.5,
    1.5,
    5e-324,
    -5e-324,
    2.225073858507201e-308,
    f64::MIN_POSITIVE,
    f64::MAX,
    f64::MIN,
    f64::EPSILON,
    1e16,
    9007199254740992.0,
    9007199254740993.0,
    16777216.0,
    16777217.0,
    3.4028234663852886e38,  // f32::MAX
    3.4028235677973366e38,  // f32::MAX + half ulp (ties to even -> inf in f32)
    3.402823567797336e38,   // just below the tie -> rounds to f32::MAX
    3.4028236e38,
    -3.4028234663852886e38,
    -3.4028236e38,
    1e39,
    -1e39,
    1e300,
    1.1754943508222875e-38, // f32::MIN_POSITIVE
    1e-45,
    1.401298464324817e-45,  // smallest f32 subnormal
    7e-46,
    1e-46,
    1e-60,
    1e-320,
];

/// A: a Number offered to f64.
fn check_f64_offer(run: &Run, acc: &mut Acc, num: Number) {
    acc.eval();
    let v = Value::Number(num.clone());
    acc.nontrivial(rng::hash_str(&format!("f64|{}|{}", num.is_f64(), num)));
    let o1: Obs<f64> = obs_input(Some(v.clone()));
    let o2: Obs<f64> = obs_scalar(v.clone());
    for (which, o) in [("InputType::parse", &o1), ("ScalarType::parse", &o2)] {
        if num.is_f64() {
            let d = num.as_f64().unwrap();
            match o {
                Obs::Ok(x) if x.to_bits() == d.to_bits() => acc.count("f64_accept_ok"),
                other => viol(run, "A-f64", "f64", &show(&Some(v.clone())), &format!("{which} -> {other:?}"), &format!("Ok({d:?}) bit-exact")),
            }
        } else {
            let n = number_as_i128(&num).unwrap();
            let exact = (n as f64) as i128 == n && (n as f64).abs() < 1.8446744073709552e19 + 1.0 && !(n as f64 == 1.8446744073709552e19 && n != 1 << 64);
            match o {
                Obs::Ok(x) if exact && *x == n as f64 => acc.count("int_to_f64_accept_ok"),
                Obs::Ok(x) if !exact && f64_neighbours(n as f64).contains(x) => acc.count("inexact_int_to_f64_rounded"),
                Obs::Err(_) if !exact => acc.count("inexact_int_to_f64_rejected"),
                other => viol(
                    run,
                    "A-int-to-f64",
                    "f64",
                    &show(&Some(v.clone())),
                    &format!("{which} -> {other:?}"),
                    &if exact { format!("Ok({:?}) (Int coerces to Float)", n as f64) } else { "Err or the nearest double".to_string() },
                ),
            }
        }
    }
}

/// A: a Number offered to f32.
fn check_f32_offer(run: &Run, acc: &mut Acc, num: Number) {
    acc.eval();
    let v = Value::Number(num.clone());
    acc.nontrivial(rng::hash_str(&format!("f32|{}|{}", num.is_f64(), num)));
    // the double the number denotes (integers: exact only when small; otherwise nearest, one-sided below)
    let (d, exact_src) = if num.is_f64() {
        (num.as_f64().unwrap(), true)
    } else {
        let n = number_as_i128(&num).unwrap();
        (n as f64, (n as f64) as i128 == n && n.unsigned_abs() < (1u128 << 63))
    };
    let in_range = d.abs() <= f32::MAX as f64;
    let o1: Obs<f32> = obs_input(Some(v.clone()));
    let o2: Obs<f32> = obs_scalar(v.clone());
    for (which, o) in [("InputType::parse", &o1), ("ScalarType::parse", &o2)] {
        let want = d as f32; // IEEE round-to-nearest-even of the denoted double
        match o {
            Obs::Ok(x) if in_range && exact_src && x.to_bits() == want.to_bits() => acc.count("f32_accept_ok"),
            Obs::Ok(x) if in_range && !exact_src && (x.to_bits() as i64 - want.to_bits() as i64).abs() <= 1 => acc.count("f32_inexact_int_rounded"),
            Obs::Err(_) if in_range && !exact_src => acc.count("f32_inexact_int_rejected"),
            Obs::Err(_) if !in_range => acc.count("f32_out_of_range_rejected"),
            Obs::Ok(x) if !in_range && (x.is_infinite() || x.abs() == f32::MAX) && x.is_sign_negative() == d.is_sign_negative() => {
                acc.count("f32_out_of_range_saturated")
            }
            other => viol(
                run,
                "A-f32",
                "f32",
                &show(&Some(v.clone())),
                &format!("{which} -> {other:?}"),
                &if in_range { format!("Ok({want:?}) (nearest f32)") } else { "Err, or saturation to ±inf/±MAX of the same sign".to_string() },
            ),
        }
    }
}

fn check_f64_roundtrip(run: &Run, acc: &mut Acc, x: f64) {
    acc.eval();
    acc.nontrivial(rng::hash_str(&format!("f64|rt|{:016x}", x.to_bits())));
    let v = match catch(|| (<f64 as InputType>::to_value(&x), <f64 as ScalarType>::to_value(&x))) {
        Ok((a, b)) if a == b => a,
        other => {
            viol(run, "R-f64-tovalue", "f64", &format!("to_value({x:?})"), &format!("{other:?}"), "one value, no panic");
            return;
        }
    };
    if !x.is_finite() {
        // GraphQL Float has no non-finite values: one-sided — must not become a number
        match &v {
            Value::Number(n) => viol(run, "R-f64-nonfinite", "f64", &format!("to_value({x:?})"), &format!("Number({n})"), "anything but a finite number"),
            _ => {
                acc.count("nonfinite_to_value_not_a_number");
                run.seen("nonfinite_to_value", &format!("f64 {x:?} -> {}", show(&Some(v.clone()))));
            }
        }
        return;
    }
    let denotes = matches!(&v, Value::Number(n) if n.as_f64().map(|d| d.to_bits()) == Some(x.to_bits()));
    if !denotes {
        viol(run, "R-f64-tovalue", "f64", &format!("to_value({x:?})"), &show(&Some(v.clone())), "the number x");
        return;
    }
    match obs_input::<f64>(Some(v)) {
        Obs::Ok(y) if y.to_bits() == x.to_bits() => acc.count("f64_roundtrip_ok"),
        other => viol(run, "R-f64", "f64", &format!("parse(Some(to_value({x:?})))"), &format!("{other:?}"), "Ok(x) bit-exact"),
    }
}

fn check_f32_roundtrip(run: &Run, acc: &mut Acc, x: f32) {
    acc.eval();
    acc.nontrivial(rng::hash_str(&format!("f32|rt|{:08x}", x.to_bits())));
    let v = match catch(|| (<f32 as InputType>::to_value(&x), <f32 as ScalarType>::to_value(&x))) {
        Ok((a, b)) if a == b => a,
        other => {
            viol(run, "R-f32-tovalue", "f32", &format!("to_value({x:?})"), &format!("{other:?}"), "one value, no panic");
            return;
        }
    };
    if !x.is_finite() {
        match &v {
            Value::Number(n) => viol(run, "R-f32-nonfinite", "f32", &format!("to_value({x:?})"), &format!("Number({n})"), "anything but a finite number"),
            _ => {
                acc.count("nonfinite_to_value_not_a_number");
                run.seen("nonfinite_to_value", &format!("f32 {x:?} -> {}", show(&Some(v.clone()))));
            }
        }
        return;
    }
    let denotes = matches!(&v, Value::Number(n) if n.as_f64().map(|d| d.to_bits()) == Some((x as f64).to_bits()));
    if !denotes {
        viol(run, "R-f32-tovalue", "f32", &format!("to_value({x:?})"), &show(&Some(v.clone())), "the number x");
        return;
    }
    match obs_input::<f32>(Some(v)) {
        Obs::Ok(y) if y.to_bits() == x.to_bits() => acc.count("f32_roundtrip_ok"),
        other => viol(run, "R-f32", "f32", &format!("parse(Some(to_value({x:?})))"), &format!("{other:?}"), "Ok(x) bit-exact"),
    }
}

fn job_floats(run: &Run, seed: u64, sub: u64, n_random: u64) {
    let mut acc = Acc::new();
    let mut r = Rng::new(rng::mix(&[seed, 7, 0xF10A7, sub]));
    if sub == 0 {
        for &c in F64_CLASSES {
            for f in f64_neighbours(c) {
                if !f.is_finite() {
                    continue;
                }
                let num = Number::from_f64(f).unwrap();
                check_f64_offer(run, &mut acc, num.clone());
                check_f32_offer(run, &mut acc, num);
                check_f64_roundtrip(run, &mut acc, f);
                run.seen("float_classes_offered", &format!("{:?}", f.classify()));
            }
        }
        for x in [f64::NAN, -f64::NAN, f64::INFINITY, f64::NEG_INFINITY] {
            check_f64_roundtrip(run, &mut acc, x);
            check_f32_roundtrip(run, &mut acc, x as f32);
            run.seen("float_classes_roundtripped", &format!("{:?}", x.classify()));
        }
        for x in [0.0f32, -0.0, 1.0, 0.1, f32::MAX, f32::MIN, f32::MIN_POSITIVE, 1e-45, f32::EPSILON, 16777216.0, 3.4028233e38] {
            check_f32_roundtrip(run, &mut acc, x);
            run.seen("float_classes_roundtripped", &format!("{:?}", x.classify()));
        }
        // integers offered to the float types (Int coerces to Float)
        for k in 0..=64u32 {
            for d in [-1i128, 0, 1] {
                for s in [1i128, -1] {
                    let n = s * (1i128 << k) + d;
                    if let Some(num) = int_number(n) {
                        check_f64_offer(run, &mut acc, num.clone());
                        check_f32_offer(run, &mut acc, num);
                    }
                }
            }
        }
        check_other_kinds_scalar::<f64>(run, &mut acc, "f64", &[Kind::Number], Value::Number(Number::from_f64(1.5).unwrap()));
        check_other_kinds_scalar::<f32>(run, &mut acc, "f32", &[Kind::Number], Value::Number(Number::from_f64(1.5).unwrap()));
        run.sample_upto(
            24,
            json!({"type": "f32", "case": "finite double outside f32 range",
                   "example": {"offered": "Float(1e39)", "observed": format!("{:?}", obs_input::<f32>(Some(Value::Number(Number::from_f64(1e39).unwrap()))))}}),
        );
        run.sample_upto(
            24,
            json!({"type": "f64", "case": "non-finite to_value",
                   "example": {"x": "NaN", "to_value": show(&Some(<f64 as InputType>::to_value(&f64::NAN)))}}),
        );
    }
    for i in 0..n_random {
        let f = gen_f64(&mut r);
        let num = Number::from_f64(f).unwrap();
        check_f64_offer(run, &mut acc, num.clone());
        check_f32_offer(run, &mut acc, num);
        check_f64_roundtrip(run, &mut acc, f);
        let x = f32::from_bits(r.next_u64() as u32);
        check_f32_roundtrip(run, &mut acc, x);
        if i % 4 == 0 {
            let n = gen_wide(&mut r, i64::MIN as i128, u64::MAX as i128);
            let num = int_number(n).unwrap();
            check_f64_offer(run, &mut acc, num.clone());
            check_f32_offer(run, &mut acc, num);
        }
    }
    acc.flush(run);
}

// ---------------------------------------------------------------------------
// bool, String, char, ID, enum

#[derive(Enum, Copy, Clone, Eq, PartialEq, Debug)]
enum Letters {
    Alpha,
    BetaGamma,
    #[graphql(name = "delta_x")]
    Delta,
    E2,
}

/// Hand-written oracle table: derive(Enum) names items in SCREAMING_SNAKE_CASE
/// unless renamed explicitly.
const LETTERS: &[(&str, Letters)] = &[
    ("ALPHA", Letters::Alpha),
    ("BETA_GAMMA", Letters::BetaGamma),
    ("delta_x", Letters::Delta),
    ("E2", Letters::E2),
];

fn job_text(run: &Run, seed: u64, sub: u64, n_random: u64) {
    let mut acc = Acc::new();
    let mut r = Rng::new(rng::mix(&[seed, 7, 0x7E47, sub]));

    if sub == 0 {
        // ---- bool
        for b in [true, false] {
            acc.eval();
            acc.nontrivial(rng::hash_str(&format!("bool|{b}")));
            let v = <bool as InputType>::to_value(&b);
            if v != Value::Boolean(b) || <bool as ScalarType>::to_value(&b) != v {
                viol(run, "R-bool-tovalue", "bool", &format!("to_value({b})"), &show(&Some(v.clone())), "Boolean(b)");
            }
            match (obs_input::<bool>(Some(v.clone())), obs_scalar::<bool>(v)) {
                (Obs::Ok(x), Obs::Ok(y)) if x == b && y == b => acc.count("bool_roundtrip_ok"),
                other => viol(run, "R-bool", "bool", &format!("parse(Some(to_value({b})))"), &format!("{other:?}"), "Ok(b)"),
            }
        }
        check_other_kinds_scalar::<bool>(run, &mut acc, "bool", &[Kind::Boolean], Value::Boolean(true));
        check_other_kinds_scalar::<String>(run, &mut acc, "String", &[Kind::String], Value::String("x".into()));
        check_other_kinds_scalar::<char>(run, &mut acc, "char", &[Kind::String], Value::String("x".into()));
        check_other_kinds_scalar::<ID>(run, &mut acc, "ID", &[Kind::String, Kind::Number], Value::String("x".into()));
        check_other_kinds::<Letters>(run, &mut acc, "Letters", &[Kind::Enum, Kind::String], Value::Enum(Name::new("ALPHA")));
        // Box<str> / Arc<str> have their own InputType impls
        check_other_kinds::<Box<str>>(run, &mut acc, "Box<str>", &[Kind::String], Value::String("x".into()));
        check_other_kinds::<std::sync::Arc<str>>(run, &mut acc, "Arc<str>", &[Kind::String], Value::String("x".into()));

        // ---- char: every ASCII char, the encoding-length boundaries
        let mut chars: Vec<char> = (0u32..128).map(|c| char::from_u32(c).unwrap()).collect();
        chars.extend(['\u{80}', '\u{7ff}', '\u{800}', '\u{d7ff}', '\u{e000}', '\u{fffd}', '\u{ffff}', '\u{10000}', '\u{10ffff}', '\u{301}', '\u{200d}', '\u{feff}']);
        let n_ascii = chars.iter().filter(|c| c.is_ascii()).count();
        for c in chars {
            check_char(run, &mut acc, c);
        }
        run.count("ascii_chars_checked", n_ascii as u64);
        for s in ["", "ab", "e\u{301}", "\u{1F468}\u{200d}\u{1F469}", "  ", "a ", "\u{10ffff}\u{10ffff}", "\r\n"] {
            check_char_string(run, &mut acc, s);
        }

        // ---- enum
        for (name, item) in LETTERS {
            acc.eval();
            acc.nontrivial(rng::hash_str(&format!("enum|{name}")));
            let v = catch(|| <Letters as InputType>::to_value(item));
            match &v {
                Ok(Value::Enum(n)) if n.as_str() == *name => acc.count("enum_to_value_ok"),
                other => viol(run, "R-enum-tovalue", "Letters", &format!("to_value({item:?})"), &format!("{other:?}"), &format!("Enum({name})")),
            }
            match obs_input::<Letters>(Some(Value::Enum(Name::new(*name)))) {
                Obs::Ok(x) if x == *item => acc.count("enum_accept_ok"),
                other => viol(run, "A-enum", "Letters", &format!("Enum({name})"), &format!("{other:?}"), &format!("Ok({item:?})")),
            }
            if let Ok(v) = v {
                match obs_input::<Letters>(Some(v)) {
                    Obs::Ok(x) if x == *item => acc.count("enum_roundtrip_ok"),
                    other => viol(run, "R-enum", "Letters", &format!("parse(Some(to_value({item:?})))"), &format!("{other:?}"), &format!("Ok({item:?})")),
                }
            }
            // the same name as a string (how a JSON variable arrives): one-sided
            acc.eval();
            match obs_input::<Letters>(Some(Value::String(name.to_string()))) {
                Obs::Ok(x) if x == *item => acc.count("enum_from_string_accepted_same"),
                Obs::Err(_) => acc.count("enum_from_string_rejected"),
                other => viol(run, "A-enum-string", "Letters", &format!("String({name:?})"), &format!("{other:?}"), &format!("Err, or Ok({item:?})")),
            }
        }
        let mut wrong: Vec<String> = vec![];
        for (name, _) in LETTERS {
            wrong.push(name.to_lowercase());
            wrong.push(name.to_uppercase());
            wrong.push(format!("{name} "));
            wrong.push(format!(" {name}"));
            wrong.push(format!("{name}_"));
            wrong.push(name[..name.len() - 1].to_string());
            wrong.push(name.replace('_', ""));
        }
        for s in ["Alpha", "BetaGamma", "betaGamma", "Delta", "DELTA", "delta", "e2", "", "UNKNOWN", "true", "null", "0", "ALPHA\u{0}", "ΑLPHA"] {
            wrong.push(s.to_string());
        }
        wrong.retain(|w| !LETTERS.iter().any(|(n, _)| n == w));
        wrong.sort();
        wrong.dedup();
        for w in &wrong {
            for (as_enum, v) in [(true, Value::Enum(Name::new(w))), (false, Value::String(w.clone()))] {
                acc.eval();
                acc.nontrivial(rng::hash_str(&format!("enum|wrong|{as_enum}|{w}")));
                match obs_input::<Letters>(Some(v.clone())) {
                    Obs::Err(_) => acc.count("enum_unknown_reject_ok"),
                    other => viol(run, "A-enum-unknown", "Letters", &show(&Some(v)), &format!("{other:?}"), "Err (no such item)"),
                }
            }
        }
        run.count("enum_wrong_names_offered", wrong.len() as u64);
        run.sample_upto(
            24,
            json!({"type": "Letters (derive(Enum))", "case": "wrong case",
                   "example": {"offered": "Enum(alpha)", "observed": format!("{:?}", obs_input::<Letters>(Some(Value::Enum(Name::new("alpha")))))}}),
        );
        run.sample_upto(
            24,
            json!({"type": "char", "case": "two scalars (e + combining acute)",
                   "example": {"offered": "String(\"e\\u{301}\")", "observed": format!("{:?}", obs_input::<char>(Some(Value::String("e\u{301}".into()))))}}),
        );

        // ---- ID: integer forms
        for k in 0..=64u32 {
            for d in [-1i128, 0, 1] {
                for s in [1i128, -1] {
                    check_id_int(run, &mut acc, s * (1i128 << k) + d);
                }
            }
        }
        for f in [1.5, -0.5, 1e-3, 1e300, 0.1] {
            acc.eval();
            acc.nontrivial(rng::hash_str(&format!("ID|f{f}")));
            let v = Value::Number(Number::from_f64(f).unwrap());
            match obs_input::<ID>(Some(v.clone())) {
                Obs::Err(_) => acc.count("id_float_reject_ok"),
                other => viol(run, "A-id-float", "ID", &show(&Some(v)), &format!("{other:?}"), "Err (a non-integral float is no ID)"),
            }
        }
        for f in [1.0, -3.0, 0.0, 1e15] {
            acc.eval();
            let v = Value::Number(Number::from_f64(f).unwrap());
            match obs_input::<ID>(Some(v.clone())) {
                Obs::Err(_) => acc.count("id_integral_float_rejected"),
                Obs::Ok(id) if id.0.parse::<f64>().ok() == Some(f) => acc.count("id_integral_float_accepted_same"),
                other => viol(run, "A-id-float", "ID", &show(&Some(v)), &format!("{other:?}"), "Err, or an ID whose text is that number"),
            }
        }
    }

    for _ in 0..n_random {
        // String / Box<str> / Arc<str> / ID
        let s = gen_string(&mut r, 12);
        check_string(run, &mut acc, &s);
        // char
        let c = if r.bool() { gen_scalar(&mut r) } else { gen_char(&mut r) };
        check_char(run, &mut acc, c);
        let t = gen_string(&mut r, 3);
        check_char_string(run, &mut acc, &t);
        // ID ints
        let n = gen_wide(&mut r, i64::MIN as i128, u64::MAX as i128);
        check_id_int(run, &mut acc, n);
    }
    acc.flush(run);
}

fn nontrivial_text(s: &str) -> bool {
    s.is_empty() || !s.is_ascii() || s.chars().any(|c| c.is_control() || c == '"' || c == '\\')
}

fn check_string(run: &Run, acc: &mut Acc, s: &str) {
    acc.eval();
    if nontrivial_text(s) {
        acc.nontrivial(rng::hash_str(&format!("String|{s}")));
    }
    let owned = s.to_string();
    let v = <String as InputType>::to_value(&owned);
    if v != Value::String(owned.clone()) || <String as ScalarType>::to_value(&owned) != v {
        viol(run, "R-string-tovalue", "String", &format!("to_value({s:?})"), &show(&Some(v.clone())), "String(s)");
    }
    match (obs_input::<String>(Some(v.clone())), obs_scalar::<String>(v.clone())) {
        (Obs::Ok(a), Obs::Ok(b)) if a == s && b == s => acc.count("string_roundtrip_ok"),
        other => viol(run, "R-string", "String", &format!("parse(Some(to_value({s:?})))"), &format!("{other:?}"), "Ok(s)"),
    }
    match obs_input::<Box<str>>(Some(v.clone())) {
        Obs::Ok(a) if &*a == s && <Box<str> as InputType>::to_value(&a) == v => acc.count("boxstr_roundtrip_ok"),
        other => viol(run, "R-boxstr", "Box<str>", &format!("String({s:?})"), &format!("{other:?}"), "Ok(s)"),
    }
    match obs_input::<std::sync::Arc<str>>(Some(v.clone())) {
        Obs::Ok(a) if &*a == s && <std::sync::Arc<str> as InputType>::to_value(&a) == v => acc.count("arcstr_roundtrip_ok"),
        other => viol(run, "R-arcstr", "Arc<str>", &format!("String({s:?})"), &format!("{other:?}"), "Ok(s)"),
    }
    // ID
    acc.eval();
    let id = ID(owned.clone());
    let iv = <ID as InputType>::to_value(&id);
    if iv != Value::String(owned.clone()) || <ID as ScalarType>::to_value(&id) != iv {
        viol(run, "R-id-tovalue", "ID", &format!("to_value(ID({s:?}))"), &show(&Some(iv.clone())), "String(s)");
    }
    match (obs_input::<ID>(Some(iv.clone())), obs_scalar::<ID>(iv)) {
        (Obs::Ok(a), Obs::Ok(b)) if a == id && b == id => acc.count("id_roundtrip_ok"),
        other => viol(run, "R-id", "ID", &format!("parse(Some(to_value(ID({s:?}))))"), &format!("{other:?}"), "Ok(id)"),
    }
}

fn check_char(run: &Run, acc: &mut Acc, c: char) {
    acc.eval();
    acc.nontrivial(rng::hash_str(&format!("char|{}", c as u32)));
    let v = <char as InputType>::to_value(&c);
    if v != Value::String(c.to_string()) || <char as ScalarType>::to_value(&c) != v {
        viol(run, "R-char-tovalue", "char", &format!("to_value({c:?})"), &show(&Some(v.clone())), "String of that one char");
    }
    match (obs_input::<char>(Some(v.clone())), obs_scalar::<char>(v)) {
        (Obs::Ok(a), Obs::Ok(b)) if a == c && b == c => acc.count("char_roundtrip_ok"),
        other => viol(run, "R-char", "char", &format!("parse(Some(to_value({c:?})))"), &format!("{other:?}"), "Ok(c)"),
    }
}

/// A: a string offered to char is in the domain iff it holds exactly one scalar.
fn check_char_string(run: &Run, acc: &mut Acc, s: &str) {
    acc.eval();
    acc.nontrivial(rng::hash_str(&format!("char|str|{s}")));
    let n = s.chars().count();
    let v = Value::String(s.to_string());
    match (obs_input::<char>(Some(v.clone())), n) {
        (Obs::Ok(c), 1) if Some(c) == s.chars().next() => acc.count("char_accept_ok"),
        (Obs::Err(_), n) if n != 1 => acc.count("char_reject_ok"),
        (other, _) => viol(
            run,
            "A-char",
            "char",
            &show(&Some(v)),
            &format!("{other:?}"),
            if n == 1 { "Ok(that char)" } else { "Err (not exactly one Unicode scalar)" },
        ),
    }
}

fn check_id_int(run: &Run, acc: &mut Acc, n: i128) {
    let Some(num) = int_number(n) else { return };
    acc.eval();
    acc.nontrivial(rng::hash_str(&format!("ID|i{n}")));
    let v = Value::Number(num);
    let beyond_i64 = n > i64::MAX as i128;
    match (obs_input::<ID>(Some(v.clone())), obs_scalar::<ID>(v.clone())) {
        (Obs::Ok(a), Obs::Ok(b)) if a.0 == n.to_string() && b.0 == n.to_string() => acc.count(if beyond_i64 { "id_int_beyond_i64_accepted_same" } else { "id_int_accept_ok" }),
        (Obs::Err(_), Obs::Err(_)) if beyond_i64 => acc.count("id_int_beyond_i64_rejected"),
        other => viol(
            run,
            "A-id-int",
            "ID",
            &show(&Some(v)),
            &format!("{other:?}"),
            &if beyond_i64 { format!("Err, or Ok(ID(\"{n}\"))") } else { format!("Ok(ID(\"{n}\")) (an integer is an ID)") },
        ),
    }
}

// ---------------------------------------------------------------------------

pub fn main() {
    let mut run = Run::from_args(
        "exploration",
        "case = (Rust scalar type, offered GraphQL value) or (type, Rust value to round-trip). i8/u8/i16/u16 and their \
         NonZero forms: every integer -70000..=70000 as integer literal, as integral float and as n+0.5, and every \
         value of the type round-tripped (complete). i32/u32/i64/u64/isize/usize and NonZero forms: ±(2^k-2..2^k+2) \
         for k=0..64, MIN/MAX/0 ±3, random (uniform bits, near anchors, random magnitude, uniform in range). f32/f64: \
         zero/subnormal/normal/MAX classes with both neighbours, f32 range edges, random bit patterns, integers \
         offered as floats, NaN/±inf on the to_value side. char: every ASCII char, UTF-8 length boundaries, random \
         scalars, strings of 0/2/3 scalars. String/Box<str>/Arc<str>/ID: random Unicode strings; ID also integers. \
         derive(Enum): every item, wrong case, unknown, prefixes. Every type is offered every other value kind. \
         Non-trivial: within 2 of a domain boundary or of a power of two, another kind, a float for an integer type \
         or an integer for a float type, non-ASCII/control/empty text; distinct by hash(type, value).",
    );
    run.assume("domain model (harness): an integer type denotes the integers MIN..=MAX (NonZero: without 0); Int coerces to Float; ID takes strings and integers; char is a string of exactly one Unicode scalar; derive(Enum) item names are SCREAMING_SNAKE_CASE unless renamed");
    run.assume("one-sided: an integral float (e.g. 5.0) offered to an integer type may be rejected or accepted as that same integer, never as another value");
    run.assume("one-sided: a finite double beyond ±f32::MAX offered to f32 may be rejected or saturate to ±inf/±f32::MAX of the same sign; inside the range the result must be the nearest f32");
    run.assume("one-sided: an integer that no double holds exactly, offered to f64/f32, may be rejected or rounded to a neighbouring float");
    run.assume("one-sided: an item name given as a String to a derived enum (how JSON variables arrive) may be rejected or accepted as the item of exactly that name; an integer beyond i64 or an integral float offered to ID may be rejected or accepted with the same numeric text");
    run.assume("GraphQL Float has no NaN/±inf: to_value of a non-finite float is only required not to be a number (observed result recorded under nonfinite_to_value); such values are outside the round-trip claim");
    run.assume("usize/isize are checked on this 64-bit target only");
    run.set_max_samples(24);
    run.set_floors(1_000_000, 20_000);
    for c in ["int_accept_ok", "int_reject_ok", "int_roundtrip_ok", "other_kind_reject_ok", "f32_accept_ok", "f64_roundtrip_ok", "char_accept_ok", "char_reject_ok", "enum_unknown_reject_ok", "small_type_values_roundtripped"] {
        run.require_counter(c);
    }

    let seed = run.seed;
    // random volume per wide type / per float job / per text job, split into sub-jobs
    let subs = run.scale(2, 16);
    let per_sub_wide = run.scale(40_000, 400_000);
    let per_sub_float = run.scale(60_000, 300_000);
    let per_sub_text = run.scale(30_000, 150_000);

    let runr = &run;
    let small_done = AtomicU64::new(0);
    let small_done_r = &small_done;
    let mut jobs: Vec<Box<dyn FnOnce() + Send + '_>> = vec![];
    macro_rules! small { ($($t:ty),*) => {$( jobs.push(Box::new(move || job_small::<$t>(runr, small_done_r))); )*}; }
    macro_rules! wide { ($($t:ty),*) => {$( for sub in 0..subs { jobs.push(Box::new(move || job_wide::<$t>(runr, seed, sub, per_sub_wide))); } )*}; }
    small!(i8, u8, i16, u16, NonZeroI8, NonZeroU8, NonZeroI16, NonZeroU16);
    wide!(i32, u32, i64, u64, isize, usize, NonZeroI32, NonZeroU32, NonZeroI64, NonZeroU64, NonZeroIsize, NonZeroUsize);
    for sub in 0..subs {
        jobs.push(Box::new(move || job_floats(runr, seed, sub, per_sub_float)));
        jobs.push(Box::new(move || job_text(runr, seed, sub, per_sub_text)));
    }
    let njobs = jobs.len();
    run_jobs(threads(), jobs);
    run.extra("jobs", json!(njobs));
    run.extra(
        "exhaustive_scope",
        json!("exhaustive=true refers to i8/u8/i16/u16/NonZeroI8/NonZeroU8/NonZeroI16/NonZeroU16: every integer -70000..=70000 offered (3 spellings) and every value of the type round-tripped; wider types, floats and text are boundary-dense + sampled"),
    );
    // complete only if every small-type job enumerated its whole space:
    // 256+65536 values twice, NonZero one less each, plus 140001 integers offered to each of the 8 types
    let expected: u64 = 2 * (256 + 65_536) + 2 * (255 + 65_535) + 8 * 140_001;
    let got = small_done.load(Ordering::SeqCst);
    run.exhaustive(got == expected);
    run.extra("small_type_enumeration", json!({"expected": expected, "enumerated": got}));
    if got != expected {
        run.inconclusive(&format!("small-type enumeration incomplete: {got} of {expected}"));
    }
    run.finish();
}
