//! The two "programs" every entry point is driven with: the same GraphQL schema
//!
//!     type Query    { value: Int }
//!     type Mutation { bump(by: Int! = 1): Int!  setFlag(v: Boolean!): Boolean! }
//!
//! once built with the `#[Object]` macros and once with `async_graphql::dynamic`.
//! Every resolver appends to an event log that lives in the schema data; the
//! monitor reads (and clears) the log after every request.

use std::sync::{Arc, Mutex};

use async_graphql::{Context, EmptySubscription, Object, Schema, dynamic};

#[derive(Clone, Debug, PartialEq)]
pub enum Ev {
    Query,
    Bump(i64),
    SetFlag(bool),
}

impl Ev {
    pub fn is_mutation(&self) -> bool {
        !matches!(self, Ev::Query)
    }
    pub fn show(&self) -> String {
        match self {
            Ev::Query => "value".into(),
            Ev::Bump(n) => format!("bump(by:{n})"),
            Ev::SetFlag(b) => format!("setFlag(v:{b})"),
        }
    }
}

#[derive(Default)]
struct LogInner {
    events: Vec<Ev>,
    counter: i64,
}

/// Shared resolver event log (schema data of both schemas of one entry point).
#[derive(Clone, Default)]
pub struct Log(Arc<Mutex<LogInner>>);

impl Log {
    pub fn push(&self, e: Ev) -> i64 {
        let mut g = self.0.lock().unwrap();
        if let Ev::Bump(n) = &e {
            g.counter = g.counter.wrapping_add(*n);
        }
        g.events.push(e);
        g.counter
    }
    /// Events since the last call.
    pub fn take(&self) -> Vec<Ev> {
        std::mem::take(&mut self.0.lock().unwrap().events)
    }
}

pub const QUERY_VALUE: i32 = 42;

pub struct Query;

#[Object]
impl Query {
    async fn value(&self, ctx: &Context<'_>) -> Option<i32> {
        ctx.data_unchecked::<Log>().push(Ev::Query);
        Some(QUERY_VALUE)
    }
}

pub struct Mutation;

#[Object]
impl Mutation {
    async fn bump(&self, ctx: &Context<'_>, #[graphql(default = 1)] by: i32) -> i32 {
        ctx.data_unchecked::<Log>().push(Ev::Bump(by as i64)) as i32
    }
    async fn set_flag(&self, ctx: &Context<'_>, v: bool) -> bool {
        ctx.data_unchecked::<Log>().push(Ev::SetFlag(v));
        v
    }
}

pub type StaticSchema = Schema<Query, Mutation, EmptySubscription>;
pub type DynSchema = dynamic::Schema;

pub fn static_schema(log: Log) -> StaticSchema {
    Schema::build(Query, Mutation, EmptySubscription).data(log).finish()
}

pub fn dynamic_schema(log: Log) -> DynSchema {
    use dynamic::{Field, FieldFuture, InputValue, Object, TypeRef};
    let query = Object::new("Query").field(Field::new("value", TypeRef::named(TypeRef::INT), |ctx| {
        FieldFuture::new(async move {
            ctx.data_unchecked::<Log>().push(Ev::Query);
            Ok(Some(async_graphql::Value::from(QUERY_VALUE)))
        })
    }));
    let mutation = Object::new("Mutation")
        .field(
            Field::new("bump", TypeRef::named_nn(TypeRef::INT), |ctx| {
                FieldFuture::new(async move {
                    // argument default handled here as well, so the event is
                    // recorded whatever the dynamic executor does with defaults
                    let by = ctx.args.get("by").and_then(|v| v.i64().ok()).unwrap_or(1);
                    let c = ctx.data_unchecked::<Log>().push(Ev::Bump(by));
                    Ok(Some(async_graphql::Value::from(c as i32)))
                })
            })
            .argument(InputValue::new("by", TypeRef::named_nn(TypeRef::INT)).default_value(1)),
        )
        .field(
            Field::new("setFlag", TypeRef::named_nn(TypeRef::BOOLEAN), |ctx| {
                FieldFuture::new(async move {
                    let v = ctx.args.try_get("v")?.boolean()?;
                    ctx.data_unchecked::<Log>().push(Ev::SetFlag(v));
                    Ok(Some(async_graphql::Value::from(v)))
                })
            })
            .argument(InputValue::new("v", TypeRef::named_nn(TypeRef::BOOLEAN))),
        );
    dynamic::Schema::build("Query", Some("Mutation"), None)
        .register(query)
        .register(mutation)
        .data(log)
        .finish()
        .expect("dynamic schema builds")
}
