//! C35 — HTTP GET requests never execute mutations.
//!
//! Property: a request received over HTTP GET by any of the bundled
//! web-framework integrations (axum, actix-web, poem, warp, rocket) never
//! executes a mutation operation: it is answered with an error and no mutation
//! resolver runs.
//!
//! Monitor. Every entry point of every integration gets its own thread, its own
//! framework runtime, its own pair of schemas (static `Schema<..>` and
//! `dynamic::Schema` of the same SDL) and its own resolver event log in the
//! schema data. Requests are sent one at a time, in memory (no sockets), through
//! the integration's OWN service / extractor / filter / form guard and the
//! documented execute call; after each request the log is read and cleared:
//!
//!   * any mutation-resolver event after a GET                 -> violation "executed"
//!   * a GET whose only reading is a mutation, answered with
//!     HTTP < 400 and a payload without non-empty `errors`     -> violation "no_error"
//!
//! Controls (the monitor is known to see events): the same kind of mutation
//! sent by POST through the same entry point must produce exactly the events a
//! reference run of the request on a separate schema instance produces
//! (`post_mutation_events`), and a plain GET query must succeed and log the
//! query resolver (`get_query_ok`). A control that fails is INCONCLUSIVE.
//!
//! Known findings. The defect is a property of a call site, not of an input:
//! every executable mutation sent by GET reproduces it. So each entry point is
//! a generator feature (`run.feature("axum_service")`, ...). While a *known*
//! finding excludes the feature, the generated GET-mutation traffic is not sent
//! through that entry point; what still runs there is the pinned witness set
//! (`witnesses/C35-get-mutation.json`), the controls and the generated benign
//! GET traffic (mixed documents with the query selected, mutations hidden in a
//! GET *body*), all judged by the same monitor. A witness is reported with the
//! signature `"<finding id>|<observation class> through <entry point>"`, so the
//! same class through another entry point, or another class through the same
//! one, is a new VIOLATION. Generated cases use `gen:<entry>:<class>:<hash>`,
//! which never matches a finding.

mod entries;
mod generate;
mod schema;

use std::collections::{BTreeMap, BTreeSet, VecDeque};
use std::time::{Duration, Instant};

use futures_util::FutureExt;
use vh_core::serde_json::{self, Value as J, json};
use vh_core::run::truncate;
use vh_core::{Rng, Run, catch, rng};

use generate::{Caps, Case, Kind, RefReq};
use schema::{Ev, Log, StaticSchema};

/// One integration entry point = one generator feature = one (proposed) finding.
pub struct Entry {
    /// generator feature name (`run.feature`)
    pub feature: &'static str,
    /// id of the known finding that excludes the feature
    pub finding: &'static str,
    /// wording used in signatures
    pub label: &'static str,
    pub integration: &'static str,
    /// where the GET branch hands the request to the executor
    pub site: &'static str,
    pub caps: Caps,
}

pub const ENTRIES: &[Entry] = &[
    Entry {
        feature: "axum_service",
        finding: "C35-axum-service-get-mutation",
        label: "async_graphql_axum::GraphQL (tower Service::call)",
        integration: "axum",
        site: "integrations/axum/src/query.rs:85-90 -> extract.rs:100-109",
        caps: Caps { batch_post: true, get_body: true },
    },
    Entry {
        feature: "axum_request_extractor",
        finding: "C35-axum-request-extractor-get-mutation",
        label: "async_graphql_axum::GraphQLRequest extractor + Schema::execute in a Router handler",
        integration: "axum",
        site: "integrations/axum/src/extract.rs:67-75 -> 100-109",
        caps: Caps { batch_post: false, get_body: true },
    },
    Entry {
        feature: "axum_batch_extractor",
        finding: "C35-axum-batch-extractor-get-mutation",
        label: "async_graphql_axum::GraphQLBatchRequest extractor + Schema::execute_batch in a Router handler",
        integration: "axum",
        site: "integrations/axum/src/extract.rs:100-109",
        caps: Caps { batch_post: true, get_body: true },
    },
    Entry {
        feature: "poem_endpoint",
        finding: "C35-poem-endpoint-get-mutation",
        label: "async_graphql_poem::GraphQL endpoint (Endpoint::get_response)",
        integration: "poem",
        site: "integrations/poem/src/query.rs:74-78 -> extractor.rs:65-69",
        caps: Caps { batch_post: true, get_body: true },
    },
    Entry {
        feature: "poem_request_extractor",
        finding: "C35-poem-request-extractor-get-mutation",
        label: "async_graphql_poem::GraphQLRequest extractor + Schema::execute in a #[handler]",
        integration: "poem",
        site: "integrations/poem/src/extractor.rs:49-57 -> 65-69",
        caps: Caps { batch_post: false, get_body: true },
    },
    Entry {
        feature: "poem_batch_extractor",
        finding: "C35-poem-batch-extractor-get-mutation",
        label: "async_graphql_poem::GraphQLBatchRequest extractor + Schema::execute_batch in a #[handler]",
        integration: "poem",
        site: "integrations/poem/src/extractor.rs:65-69",
        caps: Caps { batch_post: true, get_body: true },
    },
    Entry {
        feature: "actix_request_extractor",
        finding: "C35-actix-request-extractor-get-mutation",
        label: "async_graphql_actix_web::GraphQLRequest extractor + Schema::execute in an actix-web handler",
        integration: "actix-web",
        site: "integrations/actix-web/src/request.rs:47-55 -> 82-85",
        caps: Caps { batch_post: false, get_body: true },
    },
    Entry {
        feature: "actix_batch_extractor",
        finding: "C35-actix-batch-extractor-get-mutation",
        label: "async_graphql_actix_web::GraphQLBatchRequest extractor + Schema::execute_batch in an actix-web handler",
        integration: "actix-web",
        site: "integrations/actix-web/src/request.rs:82-85",
        caps: Caps { batch_post: true, get_body: true },
    },
    Entry {
        feature: "warp_filter",
        finding: "C35-warp-filter-get-mutation",
        label: "async_graphql_warp::graphql filter + Schema::execute",
        integration: "warp",
        site: "integrations/warp/src/request.rs:63-70 -> batch_request.rs:36-42",
        caps: Caps { batch_post: false, get_body: true },
    },
    Entry {
        feature: "warp_batch_filter",
        finding: "C35-warp-batch-filter-get-mutation",
        label: "async_graphql_warp::graphql_batch filter + Schema::execute_batch",
        integration: "warp",
        site: "integrations/warp/src/batch_request.rs:36-42",
        caps: Caps { batch_post: true, get_body: true },
    },
    Entry {
        feature: "rocket_query",
        finding: "C35-rocket-query-get-mutation",
        label: "async_graphql_rocket::GraphQLQuery form guard on a #[get] route + GraphQLQuery::execute",
        integration: "rocket",
        site: "integrations/rocket/src/lib.rs:113-128, 151-157",
        caps: Caps { batch_post: true, get_body: false },
    },
];

pub fn entry_by_feature(f: &str) -> Option<&'static Entry> {
    ENTRIES.iter().find(|e| e.feature == f)
}

/// What came back from the framework.
#[derive(Clone, Debug)]
pub struct HttpOut {
    pub status: u16,
    pub content_type: String,
    pub body: Vec<u8>,
}

#[derive(Clone, Copy, PartialEq, Eq, PartialOrd, Ord, Debug)]
pub enum Class {
    Executed,
    NoError,
}

impl Class {
    fn tag(self) -> &'static str {
        match self {
            Class::Executed => "executed",
            Class::NoError => "no_error_but_not_executed",
        }
    }
    /// the exact wording of the wrong observation in witness signatures
    fn wording(self) -> &'static str {
        match self {
            Class::Executed => "mutation executed via GET",
            Class::NoError => "GET mutation answered without errors (resolver did not run)",
        }
    }
}

pub struct Viol {
    pub signature: String,
    pub what: String,
    pub replay: J,
    pub class: Class,
    pub witness: bool,
}

#[derive(Default)]
pub struct EntryReport {
    pub feature: &'static str,
    pub feature_on: bool,
    pub requests: u64,
    pub counters: BTreeMap<String, u64>,
    pub tags: BTreeMap<&'static str, u64>,
    pub distinct: BTreeSet<u64>,
    pub viols: Vec<Viol>,
    pub class_counts: BTreeMap<Class, u64>,
    pub samples: [Option<J>; 3],
    pub problems: Vec<String>,
    pub statuses: BTreeSet<String>,
}

/// Payloads of a response body: the JSON documents it carries.
pub fn payloads(out: &HttpOut) -> Vec<J> {
    let text = String::from_utf8_lossy(&out.body);
    if out.content_type.to_ascii_lowercase().starts_with("multipart/mixed") {
        let mut v = vec![];
        for part in text.split("--graphql") {
            if let Some(i) = part.find("\r\n\r\n") {
                let body = part[i + 4..].trim();
                if let Ok(j) = serde_json::from_str::<J>(body) {
                    if j.as_object().map(|o| !o.is_empty()).unwrap_or(false) {
                        v.push(j); // `{}` is a heartbeat
                    }
                }
            }
        }
        return v;
    }
    match serde_json::from_str::<J>(&text) {
        Ok(J::Array(a)) => a,
        Ok(j @ J::Object(_)) => vec![j],
        _ => vec![],
    }
}

fn has_errors(p: &J) -> bool {
    p.get("errors").and_then(|e| e.as_array()).map(|a| !a.is_empty()).unwrap_or(false)
}

/// "answered with an error": an HTTP error status, or every GraphQL payload of
/// the answer carries a non-empty `errors` list.
pub fn answered_with_error(out: &HttpOut, ps: &[J]) -> bool {
    out.status >= 400 || (!ps.is_empty() && ps.iter().all(has_errors))
}

pub struct Workload {
    pub entry: &'static Entry,
    rng: Rng,
    pub log: Log,
    ref_schema: StaticSchema,
    ref_log: Log,
    pending: VecDeque<Case>,
    remaining: u64,
    deadline: Instant,
    pub report: EntryReport,
    stored_per_class: BTreeMap<Class, u32>,
}

const STORE_PER_CLASS: u32 = 2;

impl Workload {
    pub fn new(run: &Run, entry: &'static Entry, idx: u64, n: u64, budget: Duration) -> Self {
        let feature_on = run.feature(entry.feature);
        let ref_log = Log::default();
        let mut pending: VecDeque<Case> = generate::witnesses().into();
        // deterministic controls first: one POST mutation and one GET query per executor
        for dynamic in [false, true] {
            let mut q = generate::gen_query_control(&mut Rng::new(7));
            q.dynamic = dynamic;
            pending.push_back(q);
            let r = RefReq { doc: "mutation { bump(by: 2) setFlag(v: true) }".into(), operation: None, variables: json!({}) };
            pending.push_back(Case {
                kind: Kind::PostControl,
                wire: generate::Wire {
                    method: "POST",
                    query_string: String::new(),
                    accept_multipart: false,
                    body: Some(r.to_json().to_string()),
                },
                dynamic,
                pairs: vec![],
                reference: None,
                post_batch: vec![r],
                tags: vec!["post_single"],
                witness: None,
            });
        }
        Workload {
            entry,
            rng: Rng::new(rng::mix(&[run.seed, 35, idx])),
            log: Log::default(),
            ref_schema: schema::static_schema(ref_log.clone()),
            ref_log,
            pending,
            remaining: n,
            deadline: Instant::now() + budget,
            report: EntryReport { feature: entry.feature, feature_on, ..Default::default() },
            stored_per_class: BTreeMap::new(),
        }
    }

    pub fn replay(run: &Run, entry: &'static Entry, case: Case) -> Self {
        let mut w = Workload::new(run, entry, 0, 0, Duration::from_secs(60));
        w.pending.clear();
        w.pending.push_back(case);
        w
    }

    fn bump(&mut self, name: &str, n: u64) {
        *self.report.counters.entry(name.to_string()).or_insert(0) += n;
    }

    pub fn next(&mut self) -> Option<Case> {
        if let Some(c) = self.pending.pop_front() {
            self.log.take();
            return Some(c);
        }
        if self.remaining == 0 {
            return None;
        }
        if self.remaining % 256 == 0 && Instant::now() > self.deadline {
            self.report.problems.push(format!(
                "watchdog: {} generated cases left undone through {} when the wall-clock budget ended",
                self.remaining, self.entry.feature
            ));
            self.remaining = 0;
            return None;
        }
        self.remaining -= 1;
        let c = generate::gen_case(&mut self.rng, self.entry.caps, self.report.feature_on);
        self.log.take();
        Some(c)
    }

    /// Run the request the case carries directly on the reference schema
    /// (`Schema::execute`, separate instance and log); returns its events and
    /// whether it came back without errors.
    fn reference_run(&self, r: &RefReq) -> (Vec<Ev>, bool) {
        self.ref_log.take();
        let mut req = async_graphql::Request::new(r.doc.clone())
            .variables(async_graphql::Variables::from_json(r.variables.clone()));
        if let Some(op) = &r.operation {
            req = req.operation_name(op.clone());
        }
        let resp = self
            .ref_schema
            .execute(req)
            .now_or_never()
            .expect("reference execution has no suspension point");
        (self.ref_log.take(), resp.errors.is_empty())
    }

    pub fn observe(&mut self, case: Case, out: HttpOut) {
        let evs = self.log.take();
        self.report.requests += 1;
        let mut_evs: Vec<&Ev> = evs.iter().filter(|e| e.is_mutation()).collect();
        let ps = payloads(&out);
        let err = answered_with_error(&out, &ps);
        for t in &case.tags {
            *self.report.tags.entry(t).or_insert(0) += 1;
        }
        self.report.statuses.insert(format!("{} {} {}", self.entry.integration, case.kind.name(), out.status));
        let h = rng::hash_str(&format!(
            "{}|{}|{}|{}|{}|{:?}",
            self.entry.feature, case.dynamic, case.wire.method, case.wire.query_string, case.wire.accept_multipart, case.wire.body
        ));
        let observed = json!({
            "status": out.status,
            "content_type": out.content_type,
            "body": truncate(&String::from_utf8_lossy(&out.body), 600),
            "resolver_events": evs.iter().map(|e| e.show()).collect::<Vec<_>>(),
        });

        match case.kind {
            Kind::PostControl => {
                let mut want: Vec<Ev> = vec![];
                let mut ref_ok = true;
                for r in &case.post_batch {
                    let (e, ok) = self.reference_run(r);
                    ref_ok &= ok;
                    want.extend(e);
                }
                let want_mut: Vec<&Ev> = want.iter().filter(|e| e.is_mutation()).collect();
                if ref_ok && !want_mut.is_empty() && want_mut == mut_evs && out.status < 400 && !ps.iter().any(has_errors) && !ps.is_empty() {
                    self.bump("post_mutation_events", mut_evs.len() as u64);
                    self.bump("post_mutation_requests", 1);
                    if case.post_batch.len() > 1 || case.tags.contains(&"post_batch") {
                        self.bump("post_batch_requests", 1);
                    }
                } else if !ref_ok || want_mut.is_empty() {
                    self.bump("post_control_generator_miss", 1);
                } else {
                    self.report.problems.push(format!(
                        "POST control through {}: expected resolver events {:?}, observed {}",
                        self.entry.feature,
                        want_mut.iter().map(|e| e.show()).collect::<Vec<_>>(),
                        observed
                    ));
                }
                return;
            }
            Kind::QueryControl => {
                let ok = out.status == 200
                    && ps.len() == 1
                    && !has_errors(&ps[0])
                    && ps[0].pointer("/data/value").and_then(|v| v.as_i64()) == Some(schema::QUERY_VALUE as i64)
                    && evs == vec![Ev::Query];
                if ok {
                    self.bump("get_query_ok", 1);
                } else if mut_evs.is_empty() {
                    self.bump("get_query_not_ok", 1);
                    if self.report.problems.len() < 3 {
                        self.report.problems.push(format!(
                            "GET query control through {} did not succeed: ?{} -> {}",
                            self.entry.feature, case.wire.query_string, observed
                        ));
                    }
                }
            }
            _ => {}
        }

        // non-triviality is measured: the carried mutation really is executable
        let mut nontrivial = false;
        if let Some(r) = &case.reference {
            let (e, ok) = self.reference_run(r);
            nontrivial = ok && e.iter().any(|x| x.is_mutation());
        }
        if nontrivial {
            self.report.distinct.insert(h);
            self.bump(&format!("{}_cases_with_executable_mutation", case.kind.name()), 1);
        } else if case.reference.is_some() {
            self.bump(&format!("{}_cases_reference_refused", case.kind.name()), 1);
        }

        let class = if !mut_evs.is_empty() {
            Some(Class::Executed)
        } else if case.kind == Kind::MutTarget && !err {
            Some(Class::NoError)
        } else {
            None
        };

        // evidence samples: per entry point the first generated GET mutation (when the
        // feature is on), the first generated benign GET and the first witness
        let slot = match (case.kind, case.witness.is_some()) {
            (Kind::MutTarget, false) => Some(0),
            (Kind::Benign, false) => Some(1),
            (_, true) => Some(2),
            _ => None,
        };
        if let Some(i) = slot {
            if self.report.samples[i].is_none() {
                self.report.samples[i] =
                    Some(json!({"request": case.to_json(self.entry.feature), "observed": observed.clone()}));
            }
        }

        let Some(class) = class else {
            match case.kind {
                Kind::MutTarget => self.bump("get_mutation_refused", 1),
                Kind::MaybeMut => self.bump("get_ambiguous_no_mutation_event", 1),
                Kind::Benign => self.bump("get_benign_no_mutation_event", 1),
                _ => {}
            }
            if case.witness.is_some() {
                self.bump("witness_refused", 1);
            }
            return;
        };

        *self.report.class_counts.entry(class).or_insert(0) += 1;
        self.bump(&format!("violating_{}", class.tag()), 1);
        let target = format!("GET ?{}", case.wire.query_string);
        let what_core = format!(
            "{} through {} [{}; call site {}] with {}{}{}: HTTP {} body {} resolver events {:?}; expected an error answer and no mutation resolver event",
            class.wording(),
            self.entry.label,
            if case.dynamic { "dynamic::Schema" } else { "static Schema" },
            self.entry.site,
            target,
            if case.wire.accept_multipart { " (Accept: multipart/mixed)" } else { "" },
            case.wire.body.as_ref().map(|b| format!(" and body {b}")).unwrap_or_default(),
            out.status,
            truncate(&String::from_utf8_lossy(&out.body), 300),
            evs.iter().map(|e| e.show()).collect::<Vec<_>>(),
        );
        let replay = json!({"request": case.to_json(self.entry.feature), "observed": observed});
        if let Some(w) = &case.witness {
            self.bump("witness_reproduced", 1);
            self.report.viols.push(Viol {
                signature: format!("{}|{} through {}", self.entry.finding, class.wording(), self.entry.label),
                what: format!("witness {w}: {what_core}"),
                replay,
                class,
                witness: true,
            });
        } else {
            let n = self.stored_per_class.entry(class).or_insert(0);
            if *n < STORE_PER_CLASS {
                *n += 1;
                self.report.viols.push(Viol {
                    signature: format!("gen:{}:{}:{:016x}", self.entry.feature, class.tag(), h),
                    what: format!("[{} case] {what_core}", case.kind.name()),
                    replay,
                    class,
                    witness: false,
                });
            }
        }
    }
}

const RULE: &str = "per entry point of the five integrations (axum GraphQL service, GraphQLRequest and GraphQLBatchRequest extractors; \
poem GraphQL endpoint and both extractors; actix-web both extractors; warp graphql and graphql_batch filters; rocket GraphQLQuery), \
each with a static and a dynamic schema: generated GET requests whose query string (percent-encoded in random correct styles: %20 or +, \
hex case, raw or encoded sub-delimiters, over-encoded letters) carries an executable mutation document - anonymous, named (names such \
as `query`/`mutation`), with variables, variable and argument defaults, aliases, inline fragments, fragment spreads, directives, \
whitespace/comment/BOM noise before the keyword, several mutations, mixed query+mutation documents selected through `operationName` \
and/or `operation_name`, disagreeing spellings, duplicate `query` keys, Accept: multipart/mixed, mutations hidden in a JSON (batch) body \
of the GET; plus POST mutation and GET query controls. A case is distinct by hash of (entry point, executor, method, encoded query string, \
accept, body) and non-trivial when a reference run of the carried request on a separate schema instance runs a mutation resolver without errors";

fn drive(run: &Run, entry: &'static Entry, idx: u64, n: u64, budget: Duration, replay: Option<Case>) -> EntryReport {
    let mut wl = match replay {
        Some(c) => Workload::replay(run, entry, c),
        None => Workload::new(run, entry, idx, n, budget),
    };
    let r = catch(|| entries::drive(&mut wl));
    if let Err(p) = r {
        wl.report.problems.push(format!("driver for {} panicked: {p}", entry.feature));
    }
    wl.report
}

pub fn main() {
    let mut run = Run::from_args("exploration", RULE);
    run.assume("the frameworks' own in-memory drivers (tower Service::call, poem Endpoint::get_response, actix_web::test, warp::test, rocket::local) deliver a request to the integration the way their servers do");
    run.assume("handlers are the documented ones: extractor/filter/guard + Schema::execute / execute_batch, no user-side method check");
    run.assume("rocket: GraphQLRequest / GraphQLBatchRequest (FromData) are mounted on #[post] routes only, as documented; a #[get] route with a data guard is not driven");
    run.assume("no integration accepts a batch in a GET query string (every GET branch builds BatchRequest::Single); batches are sent as JSON bodies of GET requests and by POST (control)");
    run.assume("which of `operationName` / `operation_name` a GET honours is not asserted here (C23); cases where the two disagree only require that no mutation resolver runs");
    run.assume("'answered with an error' = HTTP status >= 400, or every GraphQL payload of the answer has a non-empty `errors` list");
    run.assume("serde_json (oracle side) parses the response bodies; the reference run uses Schema::execute of the same crate only to measure that a generated document is an executable mutation");
    run.set_max_samples(12);
    run.set_floors(1000, 300);
    run.require_counter("post_mutation_events");
    run.require_counter("get_query_ok");

    let n = run.scale(15_000, 300_000);
    let budget = Duration::from_secs(run.scale(50, 420));

    let mut replay_case: Option<(&'static Entry, Case)> = None;
    if let Some(p) = run.replay.clone() {
        let parsed = std::fs::read_to_string(&p)
            .ok()
            .and_then(|t| serde_json::from_str::<J>(&t).ok())
            .and_then(|v| {
                let req = v.pointer("/case/request")?.clone();
                let e = entry_by_feature(req.get("entry")?.as_str()?)?;
                Some((e, Case::from_json(&req)?))
            });
        match parsed {
            Some(x) => replay_case = Some(x),
            None => {
                run.inconclusive(&format!("replay file {} is not a C35 case", p.display()));
                run.finish();
            }
        }
    }

    let reports: Vec<EntryReport> = std::thread::scope(|s| {
        let run = &run;
        let mut hs = vec![];
        for (i, e) in ENTRIES.iter().enumerate() {
            let rc = match &replay_case {
                Some((re, c)) if re.feature == e.feature => Some(c.clone()),
                Some(_) => continue,
                None => None,
            };
            hs.push(s.spawn(move || drive(run, e, i as u64, n, budget, rc)));
        }
        hs.into_iter().map(|h| h.join().expect("driver thread")).collect()
    });

    // ---- fold the per-entry observations into the run
    let mut per_entry = serde_json::Map::new();
    for rep in &reports {
        run.evals(rep.requests);
        for h in &rep.distinct {
            run.nontrivial(*h);
        }
        for (k, v) in &rep.counters {
            run.count(k, *v);
        }
        for (t, v) in &rep.tags {
            run.count(&format!("tag.{t}"), *v);
        }
        for s in &rep.statuses {
            run.seen("integration_kind_http_status", s);
        }
        run.seen("entry_points_driven", rep.feature);
        if !rep.feature_on {
            run.seen("entry_points_with_generated_get_mutations_excluded", rep.feature);
        }
        for p in &rep.problems {
            run.inconclusive(p);
        }
        let c = |k: &str| rep.counters.get(k).copied().unwrap_or(0);
        if replay_case.is_none() {
            if c("get_query_ok") == 0 {
                run.inconclusive(&format!("no GET query control succeeded through {}", rep.feature));
            }
            if c("post_mutation_events") == 0 {
                run.inconclusive(&format!("no POST control ran a mutation resolver through {}", rep.feature));
            }
        }
        per_entry.insert(
            rep.feature.to_string(),
            json!({
                "generated_get_mutations_enabled": rep.feature_on,
                "requests": rep.requests,
                "distinct_nontrivial": rep.distinct.len(),
                "get_query_ok": c("get_query_ok"),
                "post_mutation_events": c("post_mutation_events"),
                "get_mutation_refused": c("get_mutation_refused"),
                "get_benign_no_mutation_event": c("get_benign_no_mutation_event"),
                "witness_reproduced": c("witness_reproduced"),
                "witness_refused": c("witness_refused"),
                "violating_executed": rep.class_counts.get(&Class::Executed).copied().unwrap_or(0),
                "violating_no_error_but_not_executed": rep.class_counts.get(&Class::NoError).copied().unwrap_or(0),
            }),
        );
    }
    run.extra("per_entry_point", J::Object(per_entry));

    // ---- samples: a generated GET mutation, a benign GET and a witness, rotating over the entry points
    for slot in [0usize, 1, 2] {
        for (i, rep) in reports.iter().enumerate() {
            if i % 3 == slot || reports.len() < 3 {
                for k in [slot, (slot + 1) % 3, (slot + 2) % 3] {
                    if let Some(s) = &rep.samples[k] {
                        run.sample(s.clone());
                        break;
                    }
                }
            }
        }
    }

    // ---- report: witnesses first (entry order), then generated cases round-robin
    for rep in &reports {
        for v in rep.viols.iter().filter(|v| v.witness) {
            run.violation(&v.signature, &v.what, v.replay.clone());
        }
    }
    let mut round = 0usize;
    loop {
        let mut any = false;
        for rep in &reports {
            let gen_viols: Vec<&Viol> = rep.viols.iter().filter(|v| !v.witness).collect();
            if let Some(v) = gen_viols.get(round) {
                any = true;
                let total = rep.class_counts.get(&v.class).copied().unwrap_or(0);
                run.violation(
                    &v.signature,
                    &format!("{} (one of {} violating requests of this class through this entry point in this run)", v.what, total),
                    v.replay.clone(),
                );
            }
        }
        if !any {
            break;
        }
        round += 1;
    }
    run.finish();
}
