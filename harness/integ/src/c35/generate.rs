//! Request generator for C35: GraphQL documents, GET query strings (properly
//! percent-encoded, in several encoding styles), POST bodies.

use vh_core::Rng;
use vh_core::serde_json::{self, Value as J, json};

/// What the monitor demands of a case.
#[derive(Clone, Copy, PartialEq, Eq, Debug)]
pub enum Kind {
    /// GET whose every possible operation selection is a mutation: no mutation
    /// resolver may run AND the answer must be an error.
    MutTarget,
    /// GET that names a mutation under one reading of the request and a query
    /// (or nothing) under another (`operationName` vs `operation_name`,
    /// duplicate `query` keys): no mutation resolver may run.
    MaybeMut,
    /// GET that cannot select a mutation under any reading (mixed document with
    /// the query selected or no operation name at all; mutation only in a
    /// request *body*): no mutation resolver may run.
    Benign,
    /// Control: plain GET query, must succeed and log the query resolver.
    QueryControl,
    /// Control: the same kind of mutation by POST must run the resolver.
    PostControl,
}

impl Kind {
    pub fn name(self) -> &'static str {
        match self {
            Kind::MutTarget => "get_mutation",
            Kind::MaybeMut => "get_ambiguous_selection",
            Kind::Benign => "get_benign",
            Kind::QueryControl => "get_query_control",
            Kind::PostControl => "post_mutation_control",
        }
    }
    pub fn from_name(s: &str) -> Option<Kind> {
        Some(match s {
            "get_mutation" => Kind::MutTarget,
            "get_ambiguous_selection" => Kind::MaybeMut,
            "get_benign" => Kind::Benign,
            "get_query_control" => Kind::QueryControl,
            "post_mutation_control" => Kind::PostControl,
            _ => return None,
        })
    }
}

/// The mutation a request carries, in the form `Schema::execute` takes it; used
/// to measure that the case is non-trivial (the reference run on a separate
/// schema instance does run mutation resolvers) and as the POST control body.
#[derive(Clone, Debug)]
pub struct RefReq {
    pub doc: String,
    pub operation: Option<String>,
    pub variables: J,
}

impl RefReq {
    pub fn to_json(&self) -> J {
        let mut m = serde_json::Map::new();
        m.insert("query".into(), json!(self.doc));
        if let Some(op) = &self.operation {
            m.insert("operationName".into(), json!(op));
        }
        if self.variables.as_object().map(|o| !o.is_empty()).unwrap_or(false) {
            m.insert("variables".into(), self.variables.clone());
        }
        J::Object(m)
    }
}

/// Exactly what goes on the (in-memory) wire.
#[derive(Clone, Debug)]
pub struct Wire {
    pub method: &'static str,
    /// already percent-encoded, without the leading `?`
    pub query_string: String,
    /// send `Accept: multipart/mixed; boundary="graphql"; subscriptionSpec="1.0"`
    pub accept_multipart: bool,
    /// JSON body (sent with `content-type: application/json`)
    pub body: Option<String>,
}

#[derive(Clone, Debug)]
pub struct Case {
    pub kind: Kind,
    pub wire: Wire,
    /// execute through the `dynamic::Schema` instance instead of the static one
    pub dynamic: bool,
    /// decoded key/value pairs of the query string, for the evidence
    pub pairs: Vec<(String, String)>,
    pub reference: Option<RefReq>,
    /// for POST controls: several requests in a JSON array
    pub post_batch: Vec<RefReq>,
    pub tags: Vec<&'static str>,
    pub witness: Option<String>,
}

impl Case {
    pub fn to_json(&self, entry: &str) -> J {
        json!({
            "entry": entry,
            "kind": self.kind.name(),
            "executor": if self.dynamic { "dynamic::Schema" } else { "Schema<Query,Mutation,EmptySubscription>" },
            "method": self.wire.method,
            "query_string": self.wire.query_string,
            "decoded_pairs": self.pairs.iter().map(|(k, v)| json!([k, v])).collect::<Vec<_>>(),
            "accept_multipart": self.wire.accept_multipart,
            "body": self.wire.body,
            "reference": self.reference.as_ref().map(|r| r.to_json()),
            "post_batch": self.post_batch.iter().map(|r| r.to_json()).collect::<Vec<_>>(),
            "tags": self.tags,
            "witness": self.witness,
        })
    }

    pub fn from_json(v: &J) -> Option<Case> {
        let refreq = |r: &J| -> Option<RefReq> {
            Some(RefReq {
                doc: r.get("query")?.as_str()?.to_string(),
                operation: r.get("operationName").and_then(|x| x.as_str()).map(|s| s.to_string()),
                variables: r.get("variables").cloned().unwrap_or_else(|| json!({})),
            })
        };
        Some(Case {
            kind: Kind::from_name(v.get("kind")?.as_str()?)?,
            wire: Wire {
                method: if v.get("method")?.as_str()? == "POST" { "POST" } else { "GET" },
                query_string: v.get("query_string")?.as_str()?.to_string(),
                accept_multipart: v.get("accept_multipart").and_then(|x| x.as_bool()).unwrap_or(false),
                body: v.get("body").and_then(|x| x.as_str()).map(|s| s.to_string()),
            },
            dynamic: v.get("executor").and_then(|x| x.as_str()) == Some("dynamic::Schema"),
            pairs: v
                .get("decoded_pairs")
                .and_then(|x| x.as_array())
                .map(|a| {
                    a.iter()
                        .filter_map(|p| Some((p.get(0)?.as_str()?.to_string(), p.get(1)?.as_str()?.to_string())))
                        .collect()
                })
                .unwrap_or_default(),
            reference: v.get("reference").and_then(refreq),
            post_batch: v
                .get("post_batch")
                .and_then(|x| x.as_array())
                .map(|a| a.iter().filter_map(refreq).collect())
                .unwrap_or_default(),
            tags: vec!["replay"],
            witness: v.get("witness").and_then(|x| x.as_str()).map(|s| s.to_string()),
        })
    }
}

// ---------------------------------------------------------------- encoding

/// Percent-encoding style. Every style is a *correct* encoding of the same
/// key/value pairs (application/x-www-form-urlencoded inside an RFC 3986 query).
#[derive(Clone, Copy, Debug)]
pub struct Enc {
    /// space as `+` instead of `%20`
    pub plus_space: bool,
    pub lower_hex: bool,
    /// leave the query-legal sub-delimiters `!$'()*,:@/?` raw in values
    pub keep_subdelims: bool,
    /// additionally percent-encode every n-th unreserved character (0 = never)
    pub over_every: u8,
}

impl Enc {
    pub const STRICT: Enc = Enc { plus_space: false, lower_hex: false, keep_subdelims: false, over_every: 0 };

    pub fn random(r: &mut Rng) -> Enc {
        Enc {
            plus_space: r.chance(1, 3),
            lower_hex: r.chance(1, 4),
            keep_subdelims: r.chance(1, 3),
            over_every: if r.chance(1, 5) { (r.below(5) + 1) as u8 } else { 0 },
        }
    }
}

pub fn enc_component(s: &str, e: &Enc, is_key: bool) -> String {
    let mut out = String::with_capacity(s.len() * 2);
    let mut idx = 0usize;
    let pct = |out: &mut String, b: u8| {
        if e.lower_hex {
            out.push_str(&format!("%{b:02x}"));
        } else {
            out.push_str(&format!("%{b:02X}"));
        }
    };
    for &b in s.as_bytes() {
        let unreserved = b.is_ascii_alphanumeric() || matches!(b, b'-' | b'.' | b'_' | b'~');
        if unreserved {
            idx += 1;
            if e.over_every > 0 && idx % (e.over_every as usize) == 0 {
                pct(&mut out, b);
            } else {
                out.push(b as char);
            }
        } else if b == b' ' && e.plus_space {
            out.push('+');
        } else if e.keep_subdelims
            && !is_key
            && matches!(b, b'!' | b'$' | b'\'' | b'(' | b')' | b'*' | b',' | b':' | b'@' | b'/' | b'?')
        {
            out.push(b as char);
        } else {
            pct(&mut out, b);
        }
    }
    out
}

pub fn enc_pairs(pairs: &[(String, String)], e: &Enc) -> String {
    pairs
        .iter()
        .map(|(k, v)| format!("{}={}", enc_component(k, e, true), enc_component(v, e, false)))
        .collect::<Vec<_>>()
        .join("&")
}

// ---------------------------------------------------------------- documents

const NOISE: &[&str] = &[
    " ",
    "\t",
    "\n",
    "\r\n",
    ",",
    ",,, ",
    "\u{feff}",
    "# query\n",
    "#\n",
    "# mutation { x }\n",
    "\n\n#{value}\n",
    "#query Q { value }\r\n",
];

fn noise(r: &mut Rng, max: usize) -> String {
    let mut s = String::new();
    for _ in 0..r.below(max + 1) {
        s.push_str(*r.pick(NOISE));
    }
    s
}

fn sep(r: &mut Rng) -> &'static str {
    *r.pick(&[" ", " ", "\n", ", ", "\n  ", " # c\n "])
}

const NAME_POOL: &[&str] = &[
    "M", "Q", "mutation", "query", "subscription", "Mutation", "Query", "bump", "_", "m1", "Q1", "on", "fragment", "Op_2",
];

fn pick_names(r: &mut Rng, n: usize) -> Vec<String> {
    let mut pool: Vec<&str> = NAME_POOL.to_vec();
    r.shuffle(&mut pool);
    pool.into_iter().take(n).map(|s| s.to_string()).collect()
}

pub struct GenOp {
    pub text: String,
    pub fragments: Vec<String>,
    pub variables: serde_json::Map<String, J>,
    pub tags: Vec<&'static str>,
}

/// One executable mutation operation over `bump` / `setFlag`.
pub fn gen_mutation_op(r: &mut Rng, name: Option<&str>, frag_prefix: &str) -> GenOp {
    let mut tags: Vec<&'static str> = vec![];
    let mut fragments = vec![];
    let mut need_n = false;
    let mut need_f = false;
    let items = r.below(3) + 1;
    let mut sels: Vec<String> = vec![];
    for i in 0..items {
        let mut field = match r.below(7) {
            0 | 1 => {
                tags.push("argument_default");
                "bump".to_string()
            }
            2 => format!("bump(by: {})", r.range(-3, 9)),
            3 => {
                need_n = true;
                "bump(by: $n)".to_string()
            }
            4 => format!("setFlag(v: {})", r.bool()),
            5 => {
                need_f = true;
                "setFlag(v: $f)".to_string()
            }
            _ => format!("bump(by:{})", r.range(0, 5)),
        };
        if i > 0 || r.chance(1, 3) {
            field = format!("a{i}: {field}");
            tags.push("alias");
        }
        match r.below(8) {
            0 => field.push_str(" @include(if: true)"),
            1 => field.push_str(" @skip(if: false)"),
            _ => {}
        }
        let wrapped = match r.below(10) {
            0 => {
                tags.push("inline_fragment");
                format!("... on Mutation {{ {field} }}")
            }
            1 => {
                tags.push("inline_fragment");
                format!("... {{ {field} }}")
            }
            2 => {
                tags.push("inline_fragment");
                format!("... @include(if: true) {{ {field} __typename }}")
            }
            3 | 4 => {
                tags.push("fragment_spread");
                let fname = format!("{frag_prefix}F{i}");
                fragments.push(format!("fragment {fname} on Mutation {{ {field} }}"));
                format!("...{fname}")
            }
            _ => field,
        };
        sels.push(wrapped);
    }
    let mut variables = serde_json::Map::new();
    let mut decls = vec![];
    if need_n {
        tags.push("variables");
        if r.bool() {
            let d = r.range(2, 7);
            decls.push(format!("$n: Int! = {d}"));
            if r.bool() {
                variables.insert("n".into(), json!(r.range(-2, 20)));
            } else {
                tags.push("variable_default");
            }
        } else {
            decls.push("$n: Int!".to_string());
            variables.insert("n".into(), json!(r.range(-2, 20)));
        }
    }
    if need_f {
        tags.push("variables");
        decls.push("$f: Boolean!".to_string());
        variables.insert("f".into(), json!(r.bool()));
    }
    let mut text = String::from("mutation");
    let gap = noise(r, 1);
    if let Some(n) = name {
        text.push_str(&gap);
        // keyword and name must be separated by at least one ignored token
        if !text.ends_with([' ', '\n', '\t', ',']) {
            text.push(' ');
        }
        text.push_str(n);
        tags.push("named");
    } else {
        text.push_str(&gap);
        tags.push("anonymous");
    }
    if !decls.is_empty() {
        text.push_str(&format!("({})", decls.join(", ")));
    }
    let s = sep(r);
    text.push_str(&format!("{}{{{}{}{}}}", if r.bool() { " " } else { "" }, s, sels.join(sep(r)), s));
    GenOp { text, fragments, variables, tags }
}

pub fn gen_query_op(r: &mut Rng, name: Option<&str>) -> String {
    let body = *r.pick(&["{ value }", "{value}", "{ v: value }", "{ value __typename }"]);
    match name {
        Some(n) => format!("query {n} {body}"),
        None => {
            if r.bool() {
                body.to_string()
            } else {
                format!("query {body}")
            }
        }
    }
}

fn assemble(r: &mut Rng, mut ops: Vec<String>, mut fragments: Vec<String>, lead_noise: bool) -> String {
    // fragments before or after the operations, operations in the given order
    let mut parts: Vec<String> = vec![];
    let frags_first = r.chance(1, 4);
    if frags_first {
        parts.append(&mut fragments);
    }
    parts.append(&mut ops);
    parts.append(&mut fragments);
    let mut doc = if lead_noise { noise(r, 3) } else { String::new() };
    for (i, p) in parts.iter().enumerate() {
        if i > 0 {
            doc.push_str(*r.pick(&[" ", "\n", "\n\n", " # next\n"]));
        }
        doc.push_str(p);
    }
    if r.chance(1, 6) {
        doc.push_str(&noise(r, 2));
    }
    doc
}

fn assemble_rnd(r: &mut Rng, ops: Vec<String>, fragments: Vec<String>) -> String {
    let lead = r.bool();
    assemble(r, ops, fragments, lead)
}

/// Capabilities of an entry point that shape the generated requests.
#[derive(Clone, Copy, Debug)]
pub struct Caps {
    /// the POST route accepts a JSON array of requests
    pub batch_post: bool,
    /// a body can be attached to a GET request on this entry point
    pub get_body: bool,
}

fn push_extras(r: &mut Rng, pairs: &mut Vec<(String, String)>, tags: &mut Vec<&'static str>) {
    if r.chance(1, 8) {
        pairs.push(("extensions".into(), "{}".into()));
        tags.push("extensions_param");
    }
    if r.chance(1, 10) {
        pairs.push(("foo".into(), "bar baz".into()));
    }
    if r.chance(1, 3) {
        r.shuffle(pairs);
    }
}

fn opname_pairs(r: &mut Rng, camel: Option<&str>, snake: Option<&str>) -> Vec<(String, String)> {
    let mut v = vec![];
    if let Some(c) = camel {
        v.push(("operationName".to_string(), c.to_string()));
    }
    if let Some(s) = snake {
        v.push(("operation_name".to_string(), s.to_string()));
    }
    if r.bool() {
        v.reverse();
    }
    v
}

fn finish_get(
    r: &mut Rng,
    kind: Kind,
    mut pairs: Vec<(String, String)>,
    reference: Option<RefReq>,
    mut tags: Vec<&'static str>,
    body: Option<String>,
) -> Case {
    push_extras(r, &mut pairs, &mut tags);
    let enc = Enc::random(r);
    if enc.over_every > 0 {
        tags.push("over_encoded");
    }
    if enc.plus_space {
        tags.push("plus_for_space");
    }
    let accept_multipart = r.chance(1, 10);
    if accept_multipart {
        tags.push("accept_multipart_mixed");
    }
    Case {
        kind,
        wire: Wire { method: "GET", query_string: enc_pairs(&pairs, &enc), accept_multipart, body },
        dynamic: r.chance(1, 3),
        pairs,
        reference,
        post_batch: vec![],
        tags,
        witness: None,
    }
}

fn variables_pair(vars: &serde_json::Map<String, J>, r: &mut Rng) -> Option<(String, String)> {
    if vars.is_empty() {
        if r.chance(1, 6) { Some(("variables".into(), "{}".into())) } else { None }
    } else {
        Some(("variables".into(), J::Object(vars.clone()).to_string()))
    }
}

/// A GET whose only possible reading is "run this mutation".
pub fn gen_mut_target(r: &mut Rng) -> Case {
    let mut tags: Vec<&'static str> = vec![];
    match r.below(10) {
        // single anonymous / named mutation
        0..=4 => {
            let named = r.bool();
            let names = pick_names(r, 1);
            let name = if named { Some(names[0].as_str()) } else { None };
            let op = gen_mutation_op(r, name, "");
            tags.extend(op.tags.iter());
            let doc = assemble(r, vec![op.text.clone()], op.fragments.clone(), true);
            if !doc.starts_with("mutation") && !doc.starts_with("fragment") {
                tags.push("noise_before_keyword");
            }
            let mut pairs = vec![("query".to_string(), doc.clone())];
            pairs.extend(variables_pair(&op.variables, r));
            let mut operation = None;
            if let Some(n) = name {
                // name the (only) operation under both spellings, one, or none
                match r.below(4) {
                    0 => pairs.extend(opname_pairs(r, Some(n), Some(n))),
                    1 => pairs.extend(opname_pairs(r, Some(n), None)),
                    2 => pairs.extend(opname_pairs(r, None, Some(n))),
                    _ => {}
                }
                operation = Some(n.to_string());
            }
            let reference = RefReq { doc, operation, variables: J::Object(op.variables) };
            finish_get(r, Kind::MutTarget, pairs, Some(reference), tags, None)
        }
        // several mutations, one selected under every spelling
        5 | 6 => {
            let names = pick_names(r, 2);
            let a = gen_mutation_op(r, Some(&names[0]), "A");
            let b = gen_mutation_op(r, Some(&names[1]), "B");
            tags.extend(a.tags.iter());
            tags.push("several_mutations");
            let mut frags = a.fragments.clone();
            frags.extend(b.fragments.clone());
            // `b` must not need variables `a` does not declare: every operation
            // declares its own, the JSON carries the union
            let mut vars = a.variables.clone();
            for (k, v) in &b.variables {
                vars.entry(k.clone()).or_insert(v.clone());
            }
            let doc = assemble(r, vec![a.text.clone(), b.text.clone()], frags, true);
            let mut pairs = vec![("query".to_string(), doc.clone())];
            pairs.extend(variables_pair(&vars, r));
            pairs.extend(opname_pairs(r, Some(&names[0]), Some(&names[0])));
            let reference = RefReq { doc, operation: Some(names[0].clone()), variables: J::Object(vars) };
            finish_get(r, Kind::MutTarget, pairs, Some(reference), tags, None)
        }
        // mixed document, the mutation selected under every spelling that is sent
        _ => {
            let names = pick_names(r, 3);
            let m = gen_mutation_op(r, Some(&names[0]), "");
            tags.extend(m.tags.iter());
            tags.push("mixed_document");
            let mut ops = vec![m.text.clone(), gen_query_op(r, Some(&names[1]))];
            if r.chance(1, 3) {
                ops.push(gen_query_op(r, Some(&names[2])));
            }
            r.shuffle(&mut ops);
            let doc = assemble_rnd(r, ops, m.fragments.clone());
            let mut pairs = vec![("query".to_string(), doc.clone())];
            pairs.extend(variables_pair(&m.variables, r));
            match r.below(4) {
                0 | 1 => {
                    tags.push("operation_name_both_spellings");
                    pairs.extend(opname_pairs(r, Some(&names[0]), Some(&names[0])))
                }
                2 => {
                    tags.push("operationName_only");
                    pairs.extend(opname_pairs(r, Some(&names[0]), None))
                }
                _ => {
                    tags.push("operation_name_only");
                    pairs.extend(opname_pairs(r, None, Some(&names[0])))
                }
            }
            let reference = RefReq { doc, operation: Some(names[0].clone()), variables: J::Object(m.variables) };
            finish_get(r, Kind::MutTarget, pairs, Some(reference), tags, None)
        }
    }
}

/// A GET that selects the mutation under one reading only.
pub fn gen_maybe_mut(r: &mut Rng) -> Case {
    let mut tags: Vec<&'static str> = vec![];
    if r.chance(1, 3) {
        // duplicate `query` keys: a harmless query and a mutation
        let op = gen_mutation_op(r, None, "");
        tags.extend(op.tags.iter());
        tags.push("duplicate_query_key");
        let doc = assemble_rnd(r, vec![op.text.clone()], op.fragments.clone());
        let mut pairs = vec![("query".to_string(), "{ value }".to_string()), ("query".to_string(), doc.clone())];
        if r.bool() {
            pairs.reverse();
        }
        pairs.extend(variables_pair(&op.variables, r));
        let reference = RefReq { doc, operation: None, variables: J::Object(op.variables) };
        return finish_get(r, Kind::MaybeMut, pairs, Some(reference), tags, None);
    }
    let names = pick_names(r, 3);
    let m = gen_mutation_op(r, Some(&names[0]), "");
    tags.extend(m.tags.iter());
    tags.push("mixed_document");
    tags.push("operation_name_spellings_disagree");
    let mut ops = vec![m.text.clone(), gen_query_op(r, Some(&names[1]))];
    r.shuffle(&mut ops);
    let doc = assemble_rnd(r, ops, m.fragments.clone());
    let mut pairs = vec![("query".to_string(), doc.clone())];
    pairs.extend(variables_pair(&m.variables, r));
    // one spelling names the mutation, the other the query or an unknown name
    let other = if r.chance(1, 4) { names[2].clone() } else { names[1].clone() };
    if r.bool() {
        pairs.extend(opname_pairs(r, Some(&names[0]), Some(&other)));
    } else {
        pairs.extend(opname_pairs(r, Some(&other), Some(&names[0])));
    }
    let reference = RefReq { doc, operation: Some(names[0].clone()), variables: J::Object(m.variables) };
    finish_get(r, Kind::MaybeMut, pairs, Some(reference), tags, None)
}

/// A GET that no reading turns into a mutation.
pub fn gen_benign(r: &mut Rng, caps: Caps) -> Case {
    let mut tags: Vec<&'static str> = vec![];
    if caps.get_body && r.chance(2, 5) {
        // the mutation sits in a JSON *body* of the GET (single or batch)
        let op = gen_mutation_op(r, None, "");
        tags.extend(op.tags.iter());
        let doc = assemble_rnd(r, vec![op.text.clone()], op.fragments.clone());
        let reference = RefReq { doc, operation: None, variables: J::Object(op.variables) };
        let body = if r.bool() {
            tags.push("get_with_batch_body");
            let second = RefReq { doc: "mutation { setFlag(v: true) }".into(), operation: None, variables: json!({}) };
            J::Array(vec![reference.to_json(), second.to_json()]).to_string()
        } else {
            tags.push("get_with_json_body");
            reference.to_json().to_string()
        };
        let pairs = match r.below(3) {
            0 => vec![("query".to_string(), "{ value }".to_string())],
            1 => vec![("query".to_string(), "query Q { value }".to_string())],
            _ => vec![],
        };
        return finish_get(r, Kind::Benign, pairs, Some(reference), tags, Some(body));
    }
    // mixed document; the query is selected under every spelling, or nothing is
    let names = pick_names(r, 3);
    let m = gen_mutation_op(r, Some(&names[0]), "");
    tags.extend(m.tags.iter());
    tags.push("mixed_document");
    let mut ops = vec![m.text.clone(), gen_query_op(r, Some(&names[1]))];
    r.shuffle(&mut ops);
    let doc = assemble_rnd(r, ops, m.fragments.clone());
    let mut pairs = vec![("query".to_string(), doc.clone())];
    pairs.extend(variables_pair(&m.variables, r));
    match r.below(5) {
        0 | 1 => {
            tags.push("query_selected_both_spellings");
            pairs.extend(opname_pairs(r, Some(&names[1]), Some(&names[1])))
        }
        2 => {
            tags.push("query_selected_operationName");
            pairs.extend(opname_pairs(r, Some(&names[1]), None))
        }
        3 => {
            tags.push("query_selected_operation_name");
            pairs.extend(opname_pairs(r, None, Some(&names[1])))
        }
        _ => tags.push("no_operation_name"),
    }
    let reference = RefReq { doc, operation: Some(names[0].clone()), variables: J::Object(m.variables) };
    finish_get(r, Kind::Benign, pairs, Some(reference), tags, None)
}

pub fn gen_query_control(r: &mut Rng) -> Case {
    let doc = *r.pick(&["{value}", "{ value }", "query { value }", "query Q { value }", "# c\n{ value }"]);
    let mut pairs = vec![("query".to_string(), doc.to_string())];
    if doc.contains("Q") && r.bool() {
        // the standard spelling only: a query string carrying both spellings is a
        // duplicate parameter for integrations that accept either
        pairs.extend(opname_pairs(r, Some("Q"), None));
    }
    let mut c = finish_get(r, Kind::QueryControl, pairs, None, vec!["query_control"], None);
    c.wire.accept_multipart = false;
    c.tags.retain(|t| *t != "accept_multipart_mixed");
    c
}

pub fn gen_post_control(r: &mut Rng, caps: Caps) -> Case {
    let mut reqs = vec![];
    let n = if caps.batch_post && r.chance(1, 3) { r.below(3) + 1 } else { 1 };
    let batch = caps.batch_post && (n > 1 || r.chance(1, 4));
    for i in 0..n {
        let named = r.bool();
        let names = pick_names(r, 1);
        let name = if named { Some(names[0].as_str()) } else { None };
        let op = gen_mutation_op(r, name, &format!("P{i}"));
        let doc = assemble_rnd(r, vec![op.text.clone()], op.fragments.clone());
        reqs.push(RefReq { doc, operation: name.map(|s| s.to_string()), variables: J::Object(op.variables) });
    }
    let body = if batch {
        J::Array(reqs.iter().map(|q| q.to_json()).collect()).to_string()
    } else {
        reqs[0].to_json().to_string()
    };
    Case {
        kind: Kind::PostControl,
        wire: Wire { method: "POST", query_string: String::new(), accept_multipart: false, body: Some(body) },
        dynamic: r.chance(1, 3),
        pairs: vec![],
        reference: None,
        post_batch: reqs,
        tags: vec![if batch { "post_batch" } else { "post_single" }],
        witness: None,
    }
}

pub fn gen_case(r: &mut Rng, caps: Caps, gated_on: bool) -> Case {
    let w: [u32; 5] = if gated_on { [52, 8, 20, 10, 10] } else { [0, 0, 60, 20, 20] };
    match r.weighted(&w) {
        0 => gen_mut_target(r),
        1 => gen_maybe_mut(r),
        2 => gen_benign(r, caps),
        3 => gen_query_control(r),
        _ => gen_post_control(r, caps),
    }
}

// ---------------------------------------------------------------- witnesses

/// Pinned witness requests (`witnesses/C35-get-mutation.json`, compiled in):
/// sent through every entry point on every run.
pub fn witnesses() -> Vec<Case> {
    let text = include_str!("../../witnesses/C35-get-mutation.json");
    let v: J = serde_json::from_str(text).expect("witness file parses");
    let mut out = vec![];
    for w in v["requests"].as_array().expect("requests") {
        let pairs: Vec<(String, String)> = w["pairs"]
            .as_array()
            .expect("pairs")
            .iter()
            .map(|p| (p[0].as_str().unwrap().to_string(), p[1].as_str().unwrap().to_string()))
            .collect();
        let doc = pairs.iter().find(|(k, _)| k == "query").map(|(_, v)| v.clone()).unwrap_or_default();
        let variables = pairs
            .iter()
            .find(|(k, _)| k == "variables")
            .and_then(|(_, v)| serde_json::from_str(v).ok())
            .unwrap_or_else(|| json!({}));
        let operation = w["operation"].as_str().map(|s| s.to_string());
        out.push(Case {
            kind: Kind::MutTarget,
            wire: Wire {
                method: "GET",
                query_string: enc_pairs(&pairs, &Enc::STRICT),
                accept_multipart: w["accept_multipart"].as_bool().unwrap_or(false),
                body: None,
            },
            dynamic: w["dynamic"].as_bool().unwrap_or(false),
            pairs,
            reference: Some(RefReq { doc, operation, variables }),
            post_batch: vec![],
            tags: vec!["witness"],
            witness: Some(w["name"].as_str().expect("name").to_string()),
        });
    }
    out
}
