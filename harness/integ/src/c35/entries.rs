//! Drivers: one per integration entry point. Each builds the framework's own
//! runtime and application around the integration's documented entry point for
//! both executors (static and dynamic schema sharing the entry point's event
//! log) and then pumps the workload through it, one in-memory request at a time.

use std::convert::Infallible;

use async_graphql::Executor;

use super::generate::{Case, Wire};
use super::schema::{DynSchema, StaticSchema, dynamic_schema, static_schema};
use super::{HttpOut, Workload};

const ACCEPT_MULTIPART: &str = "multipart/mixed; boundary=\"graphql\"; subscriptionSpec=\"1.0\"";

pub fn drive(wl: &mut Workload) {
    match wl.entry.feature {
        "axum_service" => axum_e::drive(wl, axum_e::Which::Service),
        "axum_request_extractor" => axum_e::drive(wl, axum_e::Which::Single),
        "axum_batch_extractor" => axum_e::drive(wl, axum_e::Which::Batch),
        "poem_endpoint" => poem_e::drive(wl, poem_e::Which::Endpoint),
        "poem_request_extractor" => poem_e::drive(wl, poem_e::Which::Single),
        "poem_batch_extractor" => poem_e::drive(wl, poem_e::Which::Batch),
        "actix_request_extractor" => actix_e::drive(wl, false),
        "actix_batch_extractor" => actix_e::drive(wl, true),
        "warp_filter" => warp_e::drive(wl, false),
        "warp_batch_filter" => warp_e::drive(wl, true),
        "rocket_query" => rocket_e::drive(wl),
        other => panic!("no driver for entry point {other}"),
    }
}

fn tokio_rt() -> tokio::runtime::Runtime {
    tokio::runtime::Builder::new_current_thread().enable_all().build().expect("tokio runtime")
}

fn target(path: &str, w: &Wire) -> String {
    if w.query_string.is_empty() && w.method == "POST" {
        path.to_string()
    } else {
        format!("{path}?{}", w.query_string)
    }
}

// ------------------------------------------------------------------ axum

mod axum_e {
    use super::*;
    use async_graphql_axum::{GraphQL, GraphQLBatchRequest, GraphQLRequest, GraphQLResponse};
    use axum::{Router, body::Body, extract::State, routing::get};
    use tower_service::Service;

    pub enum Which {
        Service,
        Single,
        Batch,
    }

    async fn single<E: Executor>(State(e): State<E>, req: GraphQLRequest) -> GraphQLResponse {
        e.execute(req.into_inner()).await.into()
    }

    async fn batch<E: Executor>(State(e): State<E>, req: GraphQLBatchRequest) -> GraphQLResponse {
        e.execute_batch(req.into_inner()).await.into()
    }

    fn router_single<E: Executor>(e: E) -> Router {
        Router::new().route("/x", get(single::<E>).post(single::<E>)).with_state(e)
    }

    fn router_batch<E: Executor>(e: E) -> Router {
        Router::new().route("/x", get(batch::<E>).post(batch::<E>)).with_state(e)
    }

    async fn pump<A, B>(wl: &mut Workload, mut a: A, mut b: B, path: &str)
    where
        A: Service<http::Request<Body>, Response = http::Response<Body>, Error = Infallible>,
        B: Service<http::Request<Body>, Response = http::Response<Body>, Error = Infallible>,
    {
        while let Some(case) = wl.next() {
            let w = &case.wire;
            let mut rb = http::Request::builder().method(w.method).uri(target(path, w));
            if w.accept_multipart {
                rb = rb.header("accept", ACCEPT_MULTIPART);
            }
            let req = match &w.body {
                Some(b) => rb.header("content-type", "application/json").body(Body::from(b.clone())),
                None => rb.body(Body::empty()),
            }
            .expect("valid request");
            let resp = if case.dynamic { b.call(req).await } else { a.call(req).await };
            let resp = match resp {
                Ok(r) => r,
                Err(e) => match e {},
            };
            let out = collect(resp).await;
            wl.observe(case, out);
        }
    }

    async fn collect(resp: http::Response<Body>) -> HttpOut {
        let status = resp.status().as_u16();
        let content_type =
            resp.headers().get("content-type").and_then(|v| v.to_str().ok()).unwrap_or("").to_string();
        let body = axum::body::to_bytes(resp.into_body(), usize::MAX).await.map(|b| b.to_vec()).unwrap_or_default();
        HttpOut { status, content_type, body }
    }

    pub fn drive(wl: &mut Workload, which: Which) {
        let (s, d) = (static_schema(wl.log.clone()), dynamic_schema(wl.log.clone()));
        tokio_rt().block_on(async {
            match which {
                Which::Service => pump(wl, GraphQL::new(s), GraphQL::new(d), "/").await,
                Which::Single => pump(wl, router_single(s), router_single(d), "/x").await,
                Which::Batch => pump(wl, router_batch(s), router_batch(d), "/x").await,
            }
        });
    }
}

// ------------------------------------------------------------------ poem

mod poem_e {
    use super::*;
    use async_graphql_poem::{GraphQL, GraphQLBatchRequest, GraphQLBatchResponse, GraphQLRequest, GraphQLResponse};
    use poem::{Endpoint, EndpointExt, Request, Route, get, handler, web::Data};

    pub enum Which {
        Endpoint,
        Single,
        Batch,
    }

    #[handler]
    async fn single_s(req: GraphQLRequest, e: Data<&StaticSchema>) -> GraphQLResponse {
        e.execute(req.0).await.into()
    }
    #[handler]
    async fn single_d(req: GraphQLRequest, e: Data<&DynSchema>) -> GraphQLResponse {
        e.execute(req.0).await.into()
    }
    #[handler]
    async fn batch_s(req: GraphQLBatchRequest, e: Data<&StaticSchema>) -> GraphQLBatchResponse {
        e.execute_batch(req.0).await.into()
    }
    #[handler]
    async fn batch_d(req: GraphQLBatchRequest, e: Data<&DynSchema>) -> GraphQLBatchResponse {
        e.execute_batch(req.0).await.into()
    }

    async fn pump<A: Endpoint, B: Endpoint>(wl: &mut Workload, a: A, b: B, path: &str) {
        while let Some(case) = wl.next() {
            let w = &case.wire;
            let method = if w.method == "POST" { poem::http::Method::POST } else { poem::http::Method::GET };
            let mut rb = Request::builder().method(method).uri_str(target(path, w));
            if w.accept_multipart {
                rb = rb.header("accept", ACCEPT_MULTIPART);
            }
            let req = match &w.body {
                Some(body) => rb.header("content-type", "application/json").body(body.clone()),
                None => rb.finish(),
            };
            let resp = if case.dynamic { b.get_response(req).await } else { a.get_response(req).await };
            let status = resp.status().as_u16();
            let content_type = resp.content_type().unwrap_or("").to_string();
            let body = resp.into_body().into_bytes().await.map(|b| b.to_vec()).unwrap_or_default();
            wl.observe(case, HttpOut { status, content_type, body });
        }
    }

    pub fn drive(wl: &mut Workload, which: Which) {
        let (s, d) = (static_schema(wl.log.clone()), dynamic_schema(wl.log.clone()));
        tokio_rt().block_on(async {
            match which {
                Which::Endpoint => {
                    // the documented mounting: Route::new().at("/", get(GraphQL::new(schema)).post(..))
                    let a = Route::new().at("/", get(GraphQL::new(s.clone())).post(GraphQL::new(s)));
                    let b = Route::new().at("/", get(GraphQL::new(d.clone())).post(GraphQL::new(d)));
                    pump(wl, a, b, "/").await
                }
                Which::Single => {
                    let a = Route::new().at("/x", get(single_s).post(single_s)).data(s);
                    let b = Route::new().at("/x", get(single_d).post(single_d)).data(d);
                    pump(wl, a, b, "/x").await
                }
                Which::Batch => {
                    let a = Route::new().at("/x", get(batch_s).post(batch_s)).data(s);
                    let b = Route::new().at("/x", get(batch_d).post(batch_d)).data(d);
                    pump(wl, a, b, "/x").await
                }
            }
        });
    }
}

// ------------------------------------------------------------------ actix-web

mod actix_e {
    use super::*;
    use actix_web::{
        App,
        body::MessageBody,
        dev::{Service, ServiceResponse},
        http::Method,
        test, web,
    };
    use async_graphql_actix_web::{GraphQLBatchRequest, GraphQLRequest, GraphQLResponse};

    async fn single<E: Executor>(e: web::Data<E>, req: GraphQLRequest) -> GraphQLResponse {
        e.execute(req.into_inner()).await.into()
    }

    async fn batch<E: Executor>(e: web::Data<E>, req: GraphQLBatchRequest) -> GraphQLResponse {
        e.execute_batch(req.into_inner()).await.into()
    }

    async fn send<S, B>(app: &S, w: &Wire) -> HttpOut
    where
        S: Service<actix_http::Request, Response = ServiceResponse<B>, Error = actix_web::Error>,
        B: MessageBody,
    {
        let mut tr = test::TestRequest::with_uri(&target("/x", w))
            .method(if w.method == "POST" { Method::POST } else { Method::GET });
        if w.accept_multipart {
            tr = tr.insert_header(("accept", ACCEPT_MULTIPART));
        }
        if let Some(b) = &w.body {
            tr = tr.insert_header(("content-type", "application/json")).set_payload(b.clone());
        }
        match app.call(tr.to_request()).await {
            Ok(resp) => {
                let status = resp.status().as_u16();
                let content_type = resp
                    .headers()
                    .get("content-type")
                    .and_then(|v| v.to_str().ok())
                    .unwrap_or("")
                    .to_string();
                let body = actix_web::body::to_bytes(resp.into_body()).await.map(|b| b.to_vec()).unwrap_or_default();
                HttpOut { status, content_type, body }
            }
            Err(e) => {
                let r = e.error_response();
                HttpOut { status: r.status().as_u16(), content_type: String::new(), body: e.to_string().into_bytes() }
            }
        }
    }

    macro_rules! app {
        ($schema:expr, $ty:ty, $handler:ident) => {
            test::init_service(
                App::new().app_data(web::Data::new($schema)).service(
                    web::resource("/x")
                        .route(web::get().to($handler::<$ty>))
                        .route(web::post().to($handler::<$ty>)),
                ),
            )
            .await
        };
    }

    pub fn drive(wl: &mut Workload, is_batch: bool) {
        let (s, d) = (static_schema(wl.log.clone()), dynamic_schema(wl.log.clone()));
        actix_rt::System::new().block_on(async {
            if is_batch {
                let a = app!(s, StaticSchema, batch);
                let b = app!(d, DynSchema, batch);
                while let Some(case) = wl.next() {
                    let out = if case.dynamic { send(&b, &case.wire).await } else { send(&a, &case.wire).await };
                    wl.observe(case, out);
                }
            } else {
                let a = app!(s, StaticSchema, single);
                let b = app!(d, DynSchema, single);
                while let Some(case) = wl.next() {
                    let out = if case.dynamic { send(&b, &case.wire).await } else { send(&a, &case.wire).await };
                    wl.observe(case, out);
                }
            }
        });
    }
}

// ------------------------------------------------------------------ warp

mod warp_e {
    use super::*;
    use async_graphql_warp::{GraphQLBadRequest, GraphQLBatchResponse, GraphQLResponse, graphql, graphql_batch};
    use warp::{Filter, Rejection, Reply, http::StatusCode};

    async fn recover(err: Rejection) -> Result<warp::reply::Response, Rejection> {
        // the recover handler of the integration's documentation
        if let Some(GraphQLBadRequest(e)) = err.find() {
            return Ok(warp::reply::with_status(e.to_string(), StatusCode::BAD_REQUEST).into_response());
        }
        Err(err)
    }

    fn single<E: Executor>(e: E) -> impl Filter<Extract = (warp::reply::Response,), Error = Rejection> + Clone + 'static {
        graphql(e)
            .and_then(|(schema, request): (E, async_graphql::Request)| async move {
                Ok::<_, Infallible>(GraphQLResponse::from(schema.execute(request).await).into_response())
            })
            .recover(recover)
            .unify()
    }

    fn batch<E: Executor>(e: E) -> impl Filter<Extract = (warp::reply::Response,), Error = Rejection> + Clone + 'static {
        graphql_batch(e)
            .and_then(|(schema, request): (E, async_graphql::BatchRequest)| async move {
                Ok::<_, Infallible>(GraphQLBatchResponse::from(schema.execute_batch(request).await).into_response())
            })
            .recover(recover)
            .unify()
    }

    async fn pump<A, B>(wl: &mut Workload, a: A, b: B)
    where
        A: Filter<Extract = (warp::reply::Response,), Error = Rejection> + 'static,
        B: Filter<Extract = (warp::reply::Response,), Error = Rejection> + 'static,
    {
        while let Some(case) = wl.next() {
            let w = &case.wire;
            let mut rb = warp::test::request().method(w.method).path(&target("/", w));
            if w.accept_multipart {
                rb = rb.header("accept", ACCEPT_MULTIPART);
            }
            if let Some(body) = &w.body {
                rb = rb.header("content-type", "application/json").body(body);
            }
            let resp = if case.dynamic { rb.reply(&b).await } else { rb.reply(&a).await };
            let out = HttpOut {
                status: resp.status().as_u16(),
                content_type: resp
                    .headers()
                    .get("content-type")
                    .and_then(|v| v.to_str().ok())
                    .unwrap_or("")
                    .to_string(),
                body: resp.body().to_vec(),
            };
            wl.observe(case, out);
        }
    }

    pub fn drive(wl: &mut Workload, is_batch: bool) {
        let (s, d) = (static_schema(wl.log.clone()), dynamic_schema(wl.log.clone()));
        tokio_rt().block_on(async {
            if is_batch {
                pump(wl, batch(s), batch(d)).await
            } else {
                pump(wl, single(s), single(d)).await
            }
        });
    }
}

// ------------------------------------------------------------------ rocket

mod rocket_e {
    use super::*;
    use async_graphql_rocket::{GraphQLBatchRequest, GraphQLQuery, GraphQLRequest, GraphQLResponse};
    use rocket::{State, http::Header, local::asynchronous::Client};

    // the routes of the integration's documentation, once per executor
    #[rocket::get("/s?<query..>")]
    async fn get_s(schema: &State<StaticSchema>, query: GraphQLQuery) -> GraphQLResponse {
        query.execute(schema.inner()).await
    }
    #[rocket::post("/s", data = "<request>", rank = 2)]
    async fn post_s(schema: &State<StaticSchema>, request: GraphQLRequest) -> GraphQLResponse {
        request.execute(schema.inner()).await
    }
    #[rocket::post("/sb", data = "<request>")]
    async fn post_batch_s(schema: &State<StaticSchema>, request: GraphQLBatchRequest) -> GraphQLResponse {
        request.execute(schema.inner()).await
    }
    #[rocket::get("/d?<query..>")]
    async fn get_d(schema: &State<DynSchema>, query: GraphQLQuery) -> GraphQLResponse {
        query.execute(schema.inner()).await
    }
    #[rocket::post("/d", data = "<request>", rank = 2)]
    async fn post_d(schema: &State<DynSchema>, request: GraphQLRequest) -> GraphQLResponse {
        request.execute(schema.inner()).await
    }
    #[rocket::post("/db", data = "<request>")]
    async fn post_batch_d(schema: &State<DynSchema>, request: GraphQLBatchRequest) -> GraphQLResponse {
        request.execute(schema.inner()).await
    }

    pub fn drive(wl: &mut Workload) {
        let (s, d) = (static_schema(wl.log.clone()), dynamic_schema(wl.log.clone()));
        tokio_rt().block_on(async {
            let config = rocket::Config {
                log_level: rocket::config::LogLevel::Off,
                cli_colors: false,
                ..rocket::Config::debug_default()
            };
            let app = rocket::custom(config)
                .manage(s)
                .manage(d)
                .mount("/", rocket::routes![get_s, post_s, post_batch_s, get_d, post_d, post_batch_d]);
            let client = Client::untracked(app).await.expect("rocket local client");
            while let Some(case) = wl.next() {
                let out = send(&client, &case).await;
                wl.observe(case, out);
            }
        });
    }

    async fn send(client: &Client, case: &Case) -> HttpOut {
        let w = &case.wire;
        let base = if case.dynamic { "/d" } else { "/s" };
        let mut req = if w.method == "POST" {
            // a JSON array goes to the GraphQLBatchRequest route, a single request to GraphQLRequest
            let is_array = w.body.as_deref().map(|b| b.trim_start().starts_with('[')).unwrap_or(false);
            let path = if is_array { format!("{base}b") } else { base.to_string() };
            client.post(path)
        } else {
            client.get(target(base, w))
        };
        if w.accept_multipart {
            req = req.header(Header::new("accept", ACCEPT_MULTIPART));
        }
        if let Some(b) = &w.body {
            req = req.header(rocket::http::ContentType::JSON).body(b.clone());
        }
        let resp = req.dispatch().await;
        let status = resp.status().code;
        let content_type = resp.content_type().map(|c| c.to_string()).unwrap_or_default();
        let body = resp.into_bytes().await.unwrap_or_default();
        HttpOut { status, content_type, body }
    }
}
