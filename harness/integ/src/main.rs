//! vh-integ: checks that drive the bundled web-framework integrations.

mod c35;

fn main() {
    let id = std::env::args().nth(1).unwrap_or_default();
    match id.as_str() {
        "C35" => c35::main(),
        _ => {
            println!("INCONCLUSIVE property={id} reason=vh-integ has no check for this property yet");
            std::process::exit(2);
        }
    }
}
