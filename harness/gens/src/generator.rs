//! Code generator: a `vh_model::TypeSystem` (from `gen_ts::gen_type_system`) becomes a Rust module that declares
//! the same schema with async-graphql's derive macros. Every resolver is the data-driven body of S1
//! (`vh_schema::s1::plan`), so the reference executor R1 and every executor check apply unchanged.
//!
//! What is emitted (the choice between alternatives is drawn from an `Rng` seeded by the spec seed, so the
//! output is a pure function of the spec):
//!  * objects: `struct T(pub u64)` + `#[Object] impl` (one async fn per field), or — when at least one field
//!    is arg-less and leaf-typed — `#[derive(SimpleObject)]` with those fields as eager struct members
//!    (`#[graphql(owned)]` where an interface needs the getter) + `#[ComplexObject]` for the rest;
//!  * return types exactly as declared (`Option`/`Vec` nesting), as `Result<T>`, sometimes `Option<Result<T>>`
//!    (nullable fields) or with `Box<Object>` inside; some fields/arguments carry an explicit
//!    `#[graphql(name = …)]` on a differently named Rust item;
//!  * interfaces: `#[derive(Interface)] enum` with `field(…, arg(…))` attributes; an interface that implements
//!    another one is a variant of it (async-graphql's way to declare that) and half of the nodes are routed through it;
//!  * unions: `#[derive(Union)] enum`, with `#[graphql(flatten)]` of another union whose members it contains;
//!  * enums: `#[derive(Enum)]` (default or explicit item names) + `Echo`/`FromPlan`;
//!  * input objects: `#[derive(InputObject)]`, defaults as `#[graphql(default)]`, `default = <literal>` or
//!    `default_with = "<expr>"`, `MaybeUndefined<T>` for some nullable default-less members, `Box` on recursion;
//!    oneOf: `#[derive(OneofObject)] enum`;
//!  * custom scalars `Even` / `Short`: the `#[Scalar]` newtypes of `vh_schema::genrt`;
//!  * roots: `Query` / `Mutation` as one `#[Object]` or as `#[derive(MergedObject)]` of two halves.

use std::collections::{BTreeMap, BTreeSet};
use std::fmt::Write as _;

use vh_core::{Rng, rng};
use vh_model::coerce::{C, coerce};
use vh_model::{ArgDef, FieldDef, Kind, ScalarKind, Ty, TypeSystem, Val};
use vh_schema::genrt::mu_by_name;

use crate::spec::{Spec, type_system};

pub const REGEN_CMD: &str = "cargo run --release --offline -p vh-gens --features bootstrap --bin regen";

pub struct Generated {
    pub code: String,
    /// derive features this module exercises (for the report and the evidence)
    pub features: BTreeSet<String>,
}

struct G<'a> {
    ts: &'a TypeSystem,
    r: Rng,
    feats: BTreeSet<String>,
    /// objects emitted as SimpleObject -> their eager fields
    simple: BTreeMap<String, Vec<String>>,
    /// (input object, field) pairs that need a Box
    boxed: BTreeSet<(String, String)>,
    /// field names that belong to some interface (must keep the plain `Result<T>` shape and their own name)
    iface_fields: BTreeSet<String>,
}

fn leaf_rust(n: &str) -> &str {
    match n {
        "Int" => "i32",
        "Float" => "f64",
        "String" => "String",
        "Boolean" => "bool",
        other => other, // ID, Even, Short, enums, input objects, composites: Rust ident = GraphQL name
    }
}

fn variant_ident(field: &str) -> String {
    let mut c = field.chars();
    match c.next() {
        Some(f) => f.to_uppercase().collect::<String>() + c.as_str(),
        None => String::new(),
    }
}

fn lit(s: &str) -> String {
    format!("{s:?}")
}

impl<'a> G<'a> {
    fn feat(&mut self, f: &str) {
        self.feats.insert(f.to_string());
    }

    // ------------------------------------------------------------ types

    fn out_nn(&self, ty: &Ty, boxed: bool) -> String {
        match ty {
            Ty::NonNull(t) => self.out_nn(t, boxed),
            Ty::List(t) => format!("Vec<{}>", self.out_ty(t, boxed)),
            Ty::Named(n) => {
                if boxed && self.ts.is_object(n) {
                    format!("Box<{n}>")
                } else {
                    leaf_rust(n).to_string()
                }
            }
        }
    }
    fn out_ty(&self, ty: &Ty, boxed: bool) -> String {
        match ty {
            Ty::NonNull(t) => self.out_nn(t, boxed),
            t => format!("Option<{}>", self.out_nn(t, boxed)),
        }
    }

    /// `boxed`: a direct (not list-wrapped) reference to an input object is boxed.
    fn in_nn(&self, ty: &Ty, boxed: bool) -> String {
        match ty {
            Ty::NonNull(t) => self.in_nn(t, boxed),
            Ty::List(t) => format!("Vec<{}>", self.in_ty(t, false, false)),
            Ty::Named(n) => {
                if boxed {
                    format!("Box<{n}>")
                } else {
                    leaf_rust(n).to_string()
                }
            }
        }
    }
    fn in_ty(&self, ty: &Ty, mu: bool, boxed: bool) -> String {
        match ty {
            Ty::NonNull(t) => self.in_nn(t, boxed),
            t if mu => format!("MaybeUndefined<{}>", self.in_nn(t, boxed)),
            t => format!("Option<{}>", self.in_nn(t, boxed)),
        }
    }

    fn is_mu(owner: &str, a: &ArgDef) -> bool {
        !a.ty.is_nonnull() && a.default.is_none() && mu_by_name(owner, &a.name)
    }

    // ------------------------------------------------------------ values (defaults)

    fn val_nn(&self, ty: &Ty, v: &Val, boxed: bool) -> String {
        match (ty, v) {
            (Ty::NonNull(t), _) => self.val_nn(t, v, boxed),
            (Ty::List(item), Val::List(xs)) => {
                format!("vec![{}]", xs.iter().map(|x| self.val(item, x, false, false)).collect::<Vec<_>>().join(", "))
            }
            (Ty::List(item), single) => format!("vec![{}]", self.val(item, single, false, false)),
            (Ty::Named(n), _) => {
                let e = match (self.ts.kind(n), v) {
                    (Kind::Scalar(ScalarKind::Int), Val::Int(i)) => format!("{i}"),
                    (Kind::Scalar(ScalarKind::Float), Val::Float(f)) => format!("{f:?}f64"),
                    (Kind::Scalar(ScalarKind::Float), Val::Int(i)) => format!("{i}f64"),
                    (Kind::Scalar(ScalarKind::String), Val::Str(s)) => format!("String::from({})", lit(s)),
                    (Kind::Scalar(ScalarKind::Boolean), Val::Bool(b)) => format!("{b}"),
                    (Kind::Scalar(ScalarKind::ID), Val::Str(s)) => format!("ID::from({})", lit(s)),
                    (Kind::Scalar(ScalarKind::ID), Val::Int(i)) => format!("ID::from({})", lit(&i.to_string())),
                    (Kind::Scalar(ScalarKind::EvenInt), Val::Int(i)) => format!("Even({i})"),
                    (Kind::Scalar(ScalarKind::ShortStr), Val::Str(s)) => format!("Short(String::from({}))", lit(s)),
                    (Kind::Enum(_), Val::Enum(e)) => format!("{n}::{e}"),
                    (Kind::Input { fields, oneof }, Val::Obj(m)) => {
                        if *oneof {
                            let (k, x) = &m[0];
                            let f = fields.iter().find(|f| &f.name == k).expect("oneOf member");
                            format!("{n}::{}({})", variant_ident(k), self.val_nn(&f.ty, x, false))
                        } else {
                            let items: Vec<String> = fields
                                .iter()
                                .map(|f| {
                                    let mu = Self::is_mu(n, f);
                                    let bx = self.boxed.contains(&(n.clone(), f.name.clone()));
                                    let given = m.iter().find(|(k, _)| k == &f.name).map(|(_, x)| x);
                                    format!("{}: {}", f.name, self.member(&f.ty, given, mu, bx))
                                })
                                .collect();
                            format!("{n} {{ {} }}", items.join(", "))
                        }
                    }
                    (k, v) => panic!("vh-gens: default {v:?} not expressible for {n} ({k:?})"),
                };
                if boxed { format!("Box::new({e})") } else { e }
            }
        }
    }
    fn val(&self, ty: &Ty, v: &Val, mu: bool, boxed: bool) -> String {
        self.member(ty, Some(v), mu, boxed)
    }
    /// A struct member / argument value; `None` = not given.
    fn member(&self, ty: &Ty, v: Option<&Val>, mu: bool, boxed: bool) -> String {
        match (ty, v) {
            (Ty::NonNull(t), Some(v)) => self.val_nn(t, v, boxed),
            (Ty::NonNull(_), None) => panic!("vh-gens: required member without a value"),
            (_, None) if mu => "MaybeUndefined::Undefined".into(),
            (_, None) => "None".into(),
            (_, Some(Val::Null)) if mu => "MaybeUndefined::Null".into(),
            (_, Some(Val::Null)) => "None".into(),
            (t, Some(v)) if mu => format!("MaybeUndefined::Value({})", self.val_nn(t, v, boxed)),
            (t, Some(v)) => format!("Some({})", self.val_nn(t, v, boxed)),
        }
    }

    /// The `default…` part of a `#[graphql(…)]` attribute for an argument / input member with a default.
    fn default_attr(&mut self, a: &ArgDef, boxed: bool) -> String {
        let d = a.default.as_ref().expect("default");
        let v = match coerce(self.ts, &a.ty, d, None, false) {
            Ok(C::V(v)) => v,
            other => panic!("vh-gens: default {} of {} does not coerce: {other:?}", d.gql(), a.name),
        };
        // Default::default() of the Rust type
        let is_rust_default = match (&a.ty, &v) {
            (Ty::NonNull(t), Val::List(xs)) => matches!(**t, Ty::List(_)) && xs.is_empty(),
            (Ty::NonNull(t), Val::Int(0)) => **t == Ty::named("Int"),
            (Ty::NonNull(t), Val::Bool(false)) => **t == Ty::named("Boolean"),
            (Ty::NonNull(t), Val::Str(s)) => **t == Ty::named("String") && s.is_empty(),
            (t, Val::Null) => !t.is_nonnull(),
            _ => false,
        };
        if is_rust_default && self.r.bool() {
            self.feat("default (Default::default())");
            return "default".into();
        }
        // literal forms the macro accepts
        if let Ty::NonNull(t) = &a.ty {
            let literal = match (&**t, &v) {
                (Ty::Named(n), Val::Int(i)) if n == "Int" && *i >= 0 => Some(format!("{i}")),
                (Ty::Named(n), Val::Bool(b)) if n == "Boolean" => Some(format!("{b}")),
                (Ty::Named(n), Val::Str(s)) if n == "String" => Some(lit(s)),
                (Ty::Named(n), Val::Float(f)) if n == "Float" && *f >= 0.0 => Some(format!("{f:?}")),
                _ => None,
            };
            if let Some(l) = literal {
                if self.r.chance(3, 4) {
                    self.feat("default = <literal>");
                    return format!("default = {l}");
                }
            }
        }
        self.feat("default_with = \"<expr>\"");
        format!("default_with = {}", lit(&self.val(&a.ty, &v, false, boxed)))
    }

    // ------------------------------------------------------------ leaf and input types

    fn emit_enum(&mut self, o: &mut String, name: &str, vals: &[String]) {
        let explicit = self.r.bool();
        self.feat(if explicit { "Enum with explicit item names" } else { "Enum with default item names" });
        let _ = writeln!(o, "#[derive(Enum, Copy, Clone, Eq, PartialEq, Debug)]");
        let _ = writeln!(o, "pub enum {name} {{");
        for v in vals {
            if explicit {
                let _ = writeln!(o, "    #[graphql(name = {})]", lit(v));
            }
            let _ = writeln!(o, "    {v},");
        }
        let _ = writeln!(o, "}}");
        let _ = writeln!(o, "impl Echo for {name} {{");
        let _ = writeln!(o, "    fn echo(&self) -> Option<Val> {{");
        let _ = writeln!(o, "        Some(Val::Enum(match self {{");
        for v in vals {
            let _ = writeln!(o, "            {name}::{v} => {},", lit(v));
        }
        let _ = writeln!(o, "        }}.to_string()))");
        let _ = writeln!(o, "    }}");
        let _ = writeln!(o, "}}");
        let _ = writeln!(o, "impl FromPlan for {name} {{");
        let _ = writeln!(o, "    fn from_plan(pv: PlanVal, _: &Cx) -> Result<Self> {{");
        let _ = writeln!(o, "        match &pv {{");
        for v in vals {
            let _ = writeln!(o, "            PlanVal::Leaf(Val::Enum(e)) if e == {} => Ok({name}::{v}),", lit(v));
        }
        let _ = writeln!(o, "            other => genrt::bad({}, other),", lit(name));
        let _ = writeln!(o, "        }}");
        let _ = writeln!(o, "    }}");
        let _ = writeln!(o, "}}");
        let _ = writeln!(o);
    }

    fn emit_input(&mut self, o: &mut String, name: &str, fields: &[ArgDef]) {
        let _ = writeln!(o, "#[derive(InputObject, Clone, Debug)]");
        let _ = writeln!(o, "pub struct {name} {{");
        for f in fields {
            let mu = Self::is_mu(name, f);
            let bx = self.boxed.contains(&(name.to_string(), f.name.clone()));
            if mu {
                self.feat("InputObject member MaybeUndefined<T>");
            }
            if bx {
                self.feat("InputObject recursion through Box");
            }
            if f.default.is_some() {
                let d = self.default_attr(f, bx);
                let _ = writeln!(o, "    #[graphql({d})]");
            }
            let _ = writeln!(o, "    pub {}: {},", f.name, self.in_ty(&f.ty, mu, bx));
        }
        let _ = writeln!(o, "}}");
        let _ = writeln!(o, "impl Echo for {name} {{");
        let _ = writeln!(o, "    fn echo(&self) -> Option<Val> {{");
        let _ = writeln!(
            o,
            "        genrt::echo_obj(vec![{}])",
            fields.iter().map(|f| format!("({}, self.{}.echo())", lit(&f.name), f.name)).collect::<Vec<_>>().join(", ")
        );
        let _ = writeln!(o, "    }}");
        let _ = writeln!(o, "}}");
        let _ = writeln!(o);
    }

    fn emit_oneof(&mut self, o: &mut String, name: &str, fields: &[ArgDef]) {
        self.feat("OneofObject");
        let _ = writeln!(o, "#[derive(OneofObject, Clone, Debug)]");
        let _ = writeln!(o, "pub enum {name} {{");
        for (k, f) in fields.iter().enumerate() {
            if k % 2 == 1 {
                let _ = writeln!(o, "    #[graphql(name = {})]", lit(&f.name));
            }
            // a oneOf member is declared nullable; the variant holds the value itself
            let _ = writeln!(o, "    {}({}),", variant_ident(&f.name), self.in_nn(&f.ty, false));
        }
        let _ = writeln!(o, "}}");
        let _ = writeln!(o, "impl Echo for {name} {{");
        let _ = writeln!(o, "    fn echo(&self) -> Option<Val> {{");
        let _ = writeln!(o, "        match self {{");
        for f in fields {
            let _ = writeln!(o, "            {name}::{}(x) => genrt::echo_obj(vec![({}, x.echo())]),", variant_ident(&f.name), lit(&f.name));
        }
        let _ = writeln!(o, "        }}");
        let _ = writeln!(o, "    }}");
        let _ = writeln!(o, "}}");
        let _ = writeln!(o);
    }

    // ------------------------------------------------------------ resolvers

    /// One `async fn` of an `#[Object]` / `#[ComplexObject]` impl.
    fn emit_method(&mut self, o: &mut String, parent_ty: &str, id_expr: &str, f: &FieldDef) {
        let iface = self.iface_fields.contains(&f.name);
        let owner = format!("{parent_ty}.{}", f.name);
        // shape of the return type
        let shape_b = !iface && !f.ty.is_nonnull() && self.r.chance(1, 5);
        let boxed = !iface && !shape_b && self.ts.is_object(f.ty.name()) && self.r.chance(1, 6);
        let renamed = !iface && self.r.chance(1, 6);
        let method = if renamed { format!("resolve_{}", f.name) } else { f.name.clone() };
        if renamed {
            self.feat("field with explicit #[graphql(name)] on a differently named fn");
            let _ = writeln!(o, "    #[graphql(name = {})]", lit(&f.name));
        }
        let mut params = String::new();
        let mut echo = vec![];
        for a in &f.args {
            let mu = Self::is_mu(&owner, a);
            if mu {
                self.feat("argument MaybeUndefined<T>");
            }
            let arg_renamed = !iface && self.r.chance(1, 6);
            let ident = if arg_renamed { format!("arg_{}", a.name) } else { a.name.clone() };
            let mut attrs = vec![];
            if arg_renamed {
                self.feat("argument with explicit #[graphql(name)]");
                attrs.push(format!("name = {}", lit(&a.name)));
            }
            if a.default.is_some() {
                attrs.push(self.default_attr(a, false));
            }
            let attr = if attrs.is_empty() { String::new() } else { format!("#[graphql({})] ", attrs.join(", ")) };
            let _ = write!(params, ", {attr}{ident}: {}", self.in_ty(&a.ty, mu, false));
            echo.push(format!("({}, {ident})", lit(&a.name)));
        }
        let call = format!("plan(ctx, {}, {id_expr}, {}, gargs![{}])", lit(parent_ty), lit(&f.name), echo.join(", "));
        if shape_b {
            self.feat("return type Option<Result<T>>");
            let inner = self.out_nn(&f.ty, false);
            let _ = writeln!(o, "    async fn {method}(&self, ctx: &Context<'_>{params}) -> Option<Result<{inner}>> {{");
            let _ = writeln!(o, "        match {}.await {{", call.replacen("plan(", &format!("plan::<Option<{inner}>>("), 1));
            let _ = writeln!(o, "            Ok(None) => None,");
            let _ = writeln!(o, "            Ok(Some(v)) => Some(Ok(v)),");
            let _ = writeln!(o, "            Err(e) => Some(Err(e)),");
            let _ = writeln!(o, "        }}");
            let _ = writeln!(o, "    }}");
        } else {
            if boxed {
                self.feat("return type with Box<Object>");
            }
            let _ = writeln!(o, "    async fn {method}(&self, ctx: &Context<'_>{params}) -> Result<{}> {{", self.out_ty(&f.ty, boxed));
            let _ = writeln!(o, "        {call}.await");
            let _ = writeln!(o, "    }}");
        }
    }

    fn eager_capable(&self, f: &FieldDef) -> bool {
        f.args.is_empty() && self.ts.is_leaf(f.ty.name())
    }

    fn emit_object(&mut self, o: &mut String, name: &str, fields: &[FieldDef]) {
        let eager: Vec<&FieldDef> = fields.iter().filter(|f| self.eager_capable(f)).collect();
        let simple = !eager.is_empty() && self.r.chance(2, 5);
        if !simple {
            self.feat("#[Object] on a tuple struct");
            let _ = writeln!(o, "#[derive(Clone, Debug)]");
            let _ = writeln!(o, "pub struct {name}(pub u64);");
            let _ = writeln!(o, "impl FromPlan for {name} {{");
            let _ = writeln!(o, "    fn from_plan(pv: PlanVal, _: &Cx) -> Result<Self> {{");
            let _ = writeln!(o, "        match pv {{");
            let _ = writeln!(o, "            PlanVal::Node {{ ty, id }} if ty == {} => Ok({name}(id)),", lit(name));
            let _ = writeln!(o, "            other => genrt::bad({}, &other),", lit(name));
            let _ = writeln!(o, "        }}");
            let _ = writeln!(o, "    }}");
            let _ = writeln!(o, "}}");
            let explicit = self.r.chance(1, 3);
            let _ = writeln!(o, "{}", if explicit { format!("#[Object(name = {})]", lit(name)) } else { "#[Object]".into() });
            let _ = writeln!(o, "impl {name} {{");
            for f in fields {
                self.emit_method(o, name, "self.0", f);
            }
            let _ = writeln!(o, "}}");
            let _ = writeln!(o);
            return;
        }
        // SimpleObject: a random non-empty subset of the eager-capable fields are struct members
        let mut members: Vec<&FieldDef> = eager.iter().copied().filter(|_| self.r.chance(3, 4)).collect();
        if members.is_empty() {
            members.push(eager[0]);
        }
        let member_names: BTreeSet<&str> = members.iter().map(|f| f.name.as_str()).collect();
        let rest: Vec<&FieldDef> = fields.iter().filter(|f| !member_names.contains(f.name.as_str())).collect();
        self.feat("SimpleObject");
        self.simple.insert(name.to_string(), members.iter().map(|f| f.name.clone()).collect());
        let _ = writeln!(o, "#[derive(SimpleObject, Clone, Debug)]");
        if !rest.is_empty() {
            self.feat("SimpleObject + ComplexObject");
            let _ = writeln!(o, "#[graphql(complex)]");
        }
        let _ = writeln!(o, "pub struct {name} {{");
        let _ = writeln!(o, "    #[graphql(skip)]");
        let _ = writeln!(o, "    pub node_id: u64,");
        for f in &members {
            if self.iface_fields.contains(&f.name) {
                // the interface calls the getter and needs an owned value
                self.feat("SimpleObject member behind an interface (owned getter)");
                let _ = writeln!(o, "    #[graphql(owned)]");
            } else if self.r.chance(1, 4) {
                let _ = writeln!(o, "    #[graphql(owned)]");
            }
            let _ = writeln!(o, "    pub {}: {},", f.name, self.out_ty(&f.ty, false));
        }
        let _ = writeln!(o, "}}");
        let _ = writeln!(o, "impl FromPlan for {name} {{");
        let _ = writeln!(o, "    fn from_plan(pv: PlanVal, cx: &Cx) -> Result<Self> {{");
        let _ = writeln!(o, "        match pv {{");
        let _ = writeln!(o, "            PlanVal::Node {{ ty, id }} if ty == {} => Ok({name} {{", lit(name));
        let _ = writeln!(o, "                node_id: id,");
        for f in &members {
            let _ = writeln!(o, "                {}: genrt::eager(cx, {}, id, {})?,", f.name, lit(name), lit(&f.name));
        }
        let _ = writeln!(o, "            }}),");
        let _ = writeln!(o, "            other => genrt::bad({}, &other),", lit(name));
        let _ = writeln!(o, "        }}");
        let _ = writeln!(o, "    }}");
        let _ = writeln!(o, "}}");
        if !rest.is_empty() {
            let _ = writeln!(o, "#[ComplexObject]");
            let _ = writeln!(o, "impl {name} {{");
            for f in rest {
                self.emit_method(o, name, "self.node_id", f);
            }
            let _ = writeln!(o, "}}");
        }
        let _ = writeln!(o);
    }

    fn emit_root(&mut self, o: &mut String, name: &str, fields: &[FieldDef]) {
        let merged = fields.len() >= 2 && self.r.chance(1, 2);
        if !merged {
            self.feat(&format!("{name} root as one #[Object]"));
            let _ = writeln!(o, "#[derive(Default)]");
            let _ = writeln!(o, "pub struct {name};");
            let _ = writeln!(o, "#[Object]");
            let _ = writeln!(o, "impl {name} {{");
            for f in fields {
                self.emit_method(o, name, "0", f);
            }
            let _ = writeln!(o, "}}");
            let _ = writeln!(o);
            return;
        }
        self.feat(&format!("{name} root as MergedObject of two halves"));
        let cut = 1 + self.r.below(fields.len() - 1);
        for (half, fs) in [("A", &fields[..cut]), ("B", &fields[cut..])] {
            let _ = writeln!(o, "#[derive(Default)]");
            let _ = writeln!(o, "pub struct {name}{half};");
            let _ = writeln!(o, "#[Object]");
            let _ = writeln!(o, "impl {name}{half} {{");
            for f in fs {
                self.emit_method(o, name, "0", f);
            }
            let _ = writeln!(o, "}}");
        }
        let _ = writeln!(o, "#[derive(MergedObject, Default)]");
        let _ = writeln!(o, "pub struct {name}({name}A, {name}B);");
        let _ = writeln!(o);
    }

    // ------------------------------------------------------------ abstract types

    fn emit_abstract_from_plan(&mut self, o: &mut String, name: &str, direct: &[String], via: &[(String, Vec<String>)]) {
        let _ = writeln!(o, "impl FromPlan for {name} {{");
        let _ = writeln!(o, "    fn from_plan(pv: PlanVal, cx: &Cx) -> Result<Self> {{");
        let _ = writeln!(o, "        let (t, odd) = match &pv {{");
        let _ = writeln!(o, "            PlanVal::Node {{ ty, id }} => (ty.clone(), id & 1 == 1),");
        let _ = writeln!(o, "            other => return genrt::bad({}, other),", lit(name));
        let _ = writeln!(o, "        }};");
        let _ = writeln!(o, "        let _ = odd;");
        let _ = writeln!(o, "        match t.as_str() {{");
        for (inner, members) in via {
            for m in members {
                // nodes with an odd id travel through the nested abstract type; members that are not
                // listed directly always do
                let guard = if direct.contains(m) { " if odd && genrt::nested_routing()" } else { "" };
                let _ = writeln!(o, "            {}{guard} => Ok({name}::{inner}(FromPlan::from_plan(pv, cx)?)),", lit(m));
            }
        }
        for m in direct {
            let _ = writeln!(o, "            {} => Ok({name}::{m}(FromPlan::from_plan(pv, cx)?)),", lit(m));
        }
        let _ = writeln!(o, "            _ => genrt::bad({}, &pv),", lit(name));
        let _ = writeln!(o, "        }}");
        let _ = writeln!(o, "    }}");
        let _ = writeln!(o, "}}");
        let _ = writeln!(o);
    }

    fn emit_interface(&mut self, o: &mut String, name: &str, fields: &[FieldDef]) {
        self.feat("Interface");
        let objs: Vec<String> = self.ts.possible_types(name).into_iter().collect();
        // interfaces that implement this one are variants of it
        let subs: Vec<String> = self
            .ts
            .types
            .iter()
            .filter(|t| matches!(&t.kind, Kind::Interface { implements, .. } if implements.iter().any(|i| i == name)))
            .map(|t| t.name.clone())
            .collect();
        let _ = writeln!(o, "#[derive(Interface)]");
        let _ = writeln!(o, "#[graphql(");
        let _ = writeln!(o, "    name = {},", lit(name));
        for f in fields {
            let mut parts = vec![format!("name = {}", lit(&f.name)), format!("ty = {}", lit(&self.out_ty(&f.ty, false)))];
            let owner = format!("{name}.{}", f.name);
            for a in &f.args {
                let mu = Self::is_mu(&owner, a);
                let mut ap = vec![format!("name = {}", lit(&a.name)), format!("ty = {}", lit(&self.in_ty(&a.ty, mu, false)))];
                if a.default.is_some() {
                    ap.push(self.default_attr(a, false));
                }
                self.feat("Interface field with arguments");
                parts.push(format!("arg({})", ap.join(", ")));
            }
            let _ = writeln!(o, "    field({}),", parts.join(", "));
        }
        let _ = writeln!(o, ")]");
        let _ = writeln!(o, "pub enum {name} {{");
        let mut via = vec![];
        for s in &subs {
            self.feat("Interface implementing an interface (nested variant)");
            let _ = writeln!(o, "    {s}({s}),");
            via.push((s.clone(), self.ts.possible_types(s).into_iter().collect::<Vec<_>>()));
        }
        for m in &objs {
            let _ = writeln!(o, "    {m}({m}),");
        }
        let _ = writeln!(o, "}}");
        self.emit_abstract_from_plan(o, name, &objs, &via);
    }

    fn emit_union(&mut self, o: &mut String, name: &str, members: &[String]) {
        self.feat("Union");
        // another union whose members are all (and not exactly) ours is flattened into this one
        let mut flat: Option<(String, Vec<String>)> = None;
        for t in &self.ts.types {
            if let Kind::Union(other) = &t.kind {
                if t.name != name && other.len() < members.len() && other.iter().all(|m| members.contains(m)) {
                    flat = Some((t.name.clone(), other.clone()));
                    break;
                }
            }
        }
        let _ = writeln!(o, "#[derive(Union)]");
        let _ = writeln!(o, "pub enum {name} {{");
        let mut direct = vec![];
        let mut via = vec![];
        if let Some((u, ms)) = &flat {
            self.feat("Union with #[graphql(flatten)] of another union");
            let _ = writeln!(o, "    #[graphql(flatten)]");
            let _ = writeln!(o, "    {u}({u}),");
            via.push((u.clone(), ms.clone()));
        }
        for m in members {
            if flat.as_ref().is_some_and(|(_, ms)| ms.contains(m)) {
                continue;
            }
            let _ = writeln!(o, "    {m}({m}),");
            direct.push(m.clone());
        }
        let _ = writeln!(o, "}}");
        self.emit_abstract_from_plan(o, name, &direct, &via);
    }
}

/// Direct (not list-wrapped) references between input objects that lie on a cycle need a `Box`.
fn boxed_edges(ts: &TypeSystem) -> BTreeSet<(String, String)> {
    fn direct_target(ts: &TypeSystem, ty: &Ty) -> Option<String> {
        match ty.nullable() {
            Ty::Named(n) if matches!(ts.kind(n), Kind::Input { oneof: false, .. }) => Some(n.clone()),
            _ => None,
        }
    }
    let mut edges: BTreeMap<String, Vec<(String, String)>> = BTreeMap::new();
    for t in &ts.types {
        if let Kind::Input { fields, oneof: false } = &t.kind {
            for f in fields {
                if let Some(target) = direct_target(ts, &f.ty) {
                    edges.entry(t.name.clone()).or_default().push((f.name.clone(), target));
                }
            }
        }
    }
    let reaches = |from: &str, to: &str| -> bool {
        let mut seen = BTreeSet::new();
        let mut stack = vec![from.to_string()];
        while let Some(n) = stack.pop() {
            if n == to {
                return true;
            }
            if !seen.insert(n.clone()) {
                continue;
            }
            for (_, t) in edges.get(&n).map(|v| v.as_slice()).unwrap_or(&[]) {
                stack.push(t.clone());
            }
        }
        false
    };
    let mut out = BTreeSet::new();
    for (owner, es) in &edges {
        for (field, target) in es {
            if reaches(target, owner) {
                out.insert((owner.clone(), field.clone()));
            }
        }
    }
    out
}

pub fn generate(spec: &Spec) -> Generated {
    let ts = type_system(spec);
    let mut iface_fields = BTreeSet::new();
    for t in &ts.types {
        if let Kind::Interface { fields, .. } = &t.kind {
            iface_fields.extend(fields.iter().map(|f| f.name.clone()));
        }
    }
    let mut g = G {
        ts: &ts,
        r: Rng::new(rng::mix(&[spec.seed, 0x67656e73])),
        feats: BTreeSet::new(),
        simple: BTreeMap::new(),
        boxed: boxed_edges(&ts),
        iface_fields,
    };
    let mut body = String::new();
    let mut registers: Vec<String> = vec![];
    let roots: Vec<&str> = std::iter::once(ts.query.as_str()).chain(ts.mutation.as_deref()).collect();
    for t in &ts.types {
        if TypeSystem::is_builtin_scalar(&t.name) {
            continue;
        }
        match &t.kind {
            Kind::Scalar(_) => {
                g.feat(&format!("custom scalar {} (#[Scalar] newtype)", t.name));
                registers.push(format!(".register_output_type::<{}>()", t.name));
            }
            Kind::Enum(vals) => {
                g.emit_enum(&mut body, &t.name, vals);
                registers.push(format!(".register_output_type::<{}>()", t.name));
            }
            Kind::Input { fields, oneof } => {
                if *oneof {
                    g.emit_oneof(&mut body, &t.name, fields);
                } else {
                    g.emit_input(&mut body, &t.name, fields);
                }
                registers.push(format!(".register_input_type::<{}>()", t.name));
            }
            Kind::Object { fields, .. } => {
                if roots.contains(&t.name.as_str()) {
                    g.emit_root(&mut body, &t.name, fields);
                } else {
                    g.emit_object(&mut body, &t.name, fields);
                    registers.push(format!(".register_output_type::<{}>()", t.name));
                }
            }
            Kind::Interface { fields, .. } => g.emit_interface(&mut body, &t.name, fields),
            Kind::Union(members) => g.emit_union(&mut body, &t.name, members),
        }
    }
    let uses_even = ts.get("Even").is_some();
    let uses_short = ts.get("Short").is_some();
    let mut code = String::new();
    let _ = writeln!(code, "// @generated by `{REGEN_CMD}` from spec {} (seed {}). Do not edit.", spec.name, spec.seed);
    let _ = writeln!(code, "//");
    let _ = writeln!(code, "// derive features of this module:");
    for f in &g.feats {
        let _ = writeln!(code, "//   - {f}");
    }
    let _ = writeln!(code);
    let _ = writeln!(code, "#![allow(unused_imports, dead_code, clippy::all)]");
    let _ = writeln!(code);
    let _ = writeln!(code, "use std::sync::{{Arc, OnceLock}};");
    let _ = writeln!(code);
    let _ = writeln!(code, "use async_graphql::*;");
    let _ = writeln!(code, "use vh_model::world::PlanVal;");
    let _ = writeln!(code, "use vh_model::{{TypeSystem, Val}};");
    let _ = writeln!(code, "use vh_schema::gargs;");
    let _ = writeln!(
        code,
        "use vh_schema::genrt::{{self, {}{}StaticExec}};",
        if uses_even { "Even, " } else { "" },
        if uses_short { "Short, " } else { "" }
    );
    let _ = writeln!(code, "use vh_schema::s1::{{Cx, Echo, FromPlan, plan}};");
    let _ = writeln!(code);
    let _ = writeln!(code, "pub const NAME: &str = {};", lit(spec.name));
    let _ = writeln!(code);
    let _ = writeln!(code, "/// SDL of the model this module was generated from (`TypeSystem::sdl`).");
    let _ = writeln!(code, "pub const SDL: &str = \"\\");
    for line in ts.sdl().lines() {
        let l = lit(line);
        let _ = writeln!(code, "{}\\n\\", &l[1..l.len() - 1]);
    }
    let _ = writeln!(code, "\";");
    let _ = writeln!(code);
    let _ = writeln!(code, "/// (type, field) pairs that are eagerly built `SimpleObject` members.");
    let _ = writeln!(code, "pub const EAGER: &[(&str, &str)] = &[");
    for (t, fs) in &g.simple {
        for f in fs {
            let _ = writeln!(code, "    ({}, {}),", lit(t), lit(f));
        }
    }
    let _ = writeln!(code, "];");
    let _ = writeln!(code);
    let _ = writeln!(code, "/// Derive features this module exercises.");
    let _ = writeln!(code, "pub const FEATURES: &[&str] = &[");
    for f in &g.feats {
        let _ = writeln!(code, "    {},", lit(f));
    }
    let _ = writeln!(code, "];");
    let _ = writeln!(code);
    let _ = writeln!(code, "/// The type system this module declares (rebuilt from the spec; panics when the module is stale).");
    let _ = writeln!(code, "pub fn model() -> Arc<TypeSystem> {{");
    let _ = writeln!(code, "    static M: OnceLock<Arc<TypeSystem>> = OnceLock::new();");
    let _ = writeln!(code, "    M.get_or_init(|| crate::spec::checked_model(NAME, SDL)).clone()");
    let _ = writeln!(code, "}}");
    let _ = writeln!(code);
    code.push_str(&body);
    let mutation = match &ts.mutation {
        Some(m) => format!("{m}::default()"),
        None => "EmptyMutation".into(),
    };
    let _ = writeln!(code, "pub fn builder() -> SchemaBuilder<{}, {}, EmptySubscription> {{", ts.query, ts.mutation.as_deref().unwrap_or("EmptyMutation"));
    let _ = writeln!(code, "    Schema::build({}::default(), {mutation}, EmptySubscription)", ts.query);
    for r in &registers {
        let _ = writeln!(code, "        {r}");
    }
    let _ = writeln!(code, "}}");
    let _ = writeln!(code);
    let _ = writeln!(code, "pub fn exec() -> Arc<dyn StaticExec> {{");
    let _ = writeln!(code, "    genrt::static_exec(builder, EAGER)");
    let _ = writeln!(code, "}}");
    Generated { code, features: g.feats }
}

pub fn generate_lib(specs: &[Spec]) -> String {
    let mut o = String::new();
    let _ = writeln!(o, "// @generated by `{REGEN_CMD}`. Do not edit (the hand-written parts are generator.rs, spec.rs, selfcheck.rs).");
    let _ = writeln!(o);
    let _ = writeln!(o, "//! vh-gens: a family of derive-built schemas generated from `vh_model::gen_ts` type systems, so that the");
    let _ = writeln!(o, "//! static-flavour executor checks quantify over more than the one hand-written schema S1.");
    let _ = writeln!(o, "//! See generator.rs for what is emitted.");
    let _ = writeln!(o);
    let _ = writeln!(o, "pub mod generator;");
    let _ = writeln!(o, "pub mod selfcheck;");
    let _ = writeln!(o, "pub mod spec;");
    let _ = writeln!(o);
    for s in specs {
        let _ = writeln!(o, "#[cfg(not(feature = \"bootstrap\"))]");
        let _ = writeln!(o, "pub mod {};", s.name);
    }
    let _ = writeln!(o);
    let _ = writeln!(o, "#[cfg(not(feature = \"bootstrap\"))]");
    let _ = writeln!(o, "mod family {{");
    let _ = writeln!(o, "    use std::sync::Arc;");
    let _ = writeln!(o);
    let _ = writeln!(o, "    use vh_model::TypeSystem;");
    let _ = writeln!(o, "    use vh_schema::StaticExec;");
    let _ = writeln!(o);
    let _ = writeln!(o, "    pub type Member = (&'static str, Arc<TypeSystem>, Arc<dyn StaticExec>);");
    let _ = writeln!(o);
    let _ = writeln!(o, "    /// Every generated schema: (name, model, executable schema). Err when a module is stale.");
    let _ = writeln!(o, "    pub fn try_family() -> Result<Vec<Member>, String> {{");
    let _ = writeln!(o, "        Ok(vec![");
    for s in specs {
        let _ = writeln!(o, "            ({}, crate::spec::try_model(crate::{n}::NAME, crate::{n}::SDL)?, crate::{n}::exec()),", lit(s.name), n = s.name);
    }
    let _ = writeln!(o, "        ])");
    let _ = writeln!(o, "    }}");
    let _ = writeln!(o);
    let _ = writeln!(o, "    pub fn family() -> Vec<Member> {{");
    let _ = writeln!(o, "        try_family().unwrap_or_else(|e| panic!(\"{{e}}\"))");
    let _ = writeln!(o, "    }}");
    let _ = writeln!(o);
    let _ = writeln!(o, "    /// Which module was generated from the model with this SDL (`TypeSystem::sdl`)? For replay files.");
    let _ = writeln!(o, "    pub fn name_of_sdl(sdl: &str) -> Option<&'static str> {{");
    let _ = writeln!(o, "        [{}].into_iter().find(|(_, s)| *s == sdl).map(|(n, _)| n)", specs.iter().map(|s| format!("({}, crate::{}::SDL)", lit(s.name), s.name)).collect::<Vec<_>>().join(", "));
    let _ = writeln!(o, "    }}");
    let _ = writeln!(o);
    let _ = writeln!(o, "    /// Derive features per module (for evidence / reports).");
    let _ = writeln!(o, "    pub fn features() -> Vec<(&'static str, &'static [&'static str])> {{");
    let _ = writeln!(o, "        vec![{}]", specs.iter().map(|s| format!("({}, crate::{}::FEATURES)", lit(s.name), s.name)).collect::<Vec<_>>().join(", "));
    let _ = writeln!(o, "    }}");
    let _ = writeln!(o, "}}");
    let _ = writeln!(o, "#[cfg(not(feature = \"bootstrap\"))]");
    let _ = writeln!(o, "pub use family::{{Member, family, features, name_of_sdl, try_family}};");
    o
}
