//! regen — write (or verify) the generated schema family `harness/gens/src/{lib.rs, g*.rs}`.
//!
//!   cargo run --release --offline -p vh-gens --features bootstrap --bin regen              # write
//!   cargo run --release --offline -p vh-gens --features bootstrap --bin regen -- --check   # fail when stale
//!   cargo run --release --offline -p vh-gens --bin regen -- --check --selfcheck            # + introspection vs model
//!   cargo run --release --offline -p vh-gens --features bootstrap --bin regen -- --scan 40 # feature table for seeds
//!
//! Deterministic: the output is a pure function of spec.rs, gen_ts.rs and generator.rs.

use std::path::PathBuf;

use vh_gens::generator::{generate, generate_lib};
use vh_gens::spec::{Spec, specs};

fn main() {
    let args: Vec<String> = std::env::args().skip(1).collect();
    let dir = PathBuf::from(env!("CARGO_MANIFEST_DIR")).join("src");
    if let Some(k) = args.iter().position(|a| a == "--scan") {
        let n: u64 = args.get(k + 1).and_then(|s| s.parse().ok()).unwrap_or(30);
        let max: usize = args.get(k + 2).and_then(|s| s.parse().ok()).unwrap_or(5);
        for seed in 1..=n {
            let spec = Spec { name: "scan", seed, opts: vh_model::gen_ts::TsOpts { max_objects: max, ..Default::default() } };
            let g = generate(&spec);
            let ts = vh_gens::spec::type_system(&spec);
            println!("seed {seed}: {} objects, {} lines\n    {}", ts.objects().len(), g.code.lines().count(), g.features.iter().cloned().collect::<Vec<_>>().join("\n    "));
        }
        return;
    }
    let check = args.iter().any(|a| a == "--check");
    let specs = specs();
    let mut files: Vec<(PathBuf, String)> = vec![(dir.join("lib.rs"), generate_lib(&specs))];
    for s in &specs {
        let g = generate(s);
        files.push((dir.join(format!("{}.rs", s.name)), g.code));
    }
    let mut stale = vec![];
    for (path, content) in &files {
        let on_disk = std::fs::read_to_string(path).unwrap_or_default();
        if &on_disk != content {
            stale.push(path.display().to_string());
            if !check {
                std::fs::write(path, content).unwrap_or_else(|e| panic!("cannot write {}: {e}", path.display()));
            }
        }
    }
    if check {
        if !stale.is_empty() {
            eprintln!("STALE: {stale:?} differ from what the generator produces; run regen without --check");
            std::process::exit(1);
        }
        println!("ok: {} generated files are up to date", files.len());
    } else {
        println!("wrote {} of {} files ({} unchanged)", stale.len(), files.len(), files.len() - stale.len());
    }
    if args.iter().any(|a| a == "--selfcheck") {
        selfcheck();
    }
}

#[cfg(not(feature = "bootstrap"))]
fn selfcheck() {
    let diffs = vh_gens::selfcheck::check_family();
    for (m, d) in &diffs {
        eprintln!("SELFCHECK {m}: {d}");
    }
    if !diffs.is_empty() {
        std::process::exit(1);
    }
    println!("ok: every generated schema declares exactly its model (introspection)");
}

#[cfg(feature = "bootstrap")]
fn selfcheck() {
    eprintln!("--selfcheck needs a build without the `bootstrap` feature (the generated modules are not compiled in)");
    std::process::exit(2);
}
