//! The table of generated schemas: name, seed and type-system options. Used by the generator (to write
//! `g<N>.rs`) and by the generated modules at run time (to rebuild the model they were generated from).

use std::sync::Arc;

use vh_core::Rng;
use vh_model::TypeSystem;
use vh_model::gen_ts::{TsOpts, gen_type_system};

pub struct Spec {
    pub name: &'static str,
    pub seed: u64,
    pub opts: TsOpts,
}

/// Seeds were picked (with `regen --scan`) so that together the six type systems show every shape the
/// generator can emit: interfaces with and without inheritance, unions (one containing another's members),
/// custom scalars, input objects with recursion and defaults, oneOf, mutation roots, SimpleObject candidates.
pub fn specs() -> Vec<Spec> {
    let o = |max_objects: usize| TsOpts { max_objects, ..TsOpts::default() };
    vec![
        Spec { name: "g0", seed: SEEDS[0], opts: o(5) },
        Spec { name: "g1", seed: SEEDS[1], opts: o(5) },
        Spec { name: "g2", seed: SEEDS[2], opts: o(5) },
        Spec { name: "g3", seed: SEEDS[3], opts: o(5) },
        Spec { name: "g4", seed: SEEDS[4], opts: o(5) },
        Spec { name: "g5", seed: SEEDS[5], opts: o(5) },
    ]
}

pub const SEEDS: [u64; 6] = [7, 28, 18, 23, 26, 20];

pub fn spec(name: &str) -> Spec {
    specs().into_iter().find(|s| s.name == name).unwrap_or_else(|| panic!("vh-gens: no spec named {name}"))
}

pub fn type_system(s: &Spec) -> TypeSystem {
    gen_type_system(&mut Rng::new(s.seed), &s.opts)
}

/// The model of generated module `name`, or why the module is stale.
pub fn try_model(name: &str, embedded_sdl: &str) -> Result<Arc<TypeSystem>, String> {
    let ts = type_system(&spec(name));
    if ts.sdl() != embedded_sdl {
        return Err(format!(
            "vh-gens: module {name} is stale: gen_type_system no longer yields the type system it was generated from; \
             run `cargo run --release --offline -p vh-gens --features bootstrap --bin regen`"
        ));
    }
    Ok(Arc::new(ts))
}

pub fn checked_model(name: &str, embedded_sdl: &str) -> Arc<TypeSystem> {
    try_model(name, embedded_sdl).unwrap_or_else(|e| panic!("{e}"))
}
