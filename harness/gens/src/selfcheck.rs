//! Generator self-check: the schema a generated module really declares (seen through introspection) is
//! compared with the model it claims to declare. A difference is a generator mistake (or a derive-macro
//! change that alters what is declared) and makes every check that uses the family INCONCLUSIVE, never a
//! violation: the executor properties are judged against the model, so the model has to be right first.
//!
//! Compared: the set of types and their kinds; per object/interface the fields with their type text and
//! arguments (type text, presence of a default, default text for leaf-typed arguments); implemented
//! interfaces; union members; interface implementors; enum values; input fields; the oneOf flag.

use std::collections::{BTreeMap, BTreeSet};
use std::sync::Arc;

use async_graphql::Request;
use serde_json::Value as J;
use vh_model::{ArgDef, Kind, TypeSystem};
use vh_schema::StaticExec;

const QUERY: &str = "{ __schema { queryType { name } mutationType { name } subscriptionType { name } types { \
    kind name isOneOf \
    fields { name type { ...T } args { name defaultValue type { ...T } } } \
    inputFields { name defaultValue type { ...T } } \
    interfaces { name } possibleTypes { name kind } enumValues { name } } } } \
    fragment T on __Type { kind name ofType { kind name ofType { kind name ofType { kind name ofType { kind name ofType { kind name ofType { kind name } } } } } } }";

fn type_text(t: &J) -> String {
    match t["kind"].as_str() {
        Some("NON_NULL") => format!("{}!", type_text(&t["ofType"])),
        Some("LIST") => format!("[{}]", type_text(&t["ofType"])),
        _ => t["name"].as_str().unwrap_or("?").to_string(),
    }
}

fn names(j: &J) -> BTreeSet<String> {
    j.as_array().map(|a| a.iter().filter_map(|x| x["name"].as_str().map(|s| s.to_string())).collect()).unwrap_or_default()
}

fn strip(s: &str) -> String {
    s.chars().filter(|c| !c.is_whitespace()).collect()
}

fn compare_inputs(ts: &TypeSystem, at: &str, model: &[ArgDef], real: &J, out: &mut Vec<String>) {
    let real: BTreeMap<String, &J> =
        real.as_array().map(|a| a.iter().filter_map(|x| x["name"].as_str().map(|n| (n.to_string(), x))).collect()).unwrap_or_default();
    let want: BTreeSet<String> = model.iter().map(|a| a.name.clone()).collect();
    let got: BTreeSet<String> = real.keys().cloned().collect();
    if want != got {
        out.push(format!("{at}: input values {got:?}, model {want:?}"));
        return;
    }
    for a in model {
        let r = real[&a.name];
        let t = type_text(&r["type"]);
        if t != a.ty.to_string() {
            out.push(format!("{at}.{}: declared type {t}, model {}", a.name, a.ty));
        }
        let rd = r["defaultValue"].as_str();
        match (&a.default, rd) {
            (None, None) => {}
            (Some(d), Some(rd)) => {
                let n = a.ty.name();
                let leafish = !matches!(ts.kind(n), Kind::Input { .. }) && n != "Float" && n != "ID";
                if leafish && strip(rd) != strip(&d.gql()) {
                    out.push(format!("{at}.{}: declared default {rd}, model {}", a.name, d.gql()));
                }
            }
            (d, rd) => out.push(format!("{at}.{}: declared default {rd:?}, model {:?}", a.name, d.as_ref().map(|d| d.gql()))),
        }
    }
}

/// Types of the model that a root can reach (through fields, arguments, input fields, implementors, members).
fn reachable(ts: &TypeSystem) -> BTreeSet<String> {
    let mut seen = BTreeSet::new();
    let mut stack: Vec<String> = std::iter::once(ts.query.clone()).chain(ts.mutation.clone()).chain(ts.subscription.clone()).collect();
    while let Some(n) = stack.pop() {
        if !seen.insert(n.clone()) {
            continue;
        }
        match ts.kind(&n) {
            Kind::Object { fields, implements } | Kind::Interface { fields, implements } => {
                for f in fields {
                    stack.push(f.ty.name().to_string());
                    stack.extend(f.args.iter().map(|a| a.ty.name().to_string()));
                }
                stack.extend(implements.iter().cloned());
                stack.extend(ts.possible_types(&n));
                // interfaces implementing this one
                for t in &ts.types {
                    if matches!(&t.kind, Kind::Interface { implements, .. } if implements.contains(&n)) {
                        stack.push(t.name.clone());
                    }
                }
            }
            Kind::Union(m) => stack.extend(m.iter().cloned()),
            Kind::Input { fields, .. } => stack.extend(fields.iter().map(|a| a.ty.name().to_string())),
            Kind::Scalar(_) | Kind::Enum(_) => {}
        }
    }
    seen
}

/// Differences between the model and the real schema; empty = they agree.
pub fn check(ts: &TypeSystem, exec: &Arc<dyn StaticExec>) -> Vec<String> {
    let resp = vh_core::vsched::block_on(exec.execute(Request::new(QUERY)));
    if !resp.errors.is_empty() {
        return vec![format!("introspection failed: {:?}", resp.errors)];
    }
    let j = serde_json::to_value(&resp.data).unwrap_or(J::Null);
    let schema = &j["__schema"];
    let mut out = vec![];
    let root = |k: &str| schema[k]["name"].as_str().map(|s| s.to_string());
    if root("queryType").as_deref() != Some(ts.query.as_str()) {
        out.push(format!("query root {:?}, model {}", root("queryType"), ts.query));
    }
    if root("mutationType") != ts.mutation {
        out.push(format!("mutation root {:?}, model {:?}", root("mutationType"), ts.mutation));
    }
    if root("subscriptionType") != ts.subscription {
        out.push(format!("subscription root {:?}, model {:?}", root("subscriptionType"), ts.subscription));
    }
    let real: BTreeMap<String, &J> = schema["types"]
        .as_array()
        .map(|a| a.iter().filter_map(|t| t["name"].as_str().map(|n| (n.to_string(), t))).collect())
        .unwrap_or_default();
    let interesting = |n: &str| !n.starts_with("__") && !TypeSystem::is_builtin_scalar(n);
    let want: BTreeSet<String> = ts.types.iter().map(|t| t.name.clone()).filter(|n| interesting(n)).collect();
    let got: BTreeSet<String> = real.keys().filter(|n| interesting(n)).cloned().collect();
    // async-graphql drops types no root can reach (Registry::remove_unused_types): those may be missing
    let reachable = reachable(ts);
    let missing: Vec<&String> = want.difference(&got).filter(|n| reachable.contains(*n)).collect();
    let extra: Vec<&String> = got.difference(&want).collect();
    if !missing.is_empty() || !extra.is_empty() {
        out.push(format!("types: only in the schema {extra:?}, only in the model (and reachable) {missing:?}"));
    }
    for t in &ts.types {
        let Some(r) = real.get(&t.name) else { continue };
        if !interesting(&t.name) {
            continue;
        }
        let kind = match &t.kind {
            Kind::Scalar(_) => "SCALAR",
            Kind::Enum(_) => "ENUM",
            Kind::Object { .. } => "OBJECT",
            Kind::Interface { .. } => "INTERFACE",
            Kind::Union(_) => "UNION",
            Kind::Input { .. } => "INPUT_OBJECT",
        };
        if r["kind"].as_str() != Some(kind) {
            out.push(format!("{}: kind {:?}, model {kind}", t.name, r["kind"]));
            continue;
        }
        match &t.kind {
            Kind::Scalar(_) => {}
            Kind::Enum(vals) => {
                let want: BTreeSet<String> = vals.iter().cloned().collect();
                if names(&r["enumValues"]) != want {
                    out.push(format!("{}: enum values {:?}, model {want:?}", t.name, names(&r["enumValues"])));
                }
            }
            Kind::Union(members) => {
                let want: BTreeSet<String> = members.iter().cloned().collect();
                if names(&r["possibleTypes"]) != want {
                    out.push(format!("{}: union members {:?}, model {want:?}", t.name, names(&r["possibleTypes"])));
                }
            }
            Kind::Input { fields, oneof } => {
                compare_inputs(ts, &t.name, fields, &r["inputFields"], &mut out);
                if r["isOneOf"].as_bool().unwrap_or(false) != *oneof {
                    out.push(format!("{}: isOneOf {:?}, model {oneof}", t.name, r["isOneOf"]));
                }
            }
            Kind::Object { fields, implements } | Kind::Interface { fields, implements } => {
                let rf: BTreeMap<String, &J> = r["fields"]
                    .as_array()
                    .map(|a| a.iter().filter_map(|x| x["name"].as_str().map(|n| (n.to_string(), x))).collect())
                    .unwrap_or_default();
                let want: BTreeSet<String> = fields.iter().map(|f| f.name.clone()).collect();
                let got: BTreeSet<String> = rf.keys().cloned().collect();
                if want != got {
                    out.push(format!("{}: fields {got:?}, model {want:?}", t.name));
                    continue;
                }
                for f in fields {
                    let x = rf[&f.name];
                    let tt = type_text(&x["type"]);
                    if tt != f.ty.to_string() {
                        out.push(format!("{}.{}: declared type {tt}, model {}", t.name, f.name, f.ty));
                    }
                    compare_inputs(ts, &format!("{}.{}", t.name, f.name), &f.args, &x["args"], &mut out);
                }
                // declared interfaces: the model lists them transitively for objects
                let want: BTreeSet<String> = if matches!(t.kind, Kind::Object { .. }) {
                    ts.implements_closure(&t.name)
                } else {
                    implements.iter().cloned().collect()
                };
                if names(&r["interfaces"]) != want {
                    out.push(format!("{}: implements {:?}, model {want:?}", t.name, names(&r["interfaces"])));
                }
                if matches!(t.kind, Kind::Interface { .. }) {
                    // async-graphql lists an implementing interface among the possible types; objects must agree
                    let got: BTreeSet<String> = r["possibleTypes"]
                        .as_array()
                        .map(|a| a.iter().filter(|p| p["kind"].as_str() == Some("OBJECT")).filter_map(|p| p["name"].as_str().map(|s| s.to_string())).collect())
                        .unwrap_or_default();
                    let want = ts.possible_types(&t.name);
                    if got != want {
                        out.push(format!("{}: implementing objects {got:?}, model {want:?}", t.name));
                    }
                }
            }
        }
    }
    out
}

/// Self-check of the whole family: (module, difference) pairs.
#[cfg(not(feature = "bootstrap"))]
pub fn check_family() -> Vec<(String, String)> {
    let mut out = vec![];
    match crate::try_family() {
        Err(e) => out.push(("family".to_string(), e)),
        Ok(members) => {
            for (name, ts, exec) in members {
                for d in check(&ts, &exec) {
                    out.push((name.to_string(), d));
                }
            }
        }
    }
    out
}
