//! vh-parse: parser checks against the independent parser R2 (vh-r2).
//!   C13  accept/reject and tree agreement
//!   C14  source positions

mod c13;
mod c14;
mod common;
mod conv;
mod mutate;

fn main() {
    let id = std::env::args().nth(1).unwrap_or_default();
    match id.as_str() {
        "C13" => c13::main(),
        "C14" => c14::main(),
        other => {
            println!("INCONCLUSIVE property={other} reason=vh-parse has no check for this property");
            std::process::exit(2);
        }
    }
}
