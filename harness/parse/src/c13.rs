//! C13 — the parser accepts exactly GraphQL documents and builds the tree they denote.
//!
//! Oracle: R2 (vh-r2), an independent lexer + recursive-descent parser for the
//! October-2021 grammar.
//!   valid documents   generator-AST == R2(text) == crate(text), text = print(AST) with G7 noise
//!   near-miss mutants R2 decides accept/reject (grammar + the document rules of parse_query /
//!                     parse_schema); the crate must agree, and when both accept the trees must agree
//! Documented deviations that do not alarm: `\uXXXX` naming a surrogate is rejected (R2 rejects it
//! too); selection sets nested deeper than 64 are rejected (never generated here).

use std::sync::atomic::{AtomicU64, Ordering};

use vh_core::serde_json::json;
use vh_core::{Rng, Run, rng};
use vh_r2::*;

use crate::common::*;
use crate::conv::{crate_shape, first_difference, has_duplicate_object_keys};
use crate::mutate::mutate;

/// R2 feature tags that name constructs async-graphql is known (or suspected) to mishandle.
const DEVIATION_TAGS: [&str; 12] = [
    "directive_not_repeatable",
    "type_inner_whitespace",
    "comment_after_on",
    "variable_default_and_directives",
    "enum_keyword_prefix",
    "schema_description",
    "extend_interface_implements_only",
    "block_string_escaped_triple_quote",
    "block_string_short_blank_line",
    "negative_zero_int",
    "float_out_of_range",
    "int_beyond_u64",
];

static SELF_CHECK_FAILED: AtomicU64 = AtomicU64::new(0);

fn deviation_tags(p: &Parsed) -> Vec<&'static str> {
    DEVIATION_TAGS.iter().copied().filter(|t| p.features.contains(t)).collect()
}

/// What the crate did with a text, relative to R2. Deterministic text: used in witness signatures.
pub enum Outcome {
    Agree,
    /// not asserted, with the reason
    Skipped(&'static str),
    /// (class tag, description)
    Wrong(String, String),
}

fn err_summary(e: &async_graphql_parser::Error) -> String {
    let pos: Vec<String> = e.positions().map(|p| format!("{}:{}", p.line, p.column)).collect();
    let first_line = e.to_string().lines().last().unwrap_or("").trim().to_string();
    format!("{} at [{}]", first_line, pos.join(","))
}

const KEYWORDS: [&str; 20] = [
    "query",
    "mutation",
    "subscription",
    "fragment",
    "on",
    "schema",
    "extend",
    "scalar",
    "type",
    "interface",
    "union",
    "enum",
    "input",
    "directive",
    "implements",
    "repeatable",
    "true",
    "false",
    "null",
    "FIELD",
];

/// Class of an R2 syntax rejection, as a feature name.
fn classify_rejection(e: &SyntaxError, text: &str) -> &'static str {
    match e.kind {
        ErrKind::LeadingZero => "lenient_leading_zero",
        ErrKind::NumberFollowedBy | ErrKind::MalformedNumber => "lenient_number_lookahead",
        ErrKind::ControlChar => "lenient_control_char_between_tokens",
        ErrKind::VariableInConst => "lenient_variable_in_const_directive",
        ErrKind::ReservedName => "lenient_fragment_named_on",
        ErrKind::UnexpectedToken | ErrKind::WrongDocumentClass | ErrKind::UnknownDirectiveLocation => {
            let Ok(toks) = lex(text, &Options { allow_control_chars: true }) else { return "lenient_other" };
            let Some(k) = toks.iter().position(|t| t.start == e.char_offset) else { return "lenient_other" };
            match &toks[k].tok {
                Tok::Name(n)
                    if KEYWORDS.iter().any(|kw| n.len() > kw.len() && n.starts_with(kw))
                        || DIRECTIVE_LOCATIONS.iter().any(|kw| n.len() > kw.len() && n.starts_with(kw)) =>
                {
                    "lenient_keyword_prefix"
                }
                Tok::Punct(")") if k > 0 && toks[k - 1].tok == Tok::Punct("(") => "lenient_empty_variable_definitions",
                Tok::Punct("=") => "lenient_variable_directives_before_default",
                _ => "lenient_other",
            }
        }
        _ => "lenient_other",
    }
}

/// The crate accepted a text R2 rejects for a reason `classify_rejection` cannot name. Find out
/// whether the crate read it as if a keyword glued to the front of a name were a token of its own
/// (`nullX` as `null X`, `queryA` as `query A`): split one such name, and if R2 then accepts the text
/// and builds exactly the crate's tree, that is the explanation.
fn explain_by_repair(e: &SyntaxError, text: &str, class: DocClass, crate_tree: &Document) -> &'static str {
    // `... on` directly followed by something that is not a name: the crate reads a spread of a
    // fragment called `on`
    if e.kind == ErrKind::UnterminatedBlockString {
        // the crate falls back from a failed block string to `""` followed by whatever comes next
        return "lenient_triple_quote_as_empty_string";
    }
    if let Ok(toks) = lex(text, &Options { allow_control_chars: true }) {
        // `... on <comment> Name`: the crate does not see a type condition there (comment_after_on)
        // and reads a spread of a fragment called `on`
        for k in 0..toks.len().saturating_sub(2) {
            if toks[k].tok == Tok::Punct("...")
                && toks[k + 1].tok == Tok::Name("on".into())
                && toks[k + 2].preceded_by_comment
                && toks[k + 2].start <= e.char_offset + 1
            {
                return "comment_after_on";
            }
        }
        if let Some(k) = toks.iter().position(|t| t.start == e.char_offset) {
            if k >= 2 && toks[k - 1].tok == Tok::Name("on".into()) && toks[k - 2].tok == Tok::Punct("...") {
                return "lenient_fragment_named_on";
            }
        }
    }
    if split_explains(text, class, crate_tree, 2) { "lenient_keyword_prefix" } else { "lenient_other" }
}

/// Does splitting a keyword off the front of some name (up to `depth` times: `falsetrue5` is
/// `false true 5` for the crate) turn the text into one R2 accepts with the crate's tree?
fn split_explains(text: &str, class: DocClass, crate_tree: &Document, depth: u32) -> bool {
    // every maximal run of name characters in the text (the text may not even lex)
    let chars: Vec<char> = text.chars().collect();
    let mut runs: Vec<(usize, String)> = vec![];
    let mut i = 0;
    while i < chars.len() {
        if vh_r2::lexer::is_name_start(chars[i]) && (i == 0 || !vh_r2::lexer::is_name_continue(chars[i - 1])) {
            let mut j = i;
            while j < chars.len() && vh_r2::lexer::is_name_continue(chars[j]) {
                j += 1;
            }
            runs.push((i, chars[i..j].iter().collect()));
            i = j;
        } else {
            i += 1;
        }
    }
    for (start, n) in &runs {
        for kw in KEYWORDS.iter().chain(DIRECTIVE_LOCATIONS.iter()) {
            if n.len() > kw.len() && n.starts_with(kw) {
                let cut = start + kw.len();
                let mut repaired: String = chars[..cut].iter().collect();
                repaired.push(' ');
                repaired.extend(chars[cut..].iter());
                match r2_verdict(&repaired, class, &Options { allow_control_chars: true }) {
                    R2Verdict::Accept(p) => {
                        if crate_shape(&p.doc) == *crate_tree {
                            return true;
                        }
                        // another defect may blur the tree; then it is enough that the crate itself
                        // reads the glued and the split text as the same document
                        if let CrateResult::Ok(cd2) = crate_parse(&repaired, class) {
                            if cd2.to_r2() == *crate_tree {
                                return true;
                            }
                        }
                    }
                    _ if depth > 1 && n.len() <= 40 => {
                        // only keep splitting inside the same run: the crate must still agree
                        if let CrateResult::Ok(cd2) = crate_parse(&repaired, class) {
                            if cd2.to_r2() == *crate_tree && split_explains(&repaired, class, crate_tree, depth - 1) {
                                return true;
                            }
                        }
                    }
                    _ => {}
                }
            }
        }
    }
    false
}

/// Compare the crate with R2 on one text.
pub fn judge(feats: &Features, text: &str, class: DocClass, strict: &R2Verdict, cr: &CrateResult) -> Outcome {
    match (strict, cr) {
        (R2Verdict::Accept(p), CrateResult::Panic(m)) => {
            let _ = p;
            Outcome::Wrong("panic".into(), format!("crate panicked on a valid document: {m}"))
        }
        (R2Verdict::Accept(p), CrateResult::Err(e)) => {
            let tags = deviation_tags(p);
            if tags.iter().any(|t| *t == "float_out_of_range") {
                return Outcome::Skipped("float_out_of_range");
            }
            if tags.iter().any(|t| !feats.is_on(t)) {
                return Outcome::Skipped("excluded_by_known_finding");
            }
            let tag = if tags.is_empty() { "unexplained".to_string() } else { tags.join("+") };
            Outcome::Wrong(format!("rejects-valid[{tag}]"), format!("crate rejects a valid document: {}", err_summary(e)))
        }
        (R2Verdict::Accept(p), CrateResult::Ok(cd)) => {
            let want = crate_shape(&p.doc);
            let got = cd.to_r2();
            if want == got {
                return Outcome::Agree;
            }
            if has_duplicate_object_keys(&p.doc) {
                return Outcome::Skipped("duplicate_object_keys");
            }
            let tags = deviation_tags(p);
            if tags.iter().any(|t| !feats.is_on(t)) {
                return Outcome::Skipped("excluded_by_known_finding");
            }
            let tag = if tags.is_empty() { "unexplained".to_string() } else { tags.join("+") };
            Outcome::Wrong(
                format!("wrong-tree[{tag}]"),
                format!(
                    "crate builds a different tree: {}",
                    first_difference(&format!("{want:?}"), &format!("{got:?}"))
                ),
            )
        }
        (R2Verdict::RejectSyntax(_) | R2Verdict::RejectRule(_), CrateResult::Err(_)) => Outcome::Agree,
        (R2Verdict::RejectSyntax(_) | R2Verdict::RejectRule(_), CrateResult::Panic(_)) => {
            Outcome::Skipped("crate_panic_on_invalid_input")
        }
        (R2Verdict::RejectRule(r), CrateResult::Ok(_)) => Outcome::Wrong(
            "accepts-rule-violation".into(),
            format!("crate accepts a document that breaks a document rule of its own parser: {r:?}"),
        ),
        (R2Verdict::RejectSyntax(e), CrateResult::Ok(cd)) => {
            let mut e = e.clone();
            if e.kind == ErrKind::ControlCharInStringOrComment {
                // edition-dependent: ask again under the later SourceCharacter rule
                match r2_verdict(text, class, &Options { allow_control_chars: true }) {
                    R2Verdict::Accept(_) => return Outcome::Skipped("control_char_in_string_or_comment_edition_dependent"),
                    R2Verdict::RejectRule(_) => return Outcome::Skipped("control_char_in_string_or_comment_edition_dependent"),
                    R2Verdict::RejectSyntax(e2) => e = e2,
                }
            }
            if e.kind == ErrKind::BracedUnicodeEscape {
                return Outcome::Skipped("braced_unicode_escape_edition_dependent");
            }
            let mut class_tag = classify_rejection(&e, text);
            if class_tag == "lenient_other" {
                class_tag = explain_by_repair(&e, text, class, &cd.to_r2());
            }
            if !feats.is_on(class_tag) {
                return Outcome::Skipped("excluded_by_known_finding");
            }
            let tree = vh_core::run::truncate(&format!("{:?}", cd.to_r2()), 400);
            Outcome::Wrong(
                format!("accepts-invalid[{class_tag}]"),
                format!("crate accepts a text that is not a GraphQL document (R2: {e}); crate tree: {tree}"),
            )
        }
    }
}

fn class_name(c: DocClass) -> &'static str {
    match c {
        DocClass::TypeSystem => "type_system",
        _ => "executable",
    }
}

fn report(run: &Hot, origin: &str, text: &str, class: DocClass, outcome: Outcome, extra: vh_core::serde_json::Value) {
    match outcome {
        Outcome::Agree => run.count(&format!("{origin}_agree"), 1),
        Outcome::Skipped(why) => run.count(&format!("not_asserted:{why}"), 1),
        Outcome::Wrong(tag, what) => {
            // debugging aid: VH_DEBUG_CLASS=<substring of the class tag> prints those cases in full
            if std::env::var("VH_DEBUG_CLASS").is_ok_and(|c| tag.contains(&c)) {
                eprintln!("DEBUG-CLASS {tag} {extra}\n  {what}\n  text: {text:?}");
            }
            // one counter per attributed construct (a document can carry several)
            let (kind, tags) = tag.split_once('[').unwrap_or((&tag, ""));
            for t in tags.trim_end_matches(']').split('+') {
                run.count(&format!("wrong:{kind}[{t}]"), 1);
            }
            run.violation(
                &format!("{origin}-{tag}:{:016x}", rng::hash_str(text)),
                &format!("{what}\n  {} document: {}", class_name(class), show(&format!("{text:?}"))),
                json!({"text": text, "class": class_name(class), "what": what, "extra": extra}),
            );
        }
    }
}

fn nontrivial(p: &Printed) -> bool {
    p.tokens.iter().any(|t| matches!(t.kind, PKind::Int | PKind::Float | PKind::Str | PKind::BlockStr) || t.text == "[")
}

fn one_document(run: &Hot, feats: &Features, cfg: &GenConfig, r: &mut Rng, mutants: u64) {
    let class = if r.chance(7, 10) { DocClass::Executable } else { DocClass::TypeSystem };
    let doc = match class {
        DocClass::TypeSystem => gen_type_system(r, cfg),
        _ => gen_executable(r, cfg),
    };
    let mut noise = RandomNoise::new(feats.hostile_noise(), r.fork(1));
    let opts = PrintOptions { leading_separators: r.next_u64() };
    let printed = print(&doc, &opts, &mut noise);

    // R2 validates itself before it is used as an oracle
    let parsed = match self_check(&doc, class, &printed) {
        Ok(p) => p,
        Err(e) => {
            run.count("r2_self_check_failed", 1);
            if SELF_CHECK_FAILED.fetch_add(1, Ordering::Relaxed) < 3 {
                eprintln!("R2 self-check failed: {e}\n text: {:?}", printed.text);
            }
            run.sample_upto(8, json!({"r2_self_check_failed": e, "text": printed.text}));
            return;
        }
    };
    let strict = r2_verdict(&printed.text, class, &Options::default());
    if !matches!(strict, R2Verdict::Accept(_)) {
        run.count("r2_self_check_failed", 1);
        SELF_CHECK_FAILED.fetch_add(1, Ordering::Relaxed);
        run.sample_upto(8, json!({"generator_broke_a_document_rule": printed.text}));
        return;
    }
    run.eval();
    run.count(&format!("documents_{}", class_name(class)), 1);
    if nontrivial(&printed) {
        run.nontrivial(rng::hash_str(&printed.text));
    }
    for f in &parsed.features {
        run.seen("constructs_generated", f);
    }
    run.sample(|| json!({"class": class_name(class), "text": printed.text, "tokens": printed.tokens.len()}));
    let cr = crate_parse(&printed.text, class);
    let outcome = judge(feats, &printed.text, class, &strict, &cr);
    report(run, "gen", &printed.text, class, outcome, json!({}));

    // near-miss mutants
    let allowed = |_: &str| true;
    for _ in 0..mutants {
        let Some(m) = mutate(r, &printed.tokens, &printed.def_starts, &allowed) else { continue };
        let mut noise = RandomNoise::new(feats.hostile_noise(), r.fork(2));
        let rendered = render(&m.tokens, &mut noise);
        let text = rendered.text;
        run.eval();
        run.seen("mutation_operators", &format!("{}/{}", m.op, m.detail));
        let strict = r2_verdict(&text, class, &Options::default());
        let cr = crate_parse(&text, class);
        match (&strict, &cr) {
            (R2Verdict::Accept(_), _) => run.count("mutants_r2_accepts", 1),
            (R2Verdict::RejectSyntax(e), _) => {
                run.count("mutants_r2_rejects", 1);
                run.seen("r2_rejection_kinds", &format!("{:?}", e.kind));
            }
            (R2Verdict::RejectRule(_), _) => {
                run.count("mutants_r2_rejects", 1);
                run.seen("r2_rejection_kinds", "DocumentRule");
            }
        }
        if matches!(cr, CrateResult::Panic(_)) {
            run.count("crate_panics", 1);
            if let CrateResult::Panic(m) = &cr {
                run.sample_upto(10, json!({"crate_panic": m, "text": text}));
            }
        }
        if !matches!(strict, R2Verdict::Accept(_)) {
            run.nontrivial(rng::hash_str(&text));
        }
        let outcome = judge(feats, &text, class, &strict, &cr);
        report(run, "mut", &text, class, outcome, json!({"operator": m.op, "detail": m.detail}));
    }
}

// ------------------------------------------------------------------ witnesses

pub struct Witness {
    pub id: &'static str,
    pub class: DocClass,
    pub text: &'static str,
}

pub const WITNESSES: &[Witness] = &[
    Witness { id: "C13-type-inner-whitespace", class: DocClass::Executable, text: "query ($a: [ Int ! ] !) { a }" },
    Witness {
        id: "C13-block-string-escaped-triple-quote",
        class: DocClass::Executable,
        text: "{ a(s: \"\"\"a \\\"\"\" b\"\"\") }",
    },
    Witness {
        id: "C13-block-string-short-blank-line",
        class: DocClass::Executable,
        text: "{ a(s: \"\"\"\n    x\n  \n    y\n\"\"\") }",
    },
    Witness { id: "C13-comment-after-on", class: DocClass::Executable, text: "{ ... on # c\n T { a } }" },
    Witness { id: "C13-variable-default-then-directive", class: DocClass::Executable, text: "query ($a: Int = 1 @d) { a }" },
    Witness { id: "C13-enum-keyword-prefix-argument", class: DocClass::Executable, text: "{ a(e: nullable) }" },
    Witness { id: "C13-enum-keyword-prefix-list", class: DocClass::Executable, text: "{ a(e: [trueish]) }" },
    Witness { id: "C13-enum-keyword-prefix-definition", class: DocClass::TypeSystem, text: "enum E { nullable }" },
    Witness { id: "C13-schema-description", class: DocClass::TypeSystem, text: "\"d\" schema { query: Q }" },
    Witness { id: "C13-extend-interface-implements-only", class: DocClass::TypeSystem, text: "extend interface A implements B" },
    Witness { id: "C13-directive-not-repeatable", class: DocClass::TypeSystem, text: "directive @d on FIELD" },
    Witness { id: "C13-negative-zero-int", class: DocClass::Executable, text: "{ a(i: -0) }" },
    Witness { id: "C13-leading-zero", class: DocClass::Executable, text: "{ a(l: [01]) }" },
    Witness { id: "C13-keyword-prefix-operation", class: DocClass::Executable, text: "queryX { a }" },
    Witness { id: "C13-keyword-prefix-type", class: DocClass::TypeSystem, text: "typeA { a: Int }" },
    Witness { id: "C13-empty-variable-definitions", class: DocClass::Executable, text: "query Q () { a }" },
    Witness { id: "C13-variable-directive-before-default", class: DocClass::Executable, text: "query ($a: Int @d = 1) { a }" },
    Witness { id: "C13-variable-in-const-directive", class: DocClass::Executable, text: "query ($a: Int, $b: Int @d(x: $a)) { a }" },
    Witness { id: "C13-fragment-named-on", class: DocClass::Executable, text: "fragment on on T { a } { b }" },
    Witness { id: "C13-spread-named-on", class: DocClass::Executable, text: "{ ... on }" },
    Witness { id: "C13-triple-quote-as-empty-string", class: DocClass::Executable, text: "{ a(l: [\"\"\"x\"]) }" },
    Witness { id: "C13-keyword-prefix-value", class: DocClass::Executable, text: "{ a(l: [null1.5]) }" },
];

fn witnesses(run: &Run) {
    // pinned inputs are judged with every feature on: the witness is the finding
    let all_on = Features { on: Default::default() };
    for w in WITNESSES {
        run.eval();
        let strict = r2_verdict(w.text, w.class, &Options::default());
        let cr = crate_parse(w.text, w.class);
        match judge(&all_on, w.text, w.class, &strict, &cr) {
            Outcome::Agree => run.count("witnesses_agree", 1),
            Outcome::Skipped(why) => run.count(&format!("witness_not_asserted:{why}"), 1),
            Outcome::Wrong(tag, what) => {
                // the observation without the dump of the crate's tree: short and exact
                let what = what.split("; crate tree:").next().unwrap_or(&what).to_string();
                run.count("witnesses_wrong", 1);
                if std::env::var("VH_PRINT_WITNESS_SIGS").is_ok() {
                    eprintln!("WITNESS-SIG\t{}\t{}\t{}", w.id, tag, vh_core::serde_json::to_string(&format!("{}|{}", w.id, what)).unwrap());
                }
                run.violation(
                    &format!("{}|{}", w.id, what),
                    &format!("witness {} ({tag}): {what}\n  document: {:?}", w.id, w.text),
                    json!({"witness": w.id, "text": w.text, "class": class_name(w.class), "what": what}),
                );
            }
        }
    }
}

/// `--replay <file>`: judge the text stored in a replay file again and say what each side does.
fn replay(run: &Run, feats: &Features, path: &std::path::Path) {
    let Ok(body) = std::fs::read_to_string(path) else {
        run.inconclusive("replay file unreadable");
        return;
    };
    let j: vh_core::serde_json::Value = vh_core::serde_json::from_str(&body).unwrap_or_default();
    let case = if j["case"].is_object() { &j["case"] } else { &j };
    let text = case["text"].as_str().unwrap_or("").to_string();
    let class = if case["class"].as_str() == Some("type_system") { DocClass::TypeSystem } else { DocClass::Executable };
    let strict = r2_verdict(&text, class, &Options::default());
    let cr = crate_parse(&text, class);
    println!("text: {text:?}");
    match &strict {
        R2Verdict::Accept(p) => println!("R2: accepts; constructs {:?}", p.features),
        R2Verdict::RejectSyntax(e) => println!("R2: rejects: {e}"),
        R2Verdict::RejectRule(r) => println!("R2: rejects: {r:?}"),
    }
    match &cr {
        CrateResult::Ok(d) => println!("crate: accepts: {:?}", d.to_r2()),
        CrateResult::Err(e) => println!("crate: rejects: {}", err_summary(e)),
        CrateResult::Panic(m) => println!("crate: panics: {m}"),
    }
    run.eval();
    let outcome = judge(feats, &text, class, &strict, &cr);
    report(&Hot::new(run), "replay", &text, class, outcome, json!({}));
}

pub fn main() {
    let mut run = Run::from_args(
        "exploration",
        "random executable (70%) and type-system (30%) documents from the R2 generator (schema-free; dense in \
         numbers, escapes, block strings, list types, keywords as names, variables with defaults and directives, \
         fragments, every definition/extension form) printed with G7 noise (spaces, tabs, LF/CRLF/CR, commas, BOM, \
         comments incl. non-ASCII, also inside type references); each followed by near-miss mutants (token \
         delete/duplicate/swap/insert, glued tokens, edits inside numbers/strings/names/punctuators, stray and control \
         characters, duplicated definitions); a document is non-trivial when it has a number, string or list type, a \
         mutant when R2 rejects it; distinct by hash of the text",
    );
    run.assume("R2 (vh-r2) implements the October-2021 lexical and syntactic grammar; it is validated on every generated document: R2(print(ast)) == ast and R2 positions == printer token table");
    run.assume("BlockStringValue: generated block strings are built from the value outwards, independently of R2's decoder");
    run.assume("document-level rules of parse_query/parse_schema (unique operation and fragment names, lone anonymous operation, at least one operation, query root present, unique root operation types) are part of the accept/reject verdict");
    run.assume("not asserted (edition-dependent): control characters inside strings/comments (SourceCharacter differs between October 2021 and later drafts); \\u{...} escapes");
    run.assume("not asserted (representation limit of Number): IntValue outside i64/u64 is compared as the nearest f64; FloatValue beyond f64::MAX is not generated and not asserted on mutants");
    run.assume("not asserted: trees of documents whose input objects repeat a field name (the crate stores objects as maps; uniqueness is a validation rule)");
    run.assume("a crate panic on an INVALID text is counted, not judged here (crash engine); on a valid document it is a violation");
    run.assume("selection sets nested deeper than the documented limit of 64 are never generated");
    let feats = Features::from_run(&run);
    let cfg = feats.gen_config();
    // sized for ~2.5 min on an idle 16-core machine; under load the time budget ends the run earlier
    let docs = run.scale(20_000, 3_000_000);
    let budget_s = run.scale(45, 420) as f64;
    let mutants = 4u64;
    run.set_floors(run.scale(80_000, 2_000_000), run.scale(20_000, 500_000));
    run.set_max_samples(6);
    run.require_counter("gen_agree");
    run.require_counter("mutants_r2_rejects");
    run.require_counter("mutants_r2_accepts");

    if let Some(path) = run.replay.clone() {
        replay(&run, &feats, &path);
        run.finish();
    }

    witnesses(&run);

    let shards = 16u64;
    let failed = sharded(shards, |shard| {
        let mut r = Rng::new(rng::mix(&[run.seed, 13, shard]));
        let hot = Hot::new(&run);
        for i in 0..docs / shards {
            // the machine is shared: stop at the time budget and report what was measured
            if i % 64 == 0 && run.elapsed_s() > budget_s {
                hot.count("shards_stopped_by_time_budget", 1);
                break;
            }
            one_document(&hot, &feats, &cfg, &mut r, mutants);
        }
    });
    if failed > 0 {
        run.inconclusive(&format!("{failed} worker thread(s) of the harness panicked"));
    }
    let bad = SELF_CHECK_FAILED.load(Ordering::Relaxed);
    if bad > 0 {
        run.inconclusive(&format!("R2 failed its self-validation on {bad} generated documents (harness defect, see samples)"));
    }
    run.finish();
}
