//! C14 — reported source positions are exact line and column numbers (parser level).
//!
//! Oracle: the printer's token table. LF, CRLF and a lone CR each end a line; columns count
//! Unicode scalar values; both 1-based.
//!   (a) tree positions: every `Positioned<T>.pos` of the crate's tree of a generated document
//!       equals the table position of the first token of that node (parallel walk of the crate's
//!       tree and the printer's positioned tree).
//!   (b) error positions, metamorphic: one token sequence (a near-miss mutant) is laid out twice,
//!       D with single spaces / LF between tokens and D' with hostile noise (CRLF, CR, tabs, BOM,
//!       commas, comments with non-ASCII). A position reported on D is mapped to (token k, offset
//!       o inside it) or to end of input; on D' the crate must report the position of (k, o) /
//!       end of input in D'. No assumption is made about which token an error points at.

use std::collections::HashMap;

use vh_core::serde_json::json;
use vh_core::{Rng, Run, rng};
use vh_r2::*;

use crate::common::*;
use crate::conv::crate_shape;
use crate::mutate::{mutate, noise_sensitive};

static SELF_CHECK_FAILED: std::sync::atomic::AtomicU64 = std::sync::atomic::AtomicU64::new(0);

/// Documents for C14 avoid the constructs on which the crate's parser disagrees with the grammar
/// (those belong to C13): C14 needs documents the crate parses into the right tree.
fn c14_gen_config(feats: &Features) -> GenConfig {
    GenConfig {
        enum_keyword_prefix: false,
        variable_directives: true,
        variable_default_and_directives: false,
        schema_description: false,
        extend_interface_implements_only: false,
        block_string_escaped_triple_quote: false,
        block_string_short_blank_line: false,
        block_string_lone_cr: feats.is_on("lone_cr"),
        directive_not_repeatable: false,
        negative_zero_int: false,
        int_beyond_u64: true,
        keywords_as_names: true,
        max_selection_depth: 4,
        max_value_depth: 3,
    }
}

fn c14_hostile(feats: &Features) -> NoiseConfig {
    let mut c = NoiseConfig::hostile();
    c.lone_cr = feats.is_on("lone_cr");
    c.inside_types = false; // C13: the crate rejects `[ Int ]`
    c.comment_after_on = false; // C13
    c
}

fn has_lone_cr(text: &str) -> bool {
    let c: Vec<char> = text.chars().collect();
    c.iter().enumerate().any(|(i, ch)| *ch == '\r' && c.get(i + 1) != Some(&'\n'))
}

fn tag_for(text: &str) -> &'static str {
    if has_lone_cr(text) { "lone_cr" } else { "no_lone_cr" }
}

/// (a): compare every position of the crate's tree with the token table. Returns the number of
/// positions compared, or None when the document cannot be used.
fn check_tree_positions(run: &Hot, origin: &str, printed: &Printed, class: DocClass) -> Option<usize> {
    let cd = match crate_parse(&printed.text, class) {
        CrateResult::Ok(d) => d,
        CrateResult::Err(_) => {
            run.count("tree:not_usable_crate_rejects", 1);
            return None;
        }
        CrateResult::Panic(m) => {
            run.count("tree:crate_panics", 1);
            run.violation(
                &format!("{origin}-tree-panic:{:016x}", rng::hash_str(&printed.text)),
                &format!("crate panicked while parsing a valid document: {m}\n  text: {}", show(&format!("{:?}", printed.text))),
                json!({"text": printed.text, "class": class_name(class)}),
            );
            return None;
        }
    };
    let want = crate_shape(&printed.doc);
    let got = cd.to_r2();
    if want != got {
        run.count("tree:not_usable_trees_differ", 1);
        return None;
    }
    let wp = all_positions(&want);
    let gp = all_positions(&got);
    let by_pos: HashMap<(usize, usize), usize> =
        printed.table.iter().enumerate().map(|(i, e)| ((e.line, e.col), i)).collect();
    let mut compared = 0;
    let mut wrong: Vec<String> = vec![];
    for ((w, label), (g, _)) in wp.iter().zip(&gp) {
        if *g == crate::conv::SENTINEL {
            continue; // the crate keeps no position here
        }
        compared += 1;
        run.seen("position_kinds_compared", label);
        if w != g {
            let tok = by_pos.get(w).map(|i| printed.tokens[*i].text.as_str()).unwrap_or("?");
            wrong.push(format!(
                "{label}: token {:?} is at {}:{}, crate says {}:{}",
                vh_core::run::truncate(tok, 30),
                w.0,
                w.1,
                g.0,
                g.1
            ));
        }
    }
    // the crate keeps a position on the selection and another on the field/spread/fragment inside
    if let CrateDoc::Exec(d) = &cd {
        for (outer, inner) in crate::conv::selection_wrapper_positions(d) {
            compared += 1;
            if outer != inner {
                wrong.push(format!("selection wrapper at {outer:?} but its node at {inner:?}"));
            }
        }
    }
    run.count("tree:positions_compared", compared as u64);
    if wrong.is_empty() {
        run.count("tree:documents_exact", 1);
    } else {
        let tag = tag_for(&printed.text);
        run.count(&format!("wrong:tree_positions[{tag}]"), 1);
        run.violation(
            &format!("{origin}-tree-pos[{tag}]:{:016x}", rng::hash_str(&printed.text)),
            &format!(
                "{} of {} tree positions are not the position of the node's first token; first: {}\n  text: {}",
                wrong.len(),
                compared,
                wrong[0],
                show(&format!("{:?}", printed.text))
            ),
            json!({"text": printed.text, "class": class_name(class), "wrong": wrong.iter().take(10).collect::<Vec<_>>()}),
        );
    }
    Some(compared)
}

fn class_name(c: DocClass) -> &'static str {
    match c {
        DocClass::TypeSystem => "type_system",
        _ => "executable",
    }
}

/// Where a character offset of a rendering lies.
#[derive(Debug, Clone, Copy, PartialEq, Eq)]
enum Place {
    /// token index and offset (in scalar values) inside the token
    Token(usize, usize),
    End,
    /// inside ignored material: cannot be carried over to another layout
    Gap,
}

fn locate(r: &Rendered, off: usize, total_chars: usize) -> Place {
    if off >= total_chars {
        return Place::End;
    }
    // binary search over the table
    let mut lo = 0usize;
    let mut hi = r.table.len();
    while lo < hi {
        let mid = (lo + hi) / 2;
        if r.table[mid].char_end <= off {
            lo = mid + 1;
        } else {
            hi = mid;
        }
    }
    match r.table.get(lo) {
        Some(e) if e.char_start <= off && off < e.char_end => Place::Token(lo, off - e.char_start),
        _ => Place::Gap,
    }
}

fn err_kind(e: &async_graphql_parser::Error) -> &'static str {
    use async_graphql_parser::Error as E;
    match e {
        E::Syntax { .. } => "Syntax",
        E::MultipleRoots { .. } => "MultipleRoots",
        E::MissingQueryRoot { .. } => "MissingQueryRoot",
        E::MultipleOperations { .. } => "MultipleOperations",
        E::OperationDuplicated { .. } => "OperationDuplicated",
        E::FragmentDuplicated { .. } => "FragmentDuplicated",
        E::MissingOperation => "MissingOperation",
        E::RecursionLimitExceeded => "RecursionLimitExceeded",
        _ => "Other",
    }
}

/// (b): one token sequence, two layouts.
fn check_error_positions(
    run: &Hot,
    origin: &str,
    feats: &Features,
    tokens: &[PToken],
    class: DocClass,
    r: &mut Rng,
    what: &str,
) {
    let mut plain_cfg = NoiseConfig::plain();
    plain_cfg.always_separate = true;
    let mut hostile_cfg = c14_hostile(feats);
    hostile_cfg.always_separate = true;
    let d = render(tokens, &mut RandomNoise::new(plain_cfg, r.fork(3)));
    let d2 = render(tokens, &mut RandomNoise::new(hostile_cfg, r.fork(4)));
    let (c1, c2) = (crate_parse(&d.text, class), crate_parse(&d2.text, class));
    let (e1, e2) = match (&c1, &c2) {
        (CrateResult::Err(e1), CrateResult::Err(e2)) => (e1, e2),
        (CrateResult::Ok(_), CrateResult::Ok(_)) => {
            run.count("error:pair_accepted_by_crate", 1);
            return;
        }
        (CrateResult::Panic(_), _) | (_, CrateResult::Panic(_)) => {
            run.count("error:crate_panics", 1);
            return;
        }
        _ => {
            // accept/reject depends on the noise: a C13 matter, counted here
            run.count("error:verdict_depends_on_noise", 1);
            run.sample_upto(12, json!({"verdict_depends_on_noise": {"plain": d.text, "hostile": d2.text}}));
            return;
        }
    };
    run.eval();
    if err_kind(e1) != err_kind(e2) {
        run.count("error:kind_depends_on_noise", 1);
        run.sample_upto(12, json!({"error_kind_depends_on_noise": {"plain": d.text, "hostile": d2.text,
            "plain_error": e1.to_string(), "hostile_error": e2.to_string()}}));
        return;
    }
    run.seen("error_kinds_compared", err_kind(e1));
    let p1: Vec<(usize, usize)> = e1.positions().map(|p| (p.line, p.column)).collect();
    let p2: Vec<(usize, usize)> = e2.positions().map(|p| (p.line, p.column)).collect();
    if p1.is_empty() {
        run.count("error:no_position", 1);
        return;
    }
    let idx1 = LineIndex::new(&d.text);
    let idx2 = LineIndex::new(&d2.text);
    let case = || json!({"plain": d.text, "hostile": d2.text, "class": class_name(class), "mutation": what,
            "plain_positions": p1, "hostile_positions": p2, "error": e1.to_string()});
    if p1.len() != p2.len() {
        run.violation(
            &format!("{origin}-err-count:{:016x}", rng::hash_str(&d2.text)),
            &format!("the same error reports {} positions on one layout and {} on the other", p1.len(), p2.len()),
            case(),
        );
        return;
    }
    run.nontrivial(rng::hash_str(&d2.text));
    for (k, (a, b)) in p1.iter().zip(&p2).enumerate() {
        // the plain layout: the position must denote a character of D
        let Some(off) = idx1.index_of(a.0, a.1) else {
            let tag = tag_for(&d.text);
            run.count(&format!("wrong:error_position_outside_text[{tag}]"), 1);
            run.violation(
                &format!("{origin}-err-nowhere[{tag}]:{:016x}", rng::hash_str(&d.text)),
                &format!(
                    "error position #{k} {}:{} of a {} error does not exist in the text (plain layout)\n  text: {}",
                    a.0,
                    a.1,
                    err_kind(e1),
                    show(&format!("{:?}", d.text))
                ),
                case(),
            );
            continue;
        };
        let place = locate(&d, off, idx1.len_chars());
        let want = match place {
            Place::Gap => {
                run.count("error:position_in_ignored_text_not_mappable", 1);
                run.sample_upto(12, json!({"position_inside_ignored_text": {"plain": d.text, "pos": a, "error": e1.to_string()}}));
                continue;
            }
            Place::End => {
                run.count("error:mapped_to_end_of_input", 1);
                idx2.pos(idx2.len_chars())
            }
            Place::Token(t, o) => {
                if o == 0 {
                    run.count("error:mapped_to_token_start", 1);
                } else {
                    run.count("error:mapped_inside_token", 1);
                }
                idx2.pos(d2.table[t].char_start + o)
            }
        };
        if want == *b {
            run.count("error:positions_exact", 1);
        } else if err_kind(e1) == "MultipleOperations"
            && k == 1
            && matches!(
                idx2.index_of(b.0, b.1).map(|o| locate(&d2, o, idx2.len_chars())),
                Some(Place::Token(t, 0)) if matches!(tokens[t].text.as_str(), "query" | "mutation" | "subscription" | "{")
            )
        {
            // parse_query picks "the other operation" out of a HashMap (`map.values().next()`): which
            // named operation it reports differs from call to call. It is the exact start of an
            // operation, so the property holds; the choice is arbitrary.
            run.count("error:multiple_operations_other_operation_is_an_arbitrary_one", 1);
        } else {
            let tag = tag_for(&d2.text);
            run.count(&format!("wrong:error_positions[{tag}]"), 1);
            run.violation(
                &format!("{origin}-err-pos[{tag}]:{:016x}", rng::hash_str(&d2.text)),
                &format!(
                    "{} error, position #{k}: on the plain layout it is {}:{} = {:?}; the same place in the hostile \
                     layout is {}:{} but the crate reports {}:{}\n  hostile text: {}",
                    err_kind(e1),
                    a.0,
                    a.1,
                    place,
                    want.0,
                    want.1,
                    b.0,
                    b.1,
                    show(&format!("{:?}", d2.text))
                ),
                case(),
            );
        }
    }
}

fn one_document(run: &Hot, feats: &Features, cfg: &GenConfig, r: &mut Rng, mutants: u64) {
    let class = if r.chance(7, 10) { DocClass::Executable } else { DocClass::TypeSystem };
    let doc = match class {
        DocClass::TypeSystem => gen_type_system(r, cfg),
        _ => gen_executable(r, cfg),
    };
    let opts = PrintOptions { leading_separators: r.next_u64() };
    let mut noise = RandomNoise::new(c14_hostile(feats), r.fork(1));
    let printed = print(&doc, &opts, &mut noise);
    if let Err(e) = self_check(&doc, class, &printed) {
        run.count("r2_self_check_failed", 1);
        SELF_CHECK_FAILED.fetch_add(1, std::sync::atomic::Ordering::Relaxed);
        run.sample_upto(8, json!({"r2_self_check_failed": e, "text": printed.text}));
        return;
    }
    run.eval();
    run.sample(|| json!({"class": class_name(class), "text": printed.text, "tokens": printed.tokens.len()}));
    if check_tree_positions(run, "gen", &printed, class).is_some() && printed.text.contains(['\r', '\t', '\u{feff}', '#']) {
        run.nontrivial(rng::hash_str(&printed.text));
    }
    let allowed = |op: &str| op != "comment_control_char";
    for _ in 0..mutants {
        let Some(m) = mutate(r, &printed.tokens, &printed.def_starts, &allowed) else { continue };
        if let Some(i) = m.touched {
            if noise_sensitive(&m.tokens[i].text) {
                run.count("error:mutant_swallows_following_text_skipped", 1);
                continue;
            }
        }
        run.seen("mutation_operators", &format!("{}/{}", m.op, m.detail));
        check_error_positions(run, "mut", feats, &m.tokens, class, r, &format!("{}/{}", m.op, m.detail));
    }
}

// ------------------------------------------------------------------ witnesses

struct TreeWitness {
    id: &'static str,
    class: DocClass,
    text: &'static str,
}

const TREE_WITNESSES: &[TreeWitness] = &[
    TreeWitness { id: "C14-lone-cr-field", class: DocClass::Executable, text: "{\r  dogg }" },
    TreeWitness { id: "C14-lone-cr-type-system", class: DocClass::TypeSystem, text: "type A {\r a: Int\r b: Int }" },
    TreeWitness { id: "C14-crlf-field", class: DocClass::Executable, text: "{\r\n  dogg }" },
    TreeWitness { id: "C14-bom-non-ascii-comment", class: DocClass::Executable, text: "\u{feff}# é中😀\n{ a }" },
];

struct ErrorWitness {
    id: &'static str,
    class: DocClass,
    text: &'static str,
    /// the place the error must point at, as an offset in scalar values (checked against D itself:
    /// the witness is only used with texts whose error position is known from the plain variant)
    plain: &'static str,
}

const ERROR_WITNESSES: &[ErrorWitness] = &[
    ErrorWitness { id: "C14-lone-cr-syntax-error", class: DocClass::Executable, text: "{\r  a(b: ) }", plain: "{\n  a(b: ) }" },
    ErrorWitness { id: "C14-lone-cr-duplicate-operation", class: DocClass::Executable, text: "query A { a }\rquery A { b }", plain: "query A { a }\nquery A { b }" },
    ErrorWitness { id: "C14-crlf-syntax-error", class: DocClass::Executable, text: "{\r\n  a(b: ) }", plain: "{\n  a(b: ) }" },
];

fn witnesses(run: &Run) {
    for w in TREE_WITNESSES {
        run.eval();
        let Ok(parsed) = parse(w.text, w.class, &Options::default()) else {
            run.inconclusive(&format!("witness {} is not a valid document for R2", w.id));
            continue;
        };
        let CrateResult::Ok(cd) = crate_parse(w.text, w.class) else {
            run.count("witness_not_usable", 1);
            continue;
        };
        let want = crate_shape(&parsed.doc);
        let got = cd.to_r2();
        if want != got {
            run.count("witness_not_usable", 1);
            continue;
        }
        let wrong: Vec<String> = all_positions(&want)
            .iter()
            .zip(&all_positions(&got))
            .filter(|((w, _), (g, _))| *g != crate::conv::SENTINEL && w != g)
            .map(|((w, l), (g, _))| format!("{l} at {}:{} reported as {}:{}", w.0, w.1, g.0, g.1))
            .collect();
        if wrong.is_empty() {
            run.count("witnesses_exact", 1);
        } else {
            run.count("witnesses_wrong", 1);
            let obs = if wrong.len() > 3 {
                format!("{} (+{} more)", wrong[..3].join("; "), wrong.len() - 3)
            } else {
                wrong.join("; ")
            };
            if std::env::var("VH_PRINT_WITNESS_SIGS").is_ok() {
                eprintln!("WITNESS-SIG\t{}\ttree[lone_cr]\t{}", w.id, vh_core::serde_json::to_string(&format!("{}|{}", w.id, obs)).unwrap());
            }
            run.violation(
                &format!("{}|{}", w.id, obs),
                &format!("witness {}: {obs}\n  document: {:?}", w.id, w.text),
                json!({"witness": w.id, "text": w.text, "wrong": wrong}),
            );
        }
    }
    for w in ERROR_WITNESSES {
        run.eval();
        let (CrateResult::Err(e1), CrateResult::Err(e2)) = (crate_parse(w.plain, w.class), crate_parse(w.text, w.class))
        else {
            run.count("witness_not_usable", 1);
            continue;
        };
        // same tokens, same offsets inside the line structure: map through character offsets
        // (the two texts differ only in the spelling of one line terminator of equal length)
        let (i1, i2) = (LineIndex::new(w.plain), LineIndex::new(w.text));
        let mut wrong = vec![];
        for (a, b) in e1.positions().zip(e2.positions()) {
            match i1.index_of(a.line, a.column) {
                Some(off) => {
                    // CRLF is one character longer than LF: shift offsets after the terminator
                    let shift = w.text.chars().count() - w.plain.chars().count();
                    let first_lt = w.plain.chars().position(|c| c == '\n').unwrap_or(0);
                    let off2 = if off > first_lt { off + shift } else { off };
                    let want = i2.pos(off2);
                    if want != (b.line, b.column) {
                        wrong.push(format!("{}:{} reported as {}:{}", want.0, want.1, b.line, b.column));
                    }
                }
                None => wrong.push(format!("plain position {}:{} does not exist", a.line, a.column)),
            }
        }
        if wrong.is_empty() {
            run.count("witnesses_exact", 1);
        } else {
            run.count("witnesses_wrong", 1);
            let obs = if wrong.len() > 3 {
                format!("{} (+{} more)", wrong[..3].join("; "), wrong.len() - 3)
            } else {
                wrong.join("; ")
            };
            if std::env::var("VH_PRINT_WITNESS_SIGS").is_ok() {
                eprintln!("WITNESS-SIG\t{}\terror[lone_cr]\t{}", w.id, vh_core::serde_json::to_string(&format!("{}|{}", w.id, obs)).unwrap());
            }
            run.violation(
                &format!("{}|{}", w.id, obs),
                &format!("witness {} ({} error): {obs}\n  document: {:?}", w.id, err_kind(&e2), w.text),
                json!({"witness": w.id, "text": w.text, "wrong": wrong}),
            );
        }
    }
}

fn replay(run: &Run, feats: &Features, path: &std::path::Path) {
    let Ok(body) = std::fs::read_to_string(path) else {
        run.inconclusive("replay file unreadable");
        return;
    };
    let j: vh_core::serde_json::Value = vh_core::serde_json::from_str(&body).unwrap_or_default();
    let case = if j["case"].is_object() { &j["case"] } else { &j };
    let class = if case["class"].as_str() == Some("type_system") { DocClass::TypeSystem } else { DocClass::Executable };
    let _ = feats;
    for key in ["text", "plain", "hostile"] {
        let Some(text) = case[key].as_str() else { continue };
        println!("{key}: {text:?}");
        match crate_parse(text, class) {
            CrateResult::Ok(d) => {
                println!("  crate accepts; positions: {:?}", all_positions(&d.to_r2()));
                if let Ok(p) = parse(text, class, &Options::default()) {
                    println!("  R2 positions:              {:?}", all_positions(&crate_shape(&p.doc)));
                }
            }
            CrateResult::Err(e) => {
                let ps: Vec<(usize, usize)> = e.positions().map(|p| (p.line, p.column)).collect();
                println!("  crate rejects ({}) at {ps:?}", err_kind(&e));
            }
            CrateResult::Panic(m) => println!("  crate panics: {m}"),
        }
        run.eval();
    }
}

pub fn main() {
    let mut run = Run::from_args(
        "exploration",
        "(a) random executable/type-system documents from the R2 generator printed with hostile noise before every \
         kind of token (tabs, LF/CRLF/CR, commas, BOM, comments with non-ASCII; block strings spanning lines): every \
         Positioned<T>.pos of the crate's tree against the printer's token table; (b) near-miss mutants of their token \
         sequences laid out twice (plain spaces/LF vs hostile noise): positions of parse errors (Error::positions) \
         mapped from one layout to the other; a case is non-trivial when the layout contains CR, tab, BOM or a comment; \
         distinct by hash of the text",
    );
    run.assume("R2's printer computes the token table with an independent line/column counter (LineIndex); R2's own parser must reproduce the table on every generated document (self_check)");
    run.assume("a node's position is the start of its first token; for a variable definition's name it is the name token after `$` (the field is documented as the name without `$`)");
    run.assume("the crate keeps no position for: operation and fragment names, values nested in lists/objects, inner types of list types, the operation keyword of a root operation type definition; those are not compared");
    run.assume("documents avoid the constructs on which the crate's parser disagrees with the grammar (C13 findings: whitespace inside types, comment after `on`, ...), because a position check needs a correctly parsed tree");
    run.assume("(b) compares two layouts of one token sequence; mutants whose changed token can swallow following text (unterminated string, `#`) are skipped; a position inside ignored text cannot be carried over and is counted, not judged");
    run.assume("validation and execution error locations are checked by another engine");
    let feats = Features::from_run(&run);
    let cfg = c14_gen_config(&feats);
    // sized for ~2.5 min on an idle 16-core machine; under load the time budget ends the run earlier
    let docs = run.scale(20_000, 2_500_000);
    let budget_s = run.scale(45, 420) as f64;
    let mutants = 3u64;
    run.set_floors(run.scale(40_000, 1_000_000), run.scale(20_000, 500_000));
    run.set_max_samples(4);
    run.require_counter("tree:documents_exact");
    run.require_counter("error:positions_exact");
    run.require_counter("error:mapped_to_token_start");

    if let Some(path) = run.replay.clone() {
        replay(&run, &feats, &path);
        run.finish();
    }

    witnesses(&run);

    let shards = 16u64;
    let failed = sharded(shards, |shard| {
        let mut r = Rng::new(rng::mix(&[run.seed, 14, shard]));
        let hot = Hot::new(&run);
        for i in 0..docs / shards {
            // the machine is shared: stop at the time budget and report what was measured
            if i % 64 == 0 && run.elapsed_s() > budget_s {
                hot.count("shards_stopped_by_time_budget", 1);
                break;
            }
            one_document(&hot, &feats, &cfg, &mut r, mutants);
        }
    });
    if failed > 0 {
        run.inconclusive(&format!("{failed} worker thread(s) of the harness panicked"));
    }
    let bad = SELF_CHECK_FAILED.load(std::sync::atomic::Ordering::Relaxed);
    if bad > 0 {
        run.inconclusive(&format!("R2 failed its self-validation on {bad} generated documents (harness defect, see samples)"));
    }
    run.finish();
}
