//! Shared by C13 and C14: feature switches, calling the crate's parser, sharding.

use async_graphql_parser::types::{ExecutableDocument, ServiceDocument};
use async_graphql_parser::{Error as CError, parse_query, parse_schema};
use vh_core::{Run, catch};
use vh_r2::*;

/// Generator / noise / mutation features of this engine. Each is on unless a
/// *known* finding of the running property excludes it.
pub const FEATURES: [&str; 21] = [
    // constructs of valid documents (R2 tags them in `Parsed::features`)
    "type_inner_whitespace",
    "comment_after_on",
    "variable_default_and_directives",
    "enum_keyword_prefix",
    "schema_description",
    "extend_interface_implements_only",
    "block_string_escaped_triple_quote",
    "block_string_short_blank_line",
    "negative_zero_int",
    "directive_not_repeatable",
    // line terminators (C14)
    "lone_cr",
    // invalid documents the crate is known to accept (classes of R2 rejections)
    "lenient_leading_zero",
    "lenient_keyword_prefix",
    "lenient_empty_variable_definitions",
    "lenient_variable_directives_before_default",
    "lenient_variable_in_const_directive",
    "lenient_fragment_named_on",
    "lenient_number_lookahead",
    "lenient_control_char_between_tokens",
    "lenient_triple_quote_as_empty_string",
    "lenient_other",
];

pub struct Features {
    pub on: std::collections::BTreeMap<&'static str, bool>,
}

impl Features {
    pub fn from_run(run: &Run) -> Features {
        Features { on: FEATURES.iter().map(|f| (*f, run.feature(f))).collect() }
    }
    pub fn is_on(&self, f: &str) -> bool {
        self.on.get(f).copied().unwrap_or(true)
    }
    pub fn gen_config(&self) -> GenConfig {
        GenConfig {
            enum_keyword_prefix: self.is_on("enum_keyword_prefix"),
            variable_directives: true,
            variable_default_and_directives: self.is_on("variable_default_and_directives"),
            schema_description: self.is_on("schema_description"),
            extend_interface_implements_only: self.is_on("extend_interface_implements_only"),
            block_string_escaped_triple_quote: self.is_on("block_string_escaped_triple_quote"),
            block_string_short_blank_line: self.is_on("block_string_short_blank_line"),
            block_string_lone_cr: self.is_on("lone_cr"),
            negative_zero_int: self.is_on("negative_zero_int"),
            directive_not_repeatable: self.is_on("directive_not_repeatable"),
            int_beyond_u64: true,
            keywords_as_names: true,
            max_selection_depth: 4,
            max_value_depth: 3,
        }
    }
    /// G7 noise with everything the known findings do not exclude.
    pub fn hostile_noise(&self) -> NoiseConfig {
        let mut c = NoiseConfig::hostile();
        c.lone_cr = self.is_on("lone_cr");
        c.inside_types = self.is_on("type_inner_whitespace");
        c.comment_after_on = self.is_on("comment_after_on");
        c
    }
}

pub enum CrateDoc {
    Exec(Box<ExecutableDocument>),
    Service(Box<ServiceDocument>),
}

impl CrateDoc {
    /// The crate's tree in R2 shape, with the crate's positions.
    pub fn to_r2(&self) -> Document {
        match self {
            CrateDoc::Exec(d) => crate::conv::executable(d),
            CrateDoc::Service(d) => crate::conv::service(d),
        }
    }
}

pub enum CrateResult {
    Ok(CrateDoc),
    Err(CError),
    Panic(String),
}

pub fn crate_parse(text: &str, class: DocClass) -> CrateResult {
    let r = catch(|| match class {
        DocClass::TypeSystem => parse_schema(text).map(|d| CrateDoc::Service(Box::new(d))),
        _ => parse_query(text).map(|d| CrateDoc::Exec(Box::new(d))),
    });
    match r {
        Ok(Ok(d)) => CrateResult::Ok(d),
        Ok(Err(e)) => CrateResult::Err(e),
        Err(p) => CrateResult::Panic(p),
    }
}

/// R2's verdict on a text: grammar plus the document-level rules of the crate's parser.
pub enum R2Verdict {
    Accept(Parsed),
    RejectSyntax(SyntaxError),
    RejectRule(RuleViolation),
}

pub const DEPTH_LIMIT: usize = 64;

pub fn r2_verdict(text: &str, class: DocClass, o: &Options) -> R2Verdict {
    match parse(text, class, o) {
        Err(e) => R2Verdict::RejectSyntax(e),
        Ok(p) => {
            let v = match class {
                DocClass::TypeSystem => validate_type_system(&p.doc),
                _ => validate_executable(&p.doc, Some(DEPTH_LIMIT)),
            };
            match v {
                Ok(()) => R2Verdict::Accept(p),
                Err(r) => R2Verdict::RejectRule(r),
            }
        }
    }
}

/// Run `f(shard)` on `shards` threads with a 64 MiB stack each.
pub fn sharded(shards: u64, f: impl Fn(u64) + Sync) -> u64 {
    std::thread::scope(|s| {
        let f = &f;
        let mut hs = vec![];
        for shard in 0..shards {
            let h = std::thread::Builder::new()
                .name(format!("shard-{shard}"))
                .stack_size(64 << 20)
                .spawn_scoped(s, move || f(shard))
                .expect("spawn shard");
            hs.push(h);
        }
        let mut failed = 0;
        for h in hs {
            if h.join().is_err() {
                failed += 1;
            }
        }
        failed
    })
}

/// Per-thread buffer in front of `Run` (whose methods take a lock): counters,
/// observed sets, evaluation count and distinct-case hashes are collected
/// locally and flushed in batches.
#[derive(Default)]
pub struct Local {
    counters: std::collections::HashMap<String, u64>,
    sets: std::collections::HashSet<(String, String)>,
    new_sets: Vec<(String, String)>,
    evals: u64,
    hashes: Vec<u64>,
}

impl Local {
    pub fn count(&mut self, name: &str, n: u64) {
        if let Some(c) = self.counters.get_mut(name) {
            *c += n;
        } else {
            self.counters.insert(name.to_string(), n);
        }
    }
    pub fn seen(&mut self, set: &str, member: &str) {
        let key = (set.to_string(), member.to_string());
        if !self.sets.contains(&key) {
            self.sets.insert(key.clone());
            self.new_sets.push(key);
        }
    }
    pub fn eval(&mut self) {
        self.evals += 1;
    }
    pub fn nontrivial(&mut self, h: u64) {
        self.hashes.push(h);
    }
    pub fn maybe_flush(&mut self, run: &Run) {
        if self.hashes.len() >= 2000 || self.evals >= 5000 {
            self.flush(run);
        }
    }
    pub fn flush(&mut self, run: &Run) {
        for (k, v) in self.counters.drain() {
            run.count(&k, v);
        }
        for (s, m) in self.new_sets.drain(..) {
            run.seen(&s, &m);
        }
        if self.evals > 0 {
            run.evals(self.evals);
            self.evals = 0;
        }
        for h in self.hashes.drain(..) {
            run.nontrivial(h);
        }
    }
}

/// A per-thread front of `Run` with the same method names: cheap observations
/// are buffered in a `Local`, rare ones (samples, violations) go straight through.
pub struct Hot<'a> {
    pub run: &'a Run,
    local: std::cell::RefCell<Local>,
    samples: std::cell::Cell<u32>,
    violations: std::cell::Cell<u64>,
    hashed: std::cell::Cell<u64>,
}

impl<'a> Hot<'a> {
    pub fn new(run: &'a Run) -> Hot<'a> {
        Hot {
            run,
            local: Default::default(),
            samples: std::cell::Cell::new(0),
            violations: std::cell::Cell::new(0),
            hashed: std::cell::Cell::new(0),
        }
    }
    pub fn count(&self, name: &str, n: u64) {
        self.local.borrow_mut().count(name, n);
    }
    pub fn seen(&self, set: &str, member: &str) {
        self.local.borrow_mut().seen(set, member);
    }
    pub fn eval(&self) {
        let mut l = self.local.borrow_mut();
        l.eval();
        l.maybe_flush(self.run);
    }
    /// At most 250 000 hashes per thread are kept (the distinct count in the evidence is then a
    /// lower bound; the rest is counted in `nontrivial_cases_beyond_hash_cap`).
    pub fn nontrivial(&self, h: u64) {
        let n = self.hashed.get();
        if n < 250_000 {
            self.hashed.set(n + 1);
            self.local.borrow_mut().nontrivial(h);
        } else {
            self.count("nontrivial_cases_beyond_hash_cap", 1);
        }
    }
    /// Only the first few calls of a thread reach `Run::sample` (which keeps the first few overall).
    pub fn sample(&self, v: impl FnOnce() -> vh_core::serde_json::Value) {
        if self.samples.get() < 3 {
            self.samples.set(self.samples.get() + 1);
            self.run.sample(v());
        }
    }
    pub fn sample_upto(&self, n: usize, v: vh_core::serde_json::Value) {
        self.run.sample_upto(n, v);
    }
    /// Forwarded to `Run::violation`; after 2000 per thread the rest is only counted
    /// (`violations_beyond_cap_only_counted`, plus the per-class `wrong:*` counters), so that a tree
    /// with a systematic defect does not make the run keep millions of signatures.
    pub fn violation(&self, signature: &str, what: &str, replay: vh_core::serde_json::Value) {
        let n = self.violations.get();
        self.violations.set(n + 1);
        if n < 2000 {
            self.run.violation(signature, what, replay);
        } else {
            self.count("violations_beyond_cap_only_counted", 1);
        }
    }
    pub fn flush(&self) {
        self.local.borrow_mut().flush(self.run);
    }
}

impl Drop for Hot<'_> {
    fn drop(&mut self) {
        self.flush();
    }
}

pub fn show(text: &str) -> String {
    vh_core::run::truncate(text, 600)
}
