//! async-graphql's syntax tree -> R2 tree shape ("crate shape"), carrying the
//! crate's positions, and the matching normalisation of an R2 tree.
//!
//! Crate shape (what async-graphql's AST can represent):
//!   * operations sorted by name (anonymous first), then fragments sorted by name
//!     (the crate keeps them in hash maps);
//!   * numbers in a canonical form (i64 / u64 decimal, or f64 by bits);
//!   * strings without the block flag; no `shorthand` flag;
//!   * root operations of a schema definition in the order query, mutation, subscription.
//! Positions the crate does not keep (operation and fragment names, values
//! nested in lists/objects, inner types of list types) are `SENTINEL`.

use async_graphql_parser::types as ct;
use async_graphql_parser::{Pos as CPos, Positioned};
use async_graphql_value::{ConstValue, Number, Value as CValue};
use vh_r2::*;

pub const SENTINEL: (usize, usize) = (0, 0);

fn p(c: CPos) -> Pos {
    Pos::new(c.line, c.column)
}
fn sentinel() -> Pos {
    Pos::new(0, 0)
}
fn name(n: &Positioned<async_graphql_value::Name>) -> Name {
    Name { pos: p(n.pos), value: n.node.to_string() }
}

fn canon_f64(f: f64) -> ValueKind {
    ValueKind::Float(format!("{:e}#{:016x}", f, f.to_bits()))
}

pub fn canon_number(n: &Number) -> ValueKind {
    if let Some(i) = n.as_i64() {
        ValueKind::Int(i.to_string())
    } else if let Some(u) = n.as_u64() {
        ValueKind::Int(u.to_string())
    } else {
        canon_f64(n.as_f64().unwrap_or(f64::NAN))
    }
}

/// Canonical form of an R2 number lexeme. Integers outside i64/u64 are
/// compared as the nearest f64 (representation limit of the crate's Number).
pub fn canon_lexeme(kind: &ValueKind) -> ValueKind {
    match kind {
        ValueKind::Int(s) => {
            if let Ok(i) = s.parse::<i64>() {
                ValueKind::Int(i.to_string())
            } else if let Ok(u) = s.parse::<u64>() {
                ValueKind::Int(u.to_string())
            } else {
                canon_f64(s.parse::<f64>().unwrap_or(f64::NAN))
            }
        }
        ValueKind::Float(s) => canon_f64(s.parse::<f64>().unwrap_or(f64::NAN)),
        other => other.clone(),
    }
}

fn const_value_kind(v: &ConstValue) -> ValueKind {
    match v {
        ConstValue::Null => ValueKind::Null,
        ConstValue::Number(n) => canon_number(n),
        ConstValue::String(s) => ValueKind::String(StringValue::quoted(s.clone())),
        ConstValue::Boolean(b) => ValueKind::Boolean(*b),
        ConstValue::Binary(_) => ValueKind::Enum("<binary>".into()),
        ConstValue::Enum(n) => ValueKind::Enum(n.to_string()),
        ConstValue::List(xs) => {
            ValueKind::List(xs.iter().map(|x| Value { pos: sentinel(), kind: const_value_kind(x) }).collect())
        }
        ConstValue::Object(m) => ValueKind::Object(
            m.iter()
                .map(|(k, x)| {
                    (Name { pos: sentinel(), value: k.to_string() }, Value { pos: sentinel(), kind: const_value_kind(x) })
                })
                .collect(),
        ),
    }
}
fn value_kind(v: &CValue) -> ValueKind {
    match v {
        CValue::Variable(n) => ValueKind::Variable(n.to_string()),
        CValue::Null => ValueKind::Null,
        CValue::Number(n) => canon_number(n),
        CValue::String(s) => ValueKind::String(StringValue::quoted(s.clone())),
        CValue::Boolean(b) => ValueKind::Boolean(*b),
        CValue::Binary(_) => ValueKind::Enum("<binary>".into()),
        CValue::Enum(n) => ValueKind::Enum(n.to_string()),
        CValue::List(xs) => ValueKind::List(xs.iter().map(|x| Value { pos: sentinel(), kind: value_kind(x) }).collect()),
        CValue::Object(m) => ValueKind::Object(
            m.iter()
                .map(|(k, x)| (Name { pos: sentinel(), value: k.to_string() }, Value { pos: sentinel(), kind: value_kind(x) }))
                .collect(),
        ),
    }
}
fn const_value(v: &Positioned<ConstValue>) -> Value {
    Value { pos: p(v.pos), kind: const_value_kind(&v.node) }
}
fn value(v: &Positioned<CValue>) -> Value {
    Value { pos: p(v.pos), kind: value_kind(&v.node) }
}

fn ty_inner(t: &ct::Type, pos: Pos) -> Type {
    Type {
        pos,
        non_null: !t.nullable,
        base: match &t.base {
            ct::BaseType::Named(n) => TypeBase::Named(n.to_string()),
            ct::BaseType::List(inner) => TypeBase::List(Box::new(ty_inner(inner, sentinel()))),
        },
    }
}
fn ty(t: &Positioned<ct::Type>) -> Type {
    ty_inner(&t.node, p(t.pos))
}

fn directive(d: &Positioned<ct::Directive>) -> Directive {
    Directive {
        pos: p(d.pos),
        name: name(&d.node.name),
        arguments: d.node.arguments.iter().map(|(n, v)| Argument { name: name(n), value: value(v) }).collect(),
    }
}
fn const_directive(d: &Positioned<ct::ConstDirective>) -> Directive {
    Directive {
        pos: p(d.pos),
        name: name(&d.node.name),
        arguments: d.node.arguments.iter().map(|(n, v)| Argument { name: name(n), value: const_value(v) }).collect(),
    }
}

fn selection_set(s: &Positioned<ct::SelectionSet>) -> SelectionSet {
    SelectionSet {
        pos: p(s.pos),
        items: s
            .node
            .items
            .iter()
            .map(|it| match &it.node {
                ct::Selection::Field(f) => Selection::Field(Field {
                    // the crate has two positions here (selection and field): both must be the same token
                    pos: p(f.pos),
                    alias: f.node.alias.as_ref().map(name),
                    name: name(&f.node.name),
                    arguments: f.node.arguments.iter().map(|(n, v)| Argument { name: name(n), value: value(v) }).collect(),
                    directives: f.node.directives.iter().map(directive).collect(),
                    selection_set: if f.node.selection_set.node.items.is_empty() {
                        None
                    } else {
                        Some(selection_set(&f.node.selection_set))
                    },
                }),
                ct::Selection::FragmentSpread(sp) => Selection::FragmentSpread(FragmentSpread {
                    pos: p(sp.pos),
                    name: name(&sp.node.fragment_name),
                    directives: sp.node.directives.iter().map(directive).collect(),
                }),
                ct::Selection::InlineFragment(inf) => Selection::InlineFragment(InlineFragment {
                    pos: p(inf.pos),
                    type_condition: inf
                        .node
                        .type_condition
                        .as_ref()
                        .map(|tc| TypeCondition { pos: p(tc.pos), name: name(&tc.node.on) }),
                    directives: inf.node.directives.iter().map(directive).collect(),
                    selection_set: selection_set(&inf.node.selection_set),
                }),
            })
            .collect(),
    }
}

/// Positions of `Positioned<Selection>` wrappers next to the position of the
/// node they wrap (the crate stores both); returned for the C14 check.
pub fn selection_wrapper_positions(doc: &ct::ExecutableDocument) -> Vec<((usize, usize), (usize, usize))> {
    fn walk(s: &ct::SelectionSet, out: &mut Vec<((usize, usize), (usize, usize))>) {
        for it in &s.items {
            let outer = (it.pos.line, it.pos.column);
            match &it.node {
                ct::Selection::Field(f) => {
                    out.push((outer, (f.pos.line, f.pos.column)));
                    walk(&f.node.selection_set.node, out);
                }
                ct::Selection::FragmentSpread(sp) => out.push((outer, (sp.pos.line, sp.pos.column))),
                ct::Selection::InlineFragment(inf) => {
                    out.push((outer, (inf.pos.line, inf.pos.column)));
                    walk(&inf.node.selection_set.node, out);
                }
            }
        }
    }
    let mut out = vec![];
    for (_, op) in doc.operations.iter() {
        walk(&op.node.selection_set.node, &mut out);
    }
    for f in doc.fragments.values() {
        walk(&f.node.selection_set.node, &mut out);
    }
    out
}

fn operation(name: Option<&async_graphql_value::Name>, o: &Positioned<ct::OperationDefinition>) -> OperationDefinition {
    OperationDefinition {
        pos: p(o.pos),
        kind: match o.node.ty {
            ct::OperationType::Query => OperationKind::Query,
            ct::OperationType::Mutation => OperationKind::Mutation,
            ct::OperationType::Subscription => OperationKind::Subscription,
        },
        shorthand: false,
        name: name.map(|n| Name { pos: sentinel(), value: n.to_string() }),
        variables: o
            .node
            .variable_definitions
            .iter()
            .map(|v| VariableDefinition {
                pos: p(v.pos),
                name: self::name(&v.node.name),
                ty: ty(&v.node.var_type),
                default_value: v.node.default_value.as_ref().map(const_value),
                directives: v.node.directives.iter().map(directive).collect(),
            })
            .collect(),
        directives: o.node.directives.iter().map(directive).collect(),
        selection_set: selection_set(&o.node.selection_set),
    }
}

pub fn executable(doc: &ct::ExecutableDocument) -> Document {
    let mut ops: Vec<OperationDefinition> = match &doc.operations {
        ct::DocumentOperations::Single(o) => vec![operation(None, o)],
        ct::DocumentOperations::Multiple(m) => m.iter().map(|(n, o)| operation(Some(n), o)).collect(),
    };
    ops.sort_by(|a, b| a.name.as_ref().map(|n| &n.value).cmp(&b.name.as_ref().map(|n| &n.value)));
    let mut frs: Vec<FragmentDefinition> = doc
        .fragments
        .iter()
        .map(|(n, f)| FragmentDefinition {
            pos: p(f.pos),
            name: Name { pos: sentinel(), value: n.to_string() },
            type_condition: TypeCondition { pos: p(f.node.type_condition.pos), name: name(&f.node.type_condition.node.on) },
            directives: f.node.directives.iter().map(directive).collect(),
            selection_set: selection_set(&f.node.selection_set),
        })
        .collect();
    frs.sort_by(|a, b| a.name.value.cmp(&b.name.value));
    let mut definitions: Vec<Definition> = ops.into_iter().map(Definition::Operation).collect();
    definitions.extend(frs.into_iter().map(Definition::Fragment));
    Document { definitions }
}

fn description(d: &Option<Positioned<String>>) -> Option<Description> {
    d.as_ref().map(|d| Description { pos: p(d.pos), value: StringValue::quoted(d.node.clone()) })
}

fn input_value(v: &Positioned<ct::InputValueDefinition>) -> InputValueDefinition {
    InputValueDefinition {
        pos: p(v.pos),
        description: description(&v.node.description),
        name: name(&v.node.name),
        ty: ty(&v.node.ty),
        default_value: v.node.default_value.as_ref().map(const_value),
        directives: v.node.directives.iter().map(const_directive).collect(),
    }
}

fn fields(fs: &[Positioned<ct::FieldDefinition>]) -> Vec<FieldDefinition> {
    fs.iter()
        .map(|f| FieldDefinition {
            pos: p(f.pos),
            description: description(&f.node.description),
            name: name(&f.node.name),
            arguments: f.node.arguments.iter().map(input_value).collect(),
            ty: ty(&f.node.ty),
            directives: f.node.directives.iter().map(const_directive).collect(),
        })
        .collect()
}

fn location_name(l: ct::DirectiveLocation) -> &'static str {
    use ct::DirectiveLocation as L;
    match l {
        L::Query => "QUERY",
        L::Mutation => "MUTATION",
        L::Subscription => "SUBSCRIPTION",
        L::Field => "FIELD",
        L::FragmentDefinition => "FRAGMENT_DEFINITION",
        L::FragmentSpread => "FRAGMENT_SPREAD",
        L::InlineFragment => "INLINE_FRAGMENT",
        L::Schema => "SCHEMA",
        L::Scalar => "SCALAR",
        L::Object => "OBJECT",
        L::FieldDefinition => "FIELD_DEFINITION",
        L::ArgumentDefinition => "ARGUMENT_DEFINITION",
        L::Interface => "INTERFACE",
        L::Union => "UNION",
        L::Enum => "ENUM",
        L::EnumValue => "ENUM_VALUE",
        L::InputObject => "INPUT_OBJECT",
        L::InputFieldDefinition => "INPUT_FIELD_DEFINITION",
        L::VariableDefinition => "VARIABLE_DEFINITION",
    }
}

pub fn service(doc: &ct::ServiceDocument) -> Document {
    let mut definitions = vec![];
    for d in &doc.definitions {
        let t = match d {
            ct::TypeSystemDefinition::Schema(s) => {
                let mut roots = vec![];
                for (kind, n) in [
                    (OperationKind::Query, &s.node.query),
                    (OperationKind::Mutation, &s.node.mutation),
                    (OperationKind::Subscription, &s.node.subscription),
                ] {
                    if let Some(n) = n {
                        // the crate does not keep the position of the operation keyword
                        roots.push(RootOperation { pos: sentinel(), kind, type_name: name(n) });
                    }
                }
                TypeSystemDefinition::Schema(SchemaDefinition {
                    pos: p(s.pos),
                    extend: s.node.extend,
                    description: None,
                    directives: s.node.directives.iter().map(const_directive).collect(),
                    root_operations: roots,
                })
            }
            ct::TypeSystemDefinition::Type(t) => TypeSystemDefinition::Type(TypeDefinition {
                pos: p(t.pos),
                extend: t.node.extend,
                description: description(&t.node.description),
                name: name(&t.node.name),
                directives: t.node.directives.iter().map(const_directive).collect(),
                kind: match &t.node.kind {
                    ct::TypeKind::Scalar => TypeDefKind::Scalar,
                    ct::TypeKind::Object(o) => TypeDefKind::Object {
                        implements: o.implements.iter().map(name).collect(),
                        fields: fields(&o.fields),
                    },
                    ct::TypeKind::Interface(o) => TypeDefKind::Interface {
                        implements: o.implements.iter().map(name).collect(),
                        fields: fields(&o.fields),
                    },
                    ct::TypeKind::Union(u) => TypeDefKind::Union { members: u.members.iter().map(name).collect() },
                    ct::TypeKind::Enum(e) => TypeDefKind::Enum {
                        values: e
                            .values
                            .iter()
                            .map(|v| EnumValueDefinition {
                                pos: p(v.pos),
                                description: description(&v.node.description),
                                value: name(&v.node.value),
                                directives: v.node.directives.iter().map(const_directive).collect(),
                            })
                            .collect(),
                    },
                    ct::TypeKind::InputObject(i) => {
                        TypeDefKind::InputObject { fields: i.fields.iter().map(input_value).collect() }
                    }
                },
            }),
            ct::TypeSystemDefinition::Directive(d) => TypeSystemDefinition::Directive(DirectiveDefinition {
                pos: p(d.pos),
                description: description(&d.node.description),
                name: name(&d.node.name),
                arguments: d.node.arguments.iter().map(input_value).collect(),
                repeatable: d.node.is_repeatable,
                locations: d
                    .node
                    .locations
                    .iter()
                    .map(|l| Name { pos: p(l.pos), value: location_name(l.node).to_string() })
                    .collect(),
            }),
        };
        definitions.push(Definition::TypeSystem(t));
    }
    Document { definitions }
}

// ------------------------------------------------- normalising an R2 tree

fn norm_value(v: &mut Value) {
    match &mut v.kind {
        ValueKind::Int(_) | ValueKind::Float(_) => v.kind = canon_lexeme(&v.kind),
        ValueKind::String(s) => {
            s.block = false;
            s.raw = None;
        }
        ValueKind::List(xs) => xs.iter_mut().for_each(norm_value),
        ValueKind::Object(fs) => fs.iter_mut().for_each(|(_, x)| norm_value(x)),
        _ => {}
    }
}
fn norm_directives(ds: &mut [Directive]) {
    for d in ds {
        for a in &mut d.arguments {
            norm_value(&mut a.value);
        }
    }
}
fn norm_selset(s: &mut SelectionSet) {
    for it in &mut s.items {
        match it {
            Selection::Field(f) => {
                for a in &mut f.arguments {
                    norm_value(&mut a.value);
                }
                norm_directives(&mut f.directives);
                if let Some(s) = &mut f.selection_set {
                    norm_selset(s);
                }
            }
            Selection::FragmentSpread(sp) => norm_directives(&mut sp.directives),
            Selection::InlineFragment(i) => {
                norm_directives(&mut i.directives);
                norm_selset(&mut i.selection_set);
            }
        }
    }
}
fn norm_desc(d: &mut Option<Description>) {
    if let Some(d) = d {
        d.value.block = false;
        d.value.raw = None;
    }
}
fn norm_ivd(v: &mut InputValueDefinition) {
    norm_desc(&mut v.description);
    if let Some(d) = &mut v.default_value {
        norm_value(d);
    }
    norm_directives(&mut v.directives);
}
fn norm_fields(fs: &mut [FieldDefinition]) {
    for f in fs {
        norm_desc(&mut f.description);
        f.arguments.iter_mut().for_each(norm_ivd);
        norm_directives(&mut f.directives);
    }
}

/// Bring an R2 tree into crate shape (positions are kept).
pub fn crate_shape(doc: &Document) -> Document {
    let mut ops = vec![];
    let mut frs = vec![];
    let mut ts = vec![];
    for d in &doc.definitions {
        match d.clone() {
            Definition::Operation(mut o) => {
                o.shorthand = false;
                for v in &mut o.variables {
                    if let Some(d) = &mut v.default_value {
                        norm_value(d);
                    }
                    norm_directives(&mut v.directives);
                }
                norm_directives(&mut o.directives);
                norm_selset(&mut o.selection_set);
                ops.push(o);
            }
            Definition::Fragment(mut f) => {
                norm_directives(&mut f.directives);
                norm_selset(&mut f.selection_set);
                frs.push(f);
            }
            Definition::TypeSystem(mut t) => {
                match &mut t {
                    TypeSystemDefinition::Schema(s) => {
                        norm_desc(&mut s.description);
                        norm_directives(&mut s.directives);
                        s.root_operations.sort_by_key(|r| r.kind);
                    }
                    TypeSystemDefinition::Type(t) => {
                        norm_desc(&mut t.description);
                        norm_directives(&mut t.directives);
                        match &mut t.kind {
                            TypeDefKind::Scalar | TypeDefKind::Union { .. } => {}
                            TypeDefKind::Object { fields, .. } | TypeDefKind::Interface { fields, .. } => {
                                norm_fields(fields)
                            }
                            TypeDefKind::Enum { values } => {
                                for v in values {
                                    norm_desc(&mut v.description);
                                    norm_directives(&mut v.directives);
                                }
                            }
                            TypeDefKind::InputObject { fields } => fields.iter_mut().for_each(norm_ivd),
                        }
                    }
                    TypeSystemDefinition::Directive(d) => {
                        norm_desc(&mut d.description);
                        d.arguments.iter_mut().for_each(norm_ivd);
                    }
                }
                ts.push(t);
            }
        }
    }
    ops.sort_by(|a, b| a.name.as_ref().map(|n| &n.value).cmp(&b.name.as_ref().map(|n| &n.value)));
    frs.sort_by(|a, b| a.name.value.cmp(&b.name.value));
    let mut definitions: Vec<Definition> = ops.into_iter().map(Definition::Operation).collect();
    definitions.extend(frs.into_iter().map(Definition::Fragment));
    definitions.extend(ts.into_iter().map(Definition::TypeSystem));
    Document { definitions }
}

/// Does any object value of the tree repeat a field name? (The crate stores
/// objects as maps and cannot represent that.)
pub fn has_duplicate_object_keys(doc: &Document) -> bool {
    fn val(v: &Value) -> bool {
        match &v.kind {
            ValueKind::List(xs) => xs.iter().any(val),
            ValueKind::Object(fs) => {
                let mut seen = std::collections::BTreeSet::new();
                fs.iter().any(|(n, x)| !seen.insert(n.value.clone()) || val(x))
            }
            _ => false,
        }
    }
    // cheap way to reach every value: debug-free walk over a clone with the position walker is not
    // enough (it does not expose values), so walk explicitly
    fn dirs(ds: &[Directive]) -> bool {
        ds.iter().any(|d| d.arguments.iter().any(|a| val(&a.value)))
    }
    fn sel(s: &SelectionSet) -> bool {
        s.items.iter().any(|it| match it {
            Selection::Field(f) => {
                f.arguments.iter().any(|a| val(&a.value))
                    || dirs(&f.directives)
                    || f.selection_set.as_ref().is_some_and(sel)
            }
            Selection::FragmentSpread(sp) => dirs(&sp.directives),
            Selection::InlineFragment(i) => dirs(&i.directives) || sel(&i.selection_set),
        })
    }
    fn ivd(v: &InputValueDefinition) -> bool {
        v.default_value.as_ref().is_some_and(val) || dirs(&v.directives)
    }
    doc.definitions.iter().any(|d| match d {
        Definition::Operation(o) => {
            o.variables.iter().any(|v| v.default_value.as_ref().is_some_and(val) || dirs(&v.directives))
                || dirs(&o.directives)
                || sel(&o.selection_set)
        }
        Definition::Fragment(f) => dirs(&f.directives) || sel(&f.selection_set),
        Definition::TypeSystem(TypeSystemDefinition::Schema(s)) => dirs(&s.directives),
        Definition::TypeSystem(TypeSystemDefinition::Directive(d)) => d.arguments.iter().any(ivd),
        Definition::TypeSystem(TypeSystemDefinition::Type(t)) => {
            dirs(&t.directives)
                || match &t.kind {
                    TypeDefKind::Scalar | TypeDefKind::Union { .. } => false,
                    TypeDefKind::Object { fields, .. } | TypeDefKind::Interface { fields, .. } => {
                        fields.iter().any(|f| f.arguments.iter().any(ivd) || dirs(&f.directives))
                    }
                    TypeDefKind::Enum { values } => values.iter().any(|v| dirs(&v.directives)),
                    TypeDefKind::InputObject { fields } => fields.iter().any(ivd),
                }
        }
    })
}

/// First difference between two debug renderings, with some context.
pub fn first_difference(a: &str, b: &str) -> String {
    let ac: Vec<char> = a.chars().collect();
    let bc: Vec<char> = b.chars().collect();
    let k = ac.iter().zip(&bc).position(|(x, y)| x != y).unwrap_or(ac.len().min(bc.len()));
    let lo = k.saturating_sub(28);
    let sa: String = ac[lo..(k + 44).min(ac.len())].iter().collect();
    let sb: String = bc[lo..(k + 44).min(bc.len())].iter().collect();
    format!("expected …{sa}… | crate …{sb}…")
}
