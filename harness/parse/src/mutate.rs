//! Near-miss mutations of a token sequence (shared by C13 and C14).

use vh_core::Rng;
use vh_r2::{ErrKind, Options, PKind, PToken, lex};

pub struct Mutant {
    pub tokens: Vec<PToken>,
    /// operator family, e.g. "number_edit"
    pub op: &'static str,
    /// operator detail, e.g. "leading_zero"
    pub detail: &'static str,
    /// index (in `tokens`) of the token whose text was invented or changed, if any
    pub touched: Option<usize>,
}

fn pick_index(r: &mut Rng, toks: &[PToken], pred: impl Fn(&PToken) -> bool) -> Option<usize> {
    let idx: Vec<usize> = toks.iter().enumerate().filter(|(_, t)| pred(t)).map(|(i, _)| i).collect();
    if idx.is_empty() { None } else { Some(idx[r.below(idx.len())]) }
}

fn chars(s: &str) -> Vec<char> {
    s.chars().collect()
}
fn insert_at(s: &str, k: usize, ins: &str) -> String {
    let c = chars(s);
    let k = k.min(c.len());
    let mut out: String = c[..k].iter().collect();
    out.push_str(ins);
    out.extend(c[k..].iter());
    out
}
fn delete_at(s: &str, k: usize) -> String {
    let mut c = chars(s);
    if k < c.len() {
        c.remove(k);
    }
    c.into_iter().collect()
}

fn number_edit(r: &mut Rng, s: &str) -> (String, &'static str) {
    let neg = s.starts_with('-');
    let body = s.trim_start_matches('-');
    let n = chars(s).len();
    match r.below(18) {
        0 | 1 => (format!("{}0{}", if neg { "-" } else { "" }, body), "leading_zero"),
        2 => (format!("{}00{}", if neg { "-" } else { "" }, body), "leading_zero"),
        3 => (format!("{s}."), "trailing_dot"),
        4 => (format!(".{body}"), "leading_dot"),
        5 => (format!("{s}e"), "empty_exponent"),
        6 => (format!("{s}e+"), "empty_exponent"),
        7 => ("0x1F".to_string(), "hex"),
        8 => (format!("- {body}"), "detached_minus"),
        9 => (format!("{s}{}", r.pick(&["a", "_", "x", "E", "n", "f", "L"])), "letter_suffix"),
        10 => (format!("+{body}"), "plus_sign"),
        11 => (format!("{s}.5.5"), "two_dots"),
        12 => (format!("{s}e5e5"), "two_exponents"),
        13 => (insert_at(s, 1.min(n), "_"), "underscore"),
        14 => (format!("{s}\u{661}"), "non_ascii_digit"),
        15 => {
            let k = r.below(n + 1);
            let c = *r.pick(&['0', '1', '9', '.', 'e', 'E', '+', '-', '_', 'x', 'a']);
            (insert_at(s, k, &c.to_string()), "insert_char")
        }
        16 => (delete_at(s, r.below(n)), "delete_char"),
        _ => {
            let k = r.below(n);
            let c = *r.pick(&['0', '5', '.', 'e', '-', 'z']);
            (insert_at(&delete_at(s, k), k, &c.to_string()), "replace_char")
        }
    }
}

fn string_edit(r: &mut Rng, t: &PToken) -> (String, &'static str) {
    let s = &t.text;
    let c = chars(s);
    let n = c.len();
    let block = t.kind == PKind::BlockStr;
    let q = if block { 3 } else { 1 };
    // a position strictly inside the delimiters
    let mut inner = if n > 2 * q { q + r.below(n - 2 * q + 1) } else { q };
    // never split a CRLF (that would create a lone CR, a different experiment)
    if inner > 0 && inner < n && c[inner - 1] == '\r' && c[inner] == '\n' {
        inner += 1;
    }
    match r.below(20) {
        0 | 1 => (c[..n - 1].iter().collect(), "drop_closing_quote"),
        2 => (c[1..].iter().collect(), "drop_opening_quote"),
        3 if !block => (insert_at(s, inner, "\n"), "raw_line_feed"),
        4 if !block => (insert_at(s, inner, "\r"), "raw_carriage_return"),
        5 => (insert_at(s, inner, "\\q"), "bad_escape"),
        6 => (insert_at(s, inner, "\\u12G4"), "bad_unicode_escape"),
        7 => (insert_at(s, inner, "\\u12"), "short_unicode_escape"),
        8 => (insert_at(s, inner, *r.pick(&["\\uD800", "\\udfff", "\\uDBFF\\uDFFF", "\\ud83d\\ude00"])), "surrogate_escape"),
        9 => (insert_at(s, inner, "\\u{1F600}"), "braced_unicode_escape"),
        10 => (insert_at(s, inner, *r.pick(&["\\x41", "\\'", "\\a", "\\0", "\\U0041", "\\ "])), "bad_escape"),
        11 | 12 => {
            let cc = *r.pick(&['\u{0}', '\u{1}', '\u{7}', '\u{8}', '\u{b}', '\u{c}', '\u{1b}', '\u{1f}']);
            (insert_at(s, inner, &cc.to_string()), "control_char_inside")
        }
        13 => (insert_at(s, inner, "\u{7f}"), "del_char_inside"),
        14 => (insert_at(s, n - q, "\\"), "backslash_before_closing"),
        15 if block => (c[..n - 1].iter().collect(), "short_closing_delimiter"),
        16 => (insert_at(s, inner, "\"\"\""), "triple_quote_inside"),
        17 => (insert_at(s, inner, "\""), "quote_inside"),
        18 => (s.replace('"', "'"), "single_quotes"),
        _ => (insert_at(s, inner, "\\u00e9\\n\\\\"), "valid_escapes_inside"),
    }
}

fn name_edit(r: &mut Rng, s: &str) -> (String, &'static str) {
    let n = chars(s).len();
    match r.below(14) {
        0 => (insert_at(s, r.below(n + 1), "-"), "hyphen"),
        1 => (insert_at(s, r.below(n + 1), "."), "dot"),
        2 => (insert_at(s, r.below(n + 1), *r.pick(&["é", "ñ", "中", "\u{200b}", "\u{37e}"])), "non_ascii"),
        3 => (insert_at(s, r.below(n + 1), *r.pick(&["$", "?", "%", "~", "'", ";", "/", "\\", "*", "<"])), "symbol"),
        4 => (format!("{}{s}", r.below(10)), "digit_prefix"),
        5 if n > 1 => (delete_at(s, r.below(n)), "delete_char"),
        6 | 7 => (
            format!(
                "{}{s}",
                r.pick(&[
                    "true", "false", "null", "query", "mutation", "subscription", "fragment", "on", "schema", "type",
                    "extend", "implements", "input", "enum", "repeatable"
                ])
            ),
            "keyword_prefix",
        ),
        8 => (
            r.pick(&["on", "true", "false", "null", "fragment", "query", "mutation", "extend", "type", "repeatable"])
                .to_string(),
            "replace_by_keyword",
        ),
        9 => (format!("{s}{}", r.pick(&["X", "_", "1", "s"])), "suffix"),
        10 => (s.to_uppercase(), "uppercase"),
        11 => (insert_at(s, r.below(n + 1), "#"), "hash"),
        12 => (insert_at(s, r.below(n + 1), " "), "split"),
        _ => (insert_at(s, r.below(n + 1), "\u{1}"), "control_char"),
    }
}

fn punct_edit(r: &mut Rng, s: &str) -> (String, &'static str) {
    match s {
        "..." => (r.pick(&["..", "....", ". . .", ".", "…", ".. ."]).to_string(), "spread_variant"),
        _ => match r.below(4) {
            0 => (format!("{s}{s}"), "doubled"),
            _ => {
                let others = ["!", "$", "&", "(", ")", ":", "=", "@", "[", "]", "{", "|", "}", "..."];
                loop {
                    let o = *r.pick(&others);
                    if o != s {
                        return (o.to_string(), "other_punctuator");
                    }
                }
            }
        },
    }
}

/// One random near-miss mutation. `def_starts`: first token of each definition.
pub fn mutate(r: &mut Rng, toks: &[PToken], def_starts: &[usize], allowed: &dyn Fn(&str) -> bool) -> Option<Mutant> {
    if toks.is_empty() {
        return None;
    }
    for _ in 0..20 {
        let op = *r.pick(&[
            "delete",
            "delete",
            "duplicate",
            "duplicate",
            "swap",
            "swap",
            "punct_edit",
            "punct_edit",
            "number_edit",
            "number_edit",
            "number_edit",
            "string_edit",
            "string_edit",
            "string_edit",
            "name_edit",
            "name_edit",
            "name_edit",
            "stray_char",
            "stray_char",
            "glue",
            "glue",
            "empty_parens",
            "insert_token",
            "insert_token",
            "dup_definition",
            "comment_control_char",
        ]);
        if !allowed(op) {
            continue;
        }
        let mut t: Vec<PToken> = toks.to_vec();
        let n = t.len();
        let (detail, touched): (&'static str, Option<usize>) = match op {
            "delete" => {
                let i = r.below(n);
                t.remove(i);
                ("", None)
            }
            "duplicate" => {
                let i = r.below(n);
                let c = t[i].clone();
                t.insert(i, c);
                ("", None)
            }
            "swap" => {
                if n < 2 {
                    continue;
                }
                let i = r.below(n - 1);
                let j = if r.chance(3, 4) { i + 1 } else { r.below(n) };
                if t[i].text == t[j].text {
                    continue;
                }
                t.swap(i, j);
                ("", None)
            }
            "punct_edit" => {
                let Some(i) = pick_index(r, &t, |x| x.kind == PKind::Punct) else { continue };
                let (s, d) = punct_edit(r, &t[i].text);
                t[i].text = s;
                (d, Some(i))
            }
            "number_edit" => {
                let Some(i) = pick_index(r, &t, |x| matches!(x.kind, PKind::Int | PKind::Float)) else { continue };
                let (s, d) = number_edit(r, &t[i].text);
                if s == t[i].text || s.is_empty() {
                    continue;
                }
                t[i].text = s;
                (d, Some(i))
            }
            "string_edit" => {
                let Some(i) = pick_index(r, &t, |x| matches!(x.kind, PKind::Str | PKind::BlockStr)) else {
                    continue;
                };
                let (s, d) = string_edit(r, &t[i]);
                if s == t[i].text {
                    continue;
                }
                t[i].text = s;
                (d, Some(i))
            }
            "name_edit" => {
                let Some(i) = pick_index(r, &t, |x| x.kind == PKind::Name) else { continue };
                let (s, d) = name_edit(r, &t[i].text);
                if s == t[i].text || s.is_empty() {
                    continue;
                }
                t[i].text = s;
                (d, Some(i))
            }
            "stray_char" => {
                let i = r.below(n + 1);
                let (c, d): (&str, &'static str) = match r.below(5) {
                    0 | 1 => (
                        *r.pick(&["\u{0}", "\u{1}", "\u{7}", "\u{8}", "\u{b}", "\u{c}", "\u{e}", "\u{1b}", "\u{1f}"]),
                        "control_char",
                    ),
                    2 => (*r.pick(&["\u{7f}", "\u{85}", "\u{a0}", "\u{2028}", "\u{2029}", "\u{200b}", "\u{3000}"]), "unicode_space"),
                    3 => (*r.pick(&["?", "%", "~", "'", ";", "\\", "*", "<", ">", "/", "^", "`", "+", "-", "."]), "symbol"),
                    _ => (*r.pick(&["é", "中", "😀", "\u{37e}"]), "non_ascii"),
                };
                t.insert(i, PToken::new(c, PKind::Punct));
                (d, Some(i))
            }
            "glue" => {
                if n < 2 {
                    continue;
                }
                // prefer name/number neighbours: the interesting cases
                let cands: Vec<usize> = (0..n - 1)
                    .filter(|&i| {
                        matches!(t[i].kind, PKind::Name | PKind::Int | PKind::Float)
                            && matches!(t[i + 1].kind, PKind::Name | PKind::Int | PKind::Float)
                    })
                    .collect();
                let i = if !cands.is_empty() && r.chance(4, 5) { cands[r.below(cands.len())] } else { r.below(n - 1) };
                let next = t.remove(i + 1);
                t[i].text.push_str(&next.text);
                ("", Some(i))
            }
            "empty_parens" => {
                let Some(i) = pick_index(r, &t, |x| x.kind == PKind::Name) else { continue };
                t.insert(i + 1, PToken::new(")", PKind::Punct));
                t.insert(i + 1, PToken::new("(", PKind::Punct));
                ("", None)
            }
            "insert_token" => {
                let i = r.below(n + 1);
                let pool: [(&str, PKind); 22] = [
                    ("!", PKind::Punct),
                    ("$", PKind::Punct),
                    ("@", PKind::Punct),
                    ("&", PKind::Punct),
                    ("|", PKind::Punct),
                    ("=", PKind::Punct),
                    (":", PKind::Punct),
                    ("...", PKind::Punct),
                    ("{", PKind::Punct),
                    ("}", PKind::Punct),
                    ("[", PKind::Punct),
                    ("]", PKind::Punct),
                    ("on", PKind::Name),
                    ("null", PKind::Name),
                    ("true", PKind::Name),
                    ("x", PKind::Name),
                    ("query", PKind::Name),
                    ("fragment", PKind::Name),
                    ("extend", PKind::Name),
                    ("1", PKind::Int),
                    ("\"s\"", PKind::Str),
                    ("\"\"\"b\"\"\"", PKind::BlockStr),
                ];
                let (s, k) = *r.pick(&pool);
                t.insert(i, PToken::new(s, k));
                ("", None)
            }
            "dup_definition" => {
                if def_starts.is_empty() {
                    continue;
                }
                let d = r.below(def_starts.len());
                let lo = def_starts[d];
                let hi = def_starts.get(d + 1).copied().unwrap_or(n);
                let copy: Vec<PToken> = t[lo..hi].to_vec();
                let at = if r.bool() { n } else { lo };
                for (k, c) in copy.into_iter().enumerate() {
                    t.insert(at + k, c);
                }
                ("", None)
            }
            "comment_control_char" => {
                let i = r.below(n + 1);
                let cc = *r.pick(&['\u{0}', '\u{1}', '\u{8}', '\u{b}', '\u{c}', '\u{1f}']);
                t.insert(i, PToken::new(format!("#c{cc}d\n"), PKind::Punct));
                ("", Some(i))
            }
            _ => unreachable!(),
        };
        if t.is_empty() {
            continue;
        }
        return Some(Mutant { tokens: t, op, detail, touched });
    }
    None
}

/// Can the text of a mutated token swallow what follows it (an unterminated
/// string, a `#` that starts a comment)? Then the lexical structure of the
/// document depends on the noise after it and metamorphic position checks do
/// not apply.
pub fn noise_sensitive(text: &str) -> bool {
    let o = Options { allow_control_chars: true };
    match lex(text, &o) {
        Err(e) => matches!(e.kind, ErrKind::UnterminatedString | ErrKind::UnterminatedBlockString),
        Ok(toks) => {
            // a comment inside the text: some characters were skipped that are neither
            // whitespace nor part of a token
            let c: Vec<char> = text.chars().collect();
            let mut at = 0usize;
            for t in &toks {
                // ignored material before this token (the last token is Eof at the end of the text)
                if c[at..t.start].contains(&'#') {
                    return true;
                }
                at = t.end;
            }
            false
        }
    }
}
