//! C25 — WebSocket sessions follow the graphql-ws (legacy
//! subscriptions-transport-ws) and graphql-transport-ws protocols.
//!
//! Workload: the real `async_graphql::http::WebSocket` stream, one session per
//! script, driven by `vsched` (see session.rs). Oracle: the trace automaton of
//! monitor.rs, written from the two protocol documents.
//!
//!   1. pinned witnesses (harness/ws/witnesses/*.json) — always run, all
//!      generator features forced on; signature "<witness-id>|<observed outputs>"
//!   0. monitor self-test: hand-written faulty traces must each trip their rule
//!   2. bounded-exhaustive scripts (length <= 5 quick, <= 7 thorough) per
//!      protocol and per init mode (on_connection_init gated / immediate)
//!   3. seeded adaptive random scripts up to length 40, with client bursts

use std::collections::{BTreeMap, BTreeSet, HashSet};
use std::sync::Mutex;
use std::sync::atomic::{AtomicUsize, Ordering};

use vh_core::serde_json::{self, Value as J, json};
use vh_core::vsched::Outcome;
use vh_core::{Rng, Run, rng};

use crate::monitor::{Ev, Out, Proto};
use crate::session::{
    CLIENT_COUNTERS, Cfg, ENV_COUNTERS, Features, SessionResult, Source, Step, Sym, WsSchema, alphabet, build_schema,
    run_session, script_from_json, script_to_strings,
};

const WITNESSES: [&str; 4] = [
    include_str!("../witnesses/C25-gtws-subscribe-before-ack.json"),
    include_str!("../witnesses/C25-gtws-duplicate-id.json"),
    include_str!("../witnesses/C25-gtws-invalid-json.json"),
    include_str!("../witnesses/C25-gtws-unknown-message-type.json"),
];

const SHARDS: usize = 16;

#[derive(Default)]
struct Acc {
    evals: u64,
    counters: BTreeMap<String, u64>,
    pairs: BTreeSet<String>,
    notes: BTreeSet<String>,
    closes: BTreeSet<String>,
    scripts: HashSet<u64>,
    traces: HashSet<u64>,
    executed: u64,
    pruned: u128,
}

impl Acc {
    fn count(&mut self, k: &str, n: u64) {
        *self.counters.entry(k.to_string()).or_insert(0) += n;
    }
    fn flush(self, run: &Run, traces: &Mutex<HashSet<u64>>) {
        run.evals(self.evals);
        for (k, v) in &self.counters {
            run.count(k, *v);
        }
        for p in &self.pairs {
            run.seen("automaton_state_symbol", p);
        }
        for n in &self.notes {
            run.seen("observations", n);
        }
        for c in &self.closes {
            run.seen("close_codes", c);
        }
        for h in &self.scripts {
            run.nontrivial(*h);
        }
        traces.lock().unwrap().extend(self.traces);
    }
}

/// Short rendering of one server output.
fn render_out(o: &Out) -> String {
    match o {
        Out::Close(c, _) => format!("Close({c})"),
        Out::Text(t) => {
            let v: J = serde_json::from_str(t).unwrap_or(J::Null);
            let ty = v["type"].as_str().unwrap_or("?").to_string();
            match v["id"].as_str() {
                None => ty,
                Some(id) => {
                    let mut tag = String::new();
                    if let Some(d) = v["payload"]["data"].as_object() {
                        for (_, item) in d {
                            if let (Some(i), Some(s)) = (item["inst"].as_u64(), item["seq"].as_u64()) {
                                tag = format!(",#{i}.{s}");
                            }
                        }
                    }
                    if v["payload"]["errors"].as_array().map(|a| !a.is_empty()).unwrap_or(false) {
                        tag.push_str(",errors");
                    }
                    format!("{ty}({id}{tag})")
                }
            }
        }
    }
}

/// "<symbol>=><outputs>" per script position: the exact observed message sequence.
fn render_observed(r: &SessionResult) -> String {
    let names = script_to_strings(&r.script);
    let mut per: Vec<Vec<String>> = vec![vec![]; names.len() + 1];
    for e in &r.log {
        match e {
            Ev::Out { pos, msg } => per[(*pos).min(names.len())].push(render_out(msg)),
            Ev::OutEnd { pos } => per[(*pos).min(names.len())].push("END".into()),
            _ => {}
        }
    }
    let mut parts = vec![];
    if !per[0].is_empty() {
        parts.push(format!("=>{}", per[0].join(",")));
    }
    for (i, n) in names.iter().enumerate() {
        let o = if per[i + 1].is_empty() { "-".to_string() } else { per[i + 1].join(",") };
        parts.push(format!("{n}=>{o}"));
    }
    parts.join(";")
}

fn replay_json(r: &SessionResult, extra: J) -> J {
    json!({
        "protocol": r.cfg.proto.name(),
        "init_mode": r.cfg.init_mode(),
        "script": script_to_strings(&r.script),
        "observed": render_observed(r),
        "violations": r.monitor.violations.iter().map(|v| json!({
            "rule": v.rule, "what": v.what, "at_trace_event": v.at_event, "script_pos": v.pos,
        })).collect::<Vec<_>>(),
        "trace": r.log.iter().map(|e| e.to_json()).collect::<Vec<_>>(),
        "info": extra,
    })
}

fn input_hash(cfg: Cfg, script: &[Step]) -> u64 {
    rng::hash_str(&format!("{}|{}|{}", cfg.proto.tag(), cfg.init_mode(), script_to_strings(script).join(",")))
}

/// Book-keeping and verdict for one executed session.
/// `witness`: id of the pinned witness this session is (signature rule differs).
fn judge(run: &Run, acc: &mut Acc, r: &SessionResult, origin: &str, witness: Option<&str>) {
    acc.evals += 1;
    acc.count(&format!("scripts_{origin}"), 1);
    acc.count(&format!("scripts_{}", r.cfg.proto.tag()), 1);
    for c in &r.used {
        acc.count(c, 1);
    }
    acc.count("symbols_applied", r.used.len() as u64);
    acc.count("symbols_skipped", r.skipped as u64);
    if r.timer_unarmed_skips > 0 {
        acc.count("timer_symbol_while_keepalive_future_unpolled", r.timer_unarmed_skips as u64);
    }
    acc.pairs.extend(r.monitor.pairs.iter().cloned());
    for n in &r.monitor.notes {
        acc.notes.insert(format!("{}:{n}", r.cfg.proto.tag()));
    }
    for (c, reason) in &r.monitor.closes {
        acc.closes.insert(format!("{}:{c}:{reason}", r.cfg.proto.tag()));
    }
    let mut outs = 0u64;
    let mut trace = String::new();
    for e in &r.log {
        match e {
            Ev::Out { pos, msg } => {
                outs += 1;
                trace.push_str(&format!("{pos}:{msg:?}\n"));
                match msg {
                    Out::Close(..) => acc.count("out_close", 1),
                    Out::Text(t) => {
                        let ty = if t.contains("\"type\":\"next\"") || t.contains("\"type\":\"data\"") {
                            "out_result"
                        } else if t.contains("\"type\":\"complete\"") {
                            "out_complete"
                        } else if t.contains("\"type\":\"connection_ack\"") {
                            "out_connection_ack"
                        } else if t.contains("\"type\":\"pong\"") {
                            "out_pong"
                        } else if t.contains("\"type\":\"connection_error\"") {
                            "out_connection_error"
                        } else {
                            "out_other"
                        };
                        acc.count(ty, 1);
                    }
                }
            }
            Ev::OutEnd { .. } => trace.push_str("END\n"),
            Ev::Started { .. } => acc.count("stream_instances_started", 1),
            Ev::Dropped { .. } => acc.count("stream_instances_dropped", 1),
            _ => {}
        }
    }
    let ih = input_hash(r.cfg, &r.script);
    if outs > 0 {
        acc.scripts.insert(ih);
        acc.traces.insert(rng::hash_str(&format!("{}|{trace}", r.cfg.proto.tag())));
    }
    // a few samples: the witnesses, then the first longer sessions
    static SAMPLES: AtomicUsize = AtomicUsize::new(0);
    if (witness.is_some() || r.script.len() >= 5) && SAMPLES.load(Ordering::Relaxed) < 8 {
        SAMPLES.fetch_add(1, Ordering::Relaxed);
        run.sample_upto(
            8,
            json!({"origin": origin, "protocol": r.cfg.proto.name(), "init_mode": r.cfg.init_mode(),
                   "script": script_to_strings(&r.script), "observed": render_observed(r)}),
        );
    }

    if let Some(p) = &r.panic {
        run.violation(
            &format!("panic:{ih:x}"),
            &format!("the WebSocket stream panicked: {p}; {} script {:?}", r.cfg.proto.name(), script_to_strings(&r.script)),
            replay_json(r, json!({"panic": p})),
        );
        return;
    }
    match &r.sched_outcome {
        Some(Outcome::Done) => {}
        other => {
            run.inconclusive(&format!(
                "session did not terminate cleanly ({other:?}) for {} script {:?}",
                r.cfg.proto.name(),
                script_to_strings(&r.script)
            ));
            return;
        }
    }
    if let Some(v) = r.monitor.violations.first() {
        acc.count("sessions_with_violation", 1);
        acc.count(&format!("violation_{}_{}", r.cfg.proto.tag(), v.rule), 1);
        let observed = render_observed(r);
        let sig = match witness {
            Some(id) => format!("{id}|{observed}"),
            None => format!("{}:{ih:x}", v.rule),
        };
        let what = format!(
            "[{}] {} (init {}) script {:?}: {} — at script position {}; observed outputs: {}",
            v.rule,
            r.cfg.proto.name(),
            r.cfg.init_mode(),
            script_to_strings(&r.script),
            v.what,
            v.pos,
            observed
        );
        run.violation(&sig, &what, replay_json(r, json!({"origin": origin, "witness": witness})));
    } else {
        acc.count("sessions_conforming", 1);
    }
}

fn geometric(n: u128, k: usize) -> u128 {
    // n + n^2 + ... + n^k
    let mut t = 0u128;
    let mut p = 1u128;
    for _ in 0..k {
        p *= n;
        t += p;
    }
    t
}

struct Enumerator<'a> {
    run: &'a Run,
    schema: &'a WsSchema,
    cfg: Cfg,
    alpha: Vec<Sym>,
    bound: usize,
    feats: Features,
}

impl Enumerator<'_> {
    /// Execute one script; true when longer scripts with this prefix can differ
    /// from shorter ones (its last symbol took effect and the session is open).
    fn visit(&self, script: &[Step], acc: &mut Acc) -> bool {
        let r = run_session(self.schema, self.cfg, Source::Fixed(script.to_vec()), self.feats, false);
        acc.executed += 1;
        judge(self.run, acc, &r, "exhaustive", None);
        r.panic.is_none() && r.script.len() == script.len() && r.last_effective && r.open_after
    }

    fn dfs(&self, script: &mut Vec<Step>, acc: &mut Acc) {
        let ext = self.visit(script, acc);
        if script.len() >= self.bound {
            return;
        }
        if !ext {
            acc.pruned += geometric(self.alpha.len() as u128, self.bound - script.len());
            return;
        }
        for &s in &self.alpha {
            script.push(Step::of(s));
            self.dfs(script, acc);
            script.pop();
        }
    }
}

/// Returns (executed, covered-by-equivalence, size of the space).
fn exhaustive(run: &Run, schema: &WsSchema, cfg: Cfg, bound: usize, feats: Features, traces: &Mutex<HashSet<u64>>) -> (u64, u128, u128) {
    let en = Enumerator { run, schema, cfg, alpha: alphabet(cfg.proto), bound, feats };
    let n = en.alpha.len() as u128;
    let split = 2usize.min(bound);
    let mut acc = Acc::default();
    // sequential pre-pass down to depth `split`, collecting the prefixes below
    // which the threads enumerate
    let mut frontier: Vec<Vec<Step>> = vec![vec![]];
    let mut tasks: Vec<Vec<Step>> = vec![];
    for _depth in 0..=split {
        let mut next = vec![];
        for s in frontier {
            let ext = en.visit(&s, &mut acc);
            if s.len() >= bound {
                continue;
            }
            if !ext {
                acc.pruned += geometric(n, bound - s.len());
            } else if s.len() == split {
                tasks.push(s);
            } else {
                for &x in &en.alpha {
                    let mut t = s.clone();
                    t.push(Step::of(x));
                    next.push(t);
                }
            }
        }
        frontier = next;
    }
    // one work item = (prefix, next symbol)
    let mut items: Vec<Vec<Step>> = vec![];
    for t in &tasks {
        for &x in &en.alpha {
            let mut s = t.clone();
            s.push(Step::of(x));
            items.push(s);
        }
    }
    let next_item = AtomicUsize::new(0);
    let totals = Mutex::new((0u64, 0u128));
    std::thread::scope(|sc| {
        for _ in 0..SHARDS {
            sc.spawn(|| {
                let mut acc = Acc::default();
                loop {
                    let i = next_item.fetch_add(1, Ordering::SeqCst);
                    if i >= items.len() {
                        break;
                    }
                    let mut s = items[i].clone();
                    en.dfs(&mut s, &mut acc);
                }
                let mut t = totals.lock().unwrap();
                t.0 += acc.executed;
                t.1 += acc.pruned;
                drop(t);
                acc.flush(run, traces);
            });
        }
    });
    let (mut executed, mut pruned) = *totals.lock().unwrap();
    executed += acc.executed;
    pruned += acc.pruned;
    acc.flush(run, traces);
    let space = 1 + geometric(n, bound);
    (executed, pruned, space)
}

fn random_scripts(run: &Run, schema: &WsSchema, cfg: Cfg, count: u64, feats: Features, traces: &Mutex<HashSet<u64>>) {
    let pi = match cfg.proto {
        Proto::Gtws => 1u64,
        Proto::Legacy => 2,
    };
    let mi = cfg.gated_init as u64;
    std::thread::scope(|sc| {
        for shard in 0..SHARDS as u64 {
            sc.spawn(move || {
                let mut acc = Acc::default();
                let mut i = shard;
                let mut max_seen = 0usize;
                while i < count {
                    let mut r = Rng::new(rng::mix(&[run.seed, 25, pi, mi, i]));
                    let max_len = 5 + r.below(36);
                    let res = run_session(schema, cfg, Source::Random { rng: r, max_len }, feats, false);
                    max_seen = max_seen.max(res.script.len());
                    acc.count("random_script_symbols", res.script.len() as u64);
                    judge(run, &mut acc, &res, "random", None);
                    i += SHARDS as u64;
                }
                acc.count(&format!("random_longest_script_ge_{}", (max_seen / 10) * 10), 1);
                acc.flush(run, traces);
            });
        }
    });
}

fn parse_case(v: &J) -> Option<(Cfg, Vec<Step>)> {
    let proto = Proto::from_name(v["protocol"].as_str()?)?;
    let gated_init = match v["init_mode"].as_str().unwrap_or("immediate") {
        "gated" => true,
        "immediate" => false,
        _ => return None,
    };
    let script = script_from_json(&v["script"])?;
    Some((Cfg { proto, gated_init }, script))
}

fn witnesses(run: &Run, schema: &WsSchema, traces: &Mutex<HashSet<u64>>) {
    let mut acc = Acc::default();
    for text in WITNESSES {
        let v: J = match serde_json::from_str(text) {
            Ok(v) => v,
            Err(e) => {
                run.inconclusive(&format!("witness file does not parse: {e}"));
                continue;
            }
        };
        let id = v["id"].as_str().unwrap_or("?").to_string();
        let Some((cfg, script)) = parse_case(&v) else {
            run.inconclusive(&format!("witness {id} is malformed"));
            continue;
        };
        let r = run_session(schema, cfg, Source::Fixed(script), Features::ALL, true);
        let before = r.monitor.violations.len();
        judge(run, &mut acc, &r, "witness", Some(&id));
        if before == 0 {
            acc.count("witnesses_conforming", 1);
            println!("NOTE: witness {id} conforms to the protocol: {}", render_observed(&r));
        } else {
            acc.count("witnesses_violating", 1);
        }
    }
    acc.flush(run, traces);
}

fn replay(run: &Run, schema: &WsSchema, path: &std::path::Path) {
    let traces = Mutex::new(HashSet::new());
    let text = match std::fs::read_to_string(path) {
        Ok(t) => t,
        Err(e) => {
            run.inconclusive(&format!("cannot read replay file {}: {e}", path.display()));
            return;
        }
    };
    let v: J = match serde_json::from_str(&text) {
        Ok(v) => v,
        Err(e) => {
            run.inconclusive(&format!("replay file does not parse: {e}"));
            return;
        }
    };
    // accept a replay file written by run.violation ("case": {...}) or a bare case / witness
    let case = if v["case"].is_object() { &v["case"] } else { &v };
    let Some((cfg, script)) = parse_case(case) else {
        run.inconclusive("replay file has no protocol/script");
        return;
    };
    let witness = case["info"]["witness"].as_str().or(v["id"].as_str()).map(|s| s.to_string());
    let r = run_session(schema, cfg, Source::Fixed(script), Features::ALL, true);
    println!("REPLAY protocol={} init_mode={} script={:?}", cfg.proto.name(), cfg.init_mode(), script_to_strings(&r.script));
    for e in &r.log {
        println!("  {}", e.to_json());
    }
    println!("  observed: {}", render_observed(&r));
    if r.monitor.violations.is_empty() {
        println!("REPLAY verdict: conforms");
    }
    for v in &r.monitor.violations {
        println!("REPLAY verdict: [{}] {}", v.rule, v.what);
    }
    let mut acc = Acc::default();
    judge(run, &mut acc, &r, "replay", witness.as_deref());
    acc.flush(run, &traces);
}

pub fn main() {
    let mut run = Run::from_args(
        "exploration",
        "scripts over client symbols {init, init again, subscribe a|b, subscribe with a live id, subscribe a plain query, \
         subscribe an invalid document, complete/stop a|b, ping, pong, terminate (legacy), invalid JSON, unknown message \
         type, end of input} and environment symbols {stream a|b yields, stream a|b ends, keep-alive timer fires, \
         on_connection_init resolves / fails}, applied one per quiescent point to the real http::WebSocket stream under \
         vsched (unarmed environment symbols are skipped); per protocol and per init mode (callback gated / immediate) \
         ALL scripts up to the length bound (a script whose last symbol had no effect, or that ended the session, is not \
         extended: its extensions behave as an enumerated shorter script), plus seeded adaptive random scripts up to \
         length 40 with client bursts; pinned witnesses first. A case is non-trivial when the server emitted at least one \
         message; distinct by hash of (protocol, init mode, script)",
    );
    run.assume("the trace automaton encodes graphql-ws PROTOCOL.md (graphql-transport-ws) and subscriptions-transport-ws PROTOCOL.md as read by the harness author; only close CODES are asserted, not reasons");
    run.assume("a client frame takes effect in the model when the server consumes it from its input stream (frames queued while on_connection_init is pending are 'received' after the ack)");
    run.assume("legacy protocol defines no close codes, no ping/pong and does not say whether a reused live id is replaced or rejected: any refusal form is accepted, ping/pong answers are not judged, and after a duplicate start either instance may be the one that keeps emitting (but only one)");
    run.assume("a validation error may be reported either as an `error` message or as a result message carrying errors followed by complete; after end-of-input, keep-alive expiry or init failure only safety rules (W1, and W2-W5 after end-of-input) are asserted");
    run.assume("vsched polls woken tasks to quiescence between script symbols, so server reactions are attributed to the symbol that caused them; the output stream is not polled again after it returned None");
    run.set_max_samples(8);
    let schema = build_schema();

    if let Some(p) = run.replay.clone() {
        replay(&run, &schema, &p);
        run.finish();
    }

    run.set_floors(run.scale(100_000, 2_000_000), run.scale(20_000, 400_000));
    for c in CLIENT_COUNTERS.iter().chain(ENV_COUNTERS.iter()) {
        run.require_counter(c);
    }
    for c in ["automaton_state_symbol", "out_result", "out_complete", "out_connection_ack", "out_pong", "out_close", "out_connection_error", "stream_instances_dropped"] {
        run.require_counter(c);
    }
    let feats = Features {
        subscribe_before_ack: run.feature("gtws_subscribe_before_ack"),
        duplicate_id: run.feature("gtws_duplicate_id"),
        invalid_message: run.feature("gtws_invalid_message"),
    };
    let traces: Mutex<HashSet<u64>> = Mutex::new(HashSet::new());

    // 0. the monitor must be able to say "no": synthetic faulty traces
    let st = crate::monitor::selftest();
    let failed: Vec<&str> = st.iter().filter(|(_, ok)| !ok).map(|(n, _)| *n).collect();
    run.count("monitor_selftest_faulty_traces_rejected", st.iter().filter(|(_, ok)| *ok).count() as u64);
    if !failed.is_empty() {
        run.inconclusive(&format!("monitor self-test: faulty traces not rejected (or good trace rejected): {failed:?}"));
    }

    // 1. pinned witnesses
    witnesses(&run, &schema, &traces);

    // 2. bounded-exhaustive
    // The task asks for length <= 4 (quick) and <= 5 (thorough); no-op pruning makes
    // the enumeration cheap enough to go one / two symbols deeper, which contains both.
    let bound = run.scale(5, 7) as usize;
    let mut all_complete = true;
    let mut ex = vec![];
    for proto in [Proto::Gtws, Proto::Legacy] {
        for gated_init in [false, true] {
            let cfg = Cfg { proto, gated_init };
            let t0 = run.elapsed_s();
            let (executed, pruned, space) = exhaustive(&run, &schema, cfg, bound, feats, &traces);
            let complete = executed as u128 + pruned == space;
            all_complete &= complete;
            ex.push(json!({
                "protocol": proto.name(), "init_mode": cfg.init_mode(), "length_bound": bound,
                "alphabet": alphabet(proto).len(), "space": space.to_string(),
                "scripts_executed": executed, "scripts_equivalent_to_an_executed_shorter_script": pruned.to_string(),
                "complete": complete, "wall_s": ((run.elapsed_s() - t0) * 10.0).round() / 10.0,
            }));
            if !complete {
                run.inconclusive(&format!(
                    "exhaustive accounting does not add up for {} / {}: executed {executed} + equivalent {pruned} != space {space}",
                    proto.name(),
                    cfg.init_mode()
                ));
            }
        }
    }
    run.extra("exhaustive_spaces", J::Array(ex));
    run.exhaustive(all_complete);

    // 3. random scripts up to length 40
    let n = run.scale(25_000, 500_000);
    for proto in [Proto::Gtws, Proto::Legacy] {
        for gated_init in [false, true] {
            random_scripts(&run, &schema, Cfg { proto, gated_init }, n, feats, &traces);
        }
    }
    run.extra("random_scripts_per_protocol_and_init_mode", json!(n));
    run.extra("distinct_output_traces", json!(traces.lock().unwrap().len()));
    run.extra(
        "generator_features",
        json!({"gtws_subscribe_before_ack": feats.subscribe_before_ack, "gtws_duplicate_id": feats.duplicate_id, "gtws_invalid_message": feats.invalid_message}),
    );
    run.finish();
}
