//! vh-ws: WebSocket transport checks (real `async_graphql::http::WebSocket`
//! driven by the schedule-controlled executor, judged by a trace automaton).

mod c25;
mod monitor;
mod session;

fn main() {
    let id = std::env::args().nth(1).unwrap_or_default();
    match id.as_str() {
        "C25" => c25::main(),
        other => {
            println!("INCONCLUSIVE property={other} reason=vh-ws has no check for this property");
            std::process::exit(2);
        }
    }
}
