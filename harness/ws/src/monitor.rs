//! C25 monitor: a trace automaton over the recorded session log
//! (client-in / server-consumed / server-out / harness stream events).
//!
//! The automaton is written from the two published protocol documents
//!   * enisdenjo/graphql-ws PROTOCOL.md            (sub-protocol `graphql-transport-ws`)
//!   * apollographql/subscriptions-transport-ws PROTOCOL.md (sub-protocol `graphql-ws`, "legacy")
//! and never looks at the implementation's state. Client messages take effect
//! in the model when the server *consumes* them (`Ev::Recv`), because a server
//! that has not read a frame yet has not "received" it.
//!
//! Rules (DESIGN.md appendix A.3)
//!   W1  nothing after a Close / after the output stream ended
//!   W2  next/data(i) comes from the instance live under i, seq strictly
//!       increasing, nothing lost while the operation is live and the socket open
//!   W3  at most one complete per operation, nothing for it afterwards;
//!       stream end => complete(i)
//!   W4  no stream instance unless init was acked (and only for a live operation)
//!   W5  at most one connection_ack, and only for a connection_init
//!   W6  (graphql-transport-ws) every ping gets a pong
//!   close codes (graphql-transport-ws): 4401 subscribe before ack, 4429 second
//!   init, 4409 live id reused, 4400 undecodable/unknown message.
//!   legacy: the corresponding refusal (connection_error / any close / end).
//! After a keep-alive expiry or a failed init callback (environment events)
//! only W1 is asserted.

use std::collections::{BTreeMap, BTreeSet};

use vh_core::serde_json::{self, Value as J, json};

#[derive(Clone, Copy, PartialEq, Eq, Hash, Debug, PartialOrd, Ord)]
pub enum Proto {
    Gtws,
    Legacy,
}

impl Proto {
    /// Sec-WebSocket-Protocol value.
    pub fn name(self) -> &'static str {
        match self {
            Proto::Gtws => "graphql-transport-ws",
            Proto::Legacy => "graphql-ws",
        }
    }
    pub fn tag(self) -> &'static str {
        match self {
            Proto::Gtws => "gtws",
            Proto::Legacy => "legacy",
        }
    }
    pub fn from_name(s: &str) -> Option<Proto> {
        match s {
            "graphql-transport-ws" | "gtws" => Some(Proto::Gtws),
            "graphql-ws" | "legacy" | "subscriptions-transport-ws" => Some(Proto::Legacy),
            _ => None,
        }
    }
}

#[derive(Clone, Copy, PartialEq, Eq, Debug)]
pub enum OpKind {
    /// harness-controlled subscription stream, field `a` or `b`
    Stream(char),
    /// plain query through subscribe/start: one result, then complete
    Query,
    /// document that fails validation
    Invalid,
}

/// Meaning of a client message (what the harness client intended to send).
#[derive(Clone, PartialEq, Eq, Debug)]
pub enum CMsg {
    Init,
    Subscribe { id: String, kind: OpKind },
    Complete { id: String },
    Ping,
    Pong,
    Terminate,
    /// undecodable JSON or a message type the protocol does not define
    Invalid,
    Eof,
}

#[derive(Clone, PartialEq, Eq, Debug)]
pub enum Out {
    Text(String),
    Close(u16, String),
}

#[derive(Clone, Debug)]
pub enum Ev {
    /// driver reached a quiescent point (everything the server could do is done)
    Quiescent { pos: usize },
    /// client put message number `n` on the wire
    In { pos: usize, n: usize, sym: String, msg: CMsg, text: Option<String> },
    /// server took message `n` from its input stream
    Recv { pos: usize, n: usize },
    /// environment gate opened by the script
    Env { pos: usize, sym: String, label: String },
    /// script symbol that had no effect
    Skip { pos: usize, sym: String, why: String },
    Out { pos: usize, msg: Out },
    OutEnd { pos: usize },
    Started { pos: usize, inst: u32, kind: char },
    Yielded { pos: usize, inst: u32, seq: u32 },
    StreamEnd { pos: usize, inst: u32 },
    Dropped { pos: usize, inst: u32 },
    InitCalled { pos: usize },
    InitResolved { pos: usize, ok: bool },
    PingCalled { pos: usize },
}

impl Ev {
    pub fn to_json(&self) -> J {
        match self {
            Ev::Quiescent { pos } => json!({"ev": "quiescent", "pos": pos}),
            Ev::In { pos, n, sym, text, .. } => {
                json!({"ev": "client_in", "pos": pos, "n": n, "sym": sym, "text": text})
            }
            Ev::Recv { pos, n } => json!({"ev": "server_consumed", "pos": pos, "n": n}),
            Ev::Env { pos, sym, label } => json!({"ev": "env", "pos": pos, "sym": sym, "gate": label}),
            Ev::Skip { pos, sym, why } => json!({"ev": "skipped", "pos": pos, "sym": sym, "why": why}),
            Ev::Out { pos, msg: Out::Text(t) } => json!({"ev": "server_out", "pos": pos, "text": t}),
            Ev::Out { pos, msg: Out::Close(c, r) } => {
                json!({"ev": "server_out", "pos": pos, "close": c, "reason": r})
            }
            Ev::OutEnd { pos } => json!({"ev": "server_out_end", "pos": pos}),
            Ev::Started { pos, inst, kind } => {
                json!({"ev": "stream_started", "pos": pos, "inst": inst, "kind": kind.to_string()})
            }
            Ev::Yielded { pos, inst, seq } => json!({"ev": "stream_yielded", "pos": pos, "inst": inst, "seq": seq}),
            Ev::StreamEnd { pos, inst } => json!({"ev": "stream_ended", "pos": pos, "inst": inst}),
            Ev::Dropped { pos, inst } => json!({"ev": "stream_dropped", "pos": pos, "inst": inst}),
            Ev::InitCalled { pos } => json!({"ev": "on_connection_init_called", "pos": pos}),
            Ev::InitResolved { pos, ok } => json!({"ev": "on_connection_init_resolved", "pos": pos, "ok": ok}),
            Ev::PingCalled { pos } => json!({"ev": "on_ping_called", "pos": pos}),
        }
    }
}

#[derive(Clone, Copy, PartialEq, Eq, Debug)]
pub enum InitSt {
    None,
    Pending,
    Acked,
}

#[derive(Clone, PartialEq, Eq, Debug)]
enum Expect {
    /// graphql-transport-ws: the next thing the server does is Close(code)
    Close(u16, &'static str),
    /// legacy: connection refused — connection_error, any close, or end of stream
    Refuse(&'static str),
    /// legacy connection_terminate: the output ends (close or end of stream), nothing else
    End(&'static str),
}

impl Expect {
    fn rule(&self) -> &'static str {
        match self {
            Expect::Close(_, r) | Expect::Refuse(r) | Expect::End(r) => r,
        }
    }
    fn describe(&self) -> String {
        match self {
            Expect::Close(c, _) => format!("Close({c})"),
            Expect::Refuse(_) => "a refusal (connection_error, a close or the end of the stream)".into(),
            Expect::End(_) => "the end of the stream".into(),
        }
    }
}

#[derive(Clone, Debug)]
struct Op {
    kind: OpKind,
    /// instances that may emit under this id (one, or old+new after a legacy duplicate start)
    allowed: BTreeSet<u32>,
    /// legacy: a start for this live id was consumed and not yet resolved into replaced/rejected
    dup: bool,
    results: u32,
}

#[derive(Clone, Debug, Default)]
struct Inst {
    yielded: u32,
    delivered: u32,
    ended: bool,
    dropped: bool,
    must_drop: Option<String>,
}

#[derive(Clone, Debug)]
pub struct Violation {
    pub rule: String,
    pub what: String,
    pub at_event: usize,
    pub pos: usize,
}

pub struct Monitor {
    pub proto: Proto,
    pub init: InitSt,
    pub acks: u32,
    pub closed: bool,
    pub ended: bool,
    /// keep-alive fired or init callback failed: only W1 from here on
    pub w1_only: bool,
    /// the client went away (end of input): liveness obligations are off
    pub relaxed: bool,
    ack_due: bool,
    msgs: BTreeMap<usize, CMsg>,
    ops: BTreeMap<String, Op>,
    echo_ok: BTreeMap<String, u32>,
    finished_ids: BTreeSet<String>,
    insts: BTreeMap<u32, Inst>,
    expect: Option<Expect>,
    pings: u32,
    pongs: u32,
    fed: usize,
    /// number of client frames the server has taken from its input
    pub consumed: usize,
    pub violations: Vec<Violation>,
    /// (state, symbol) pairs this session went through
    pub pairs: BTreeSet<String>,
    /// things worth counting but not judged
    pub notes: BTreeSet<String>,
    pub closes: Vec<(u16, String)>,
}

impl Monitor {
    pub fn new(proto: Proto) -> Monitor {
        Monitor {
            proto,
            init: InitSt::None,
            acks: 0,
            closed: false,
            ended: false,
            w1_only: false,
            relaxed: false,
            ack_due: false,
            msgs: BTreeMap::new(),
            ops: BTreeMap::new(),
            echo_ok: BTreeMap::new(),
            finished_ids: BTreeSet::new(),
            insts: BTreeMap::new(),
            expect: None,
            pings: 0,
            pongs: 0,
            fed: 0,
            consumed: 0,
            violations: vec![],
            pairs: BTreeSet::new(),
            notes: BTreeSet::new(),
            closes: vec![],
        }
    }

    pub fn live_ids(&self) -> Vec<String> {
        self.ops.keys().cloned().collect()
    }

    pub fn over(&self) -> bool {
        self.ended
    }

    /// Abstract automaton state used for the coverage evidence.
    pub fn state_name(&self) -> String {
        if self.ended {
            return "ended".into();
        }
        if self.closed {
            return "closed".into();
        }
        let init = match self.init {
            InitSt::None => "none",
            InitSt::Pending => "pending",
            InitSt::Acked => "acked",
        };
        let mut s = format!("init={init}/live={}", self.ops.len().min(3));
        if self.w1_only {
            s.push_str("/env-fault");
        }
        if self.relaxed {
            s.push_str("/client-gone");
        }
        s
    }

    /// Feed every not yet seen event of `log`.
    pub fn catch_up(&mut self, log: &[Ev]) {
        while self.fed < log.len() {
            let i = self.fed;
            self.fed += 1;
            self.feed(i, &log[i]);
        }
    }

    fn violate(&mut self, rule: &str, what: String, at: usize, pos: usize) {
        if self.violations.len() < 16 {
            self.violations.push(Violation { rule: rule.to_string(), what, at_event: at, pos });
        }
    }

    fn fail_expect(&mut self, observed: &str, at: usize, pos: usize) {
        if let Some(e) = self.expect.take() {
            let rule = e.rule();
            self.violate(rule, format!("expected {} — observed {}", e.describe(), observed), at, pos);
        }
    }

    fn pair(&mut self, sym: &str) {
        let s = format!("{}:{}|{}", self.proto.tag(), self.state_name(), sym);
        self.pairs.insert(s);
    }

    fn feed(&mut self, at: usize, ev: &Ev) {
        match ev {
            Ev::Quiescent { pos } => self.on_quiescent(at, *pos),
            Ev::In { n, sym, msg, .. } => {
                self.pair(sym);
                if *msg == CMsg::Eof {
                    self.relaxed = true;
                }
                self.msgs.insert(*n, msg.clone());
            }
            Ev::Recv { pos, n } => {
                self.consumed = self.consumed.max(*n + 1);
                if let Some(m) = self.msgs.get(n).cloned() {
                    self.on_recv(at, *pos, m);
                }
            }
            Ev::Env { sym, .. } => {
                self.pair(sym);
                match sym.as_str() {
                    "timer" | "init_fail" => {
                        self.w1_only = true;
                        self.expect = None;
                    }
                    _ => {}
                }
            }
            Ev::Skip { .. } | Ev::InitCalled { .. } | Ev::PingCalled { .. } => {}
            Ev::InitResolved { ok, .. } => {
                if *ok {
                    self.ack_due = true;
                } else {
                    self.w1_only = true;
                    self.expect = None;
                }
            }
            Ev::Out { pos, msg } => self.on_out(at, *pos, msg),
            Ev::OutEnd { pos } => {
                self.ended = true;
                match self.expect.take() {
                    None | Some(Expect::Refuse(_)) | Some(Expect::End(_)) => {}
                    Some(e @ Expect::Close(..)) => {
                        self.expect = Some(e);
                        self.fail_expect("the output stream ended without a Close", at, *pos);
                    }
                }
            }
            Ev::Started { pos, inst, kind } => self.on_started(at, *pos, *inst, *kind),
            Ev::Yielded { inst, seq, .. } => {
                self.insts.entry(*inst).or_default().yielded = *seq;
            }
            Ev::StreamEnd { inst, .. } => {
                self.insts.entry(*inst).or_default().ended = true;
            }
            Ev::Dropped { inst, .. } => {
                self.insts.entry(*inst).or_default().dropped = true;
                for op in self.ops.values_mut() {
                    if op.allowed.len() > 1 {
                        op.allowed.remove(inst);
                    }
                }
            }
        }
    }

    fn on_recv(&mut self, at: usize, pos: usize, m: CMsg) {
        if self.w1_only {
            return;
        }
        if self.expect.is_some() {
            self.fail_expect("the server went on to read the next client message", at, pos);
        }
        let gtws = self.proto == Proto::Gtws;
        match m {
            CMsg::Init => match self.init {
                InitSt::None => self.init = InitSt::Pending,
                _ => {
                    self.expect = Some(if gtws {
                        Expect::Close(4429, "close-4429-second-init")
                    } else {
                        Expect::Refuse("legacy-second-init-refused")
                    });
                }
            },
            CMsg::Subscribe { id, kind } => {
                if self.init != InitSt::Acked {
                    self.expect = Some(if gtws {
                        Expect::Close(4401, "close-4401-subscribe-before-ack")
                    } else {
                        Expect::Refuse("legacy-start-before-ack-refused")
                    });
                } else if let Some(op) = self.ops.get_mut(&id) {
                    if gtws {
                        self.expect = Some(Expect::Close(4409, "close-4409-duplicate-id"));
                    } else {
                        // legacy: "replaced" and "rejected" are both accepted; afterwards only
                        // one instance may emit under the id
                        op.dup = true;
                        op.kind = match (op.kind, kind) {
                            (OpKind::Stream(c), OpKind::Stream(_)) => OpKind::Stream(c),
                            (_, k) => k,
                        };
                    }
                } else {
                    self.echo_ok.remove(&id);
                    self.finished_ids.remove(&id);
                    self.ops.insert(id, Op { kind, allowed: BTreeSet::new(), dup: false, results: 0 });
                }
            }
            CMsg::Complete { id } => {
                if let Some(op) = self.ops.remove(&id) {
                    // the server may answer a client complete/stop with one complete(id)
                    self.echo_ok.insert(id.clone(), 1);
                    for i in op.allowed {
                        let inst = self.insts.entry(i).or_default();
                        if !inst.dropped {
                            inst.must_drop = Some(id.clone());
                        }
                    }
                }
            }
            CMsg::Ping => {
                if gtws {
                    self.pings += 1;
                }
            }
            CMsg::Pong => {}
            CMsg::Terminate => {
                self.expect = Some(if gtws {
                    Expect::Close(4400, "close-4400-invalid-message")
                } else {
                    Expect::End("legacy-terminate-ends-stream")
                });
            }
            CMsg::Invalid => {
                self.expect = Some(if gtws {
                    Expect::Close(4400, "close-4400-invalid-message")
                } else {
                    Expect::Refuse("legacy-invalid-message-refused")
                });
            }
            CMsg::Eof => {
                self.relaxed = true;
                self.expect = None;
            }
        }
    }

    fn on_started(&mut self, at: usize, pos: usize, inst: u32, kind: char) {
        self.insts.entry(inst).or_default();
        if self.w1_only {
            return;
        }
        if self.expect.is_some() {
            self.fail_expect(
                &format!("a new stream instance #{inst} ({kind}) was created (the operation ran)"),
                at,
                pos,
            );
        }
        if self.init != InitSt::Acked {
            self.violate(
                "W4-instance-before-ack",
                format!("stream instance #{inst} ({kind}) was created although connection_init was not acknowledged"),
                at,
                pos,
            );
            return;
        }
        let id = kind.to_string();
        let gone: BTreeSet<u32> = self.insts.iter().filter(|(_, s)| s.dropped).map(|(i, _)| *i).collect();
        if let Some(op) = self.ops.get_mut(&id) {
            if op.dup {
                op.allowed.retain(|i| !gone.contains(i));
            }
        }
        match self.ops.get_mut(&id) {
            None => self.violate(
                "W4-instance-without-operation",
                format!("stream instance #{inst} ({kind}) was created but no operation is live under id {id:?}"),
                at,
                pos,
            ),
            Some(op) => {
                if op.allowed.is_empty() || op.dup {
                    op.allowed.insert(inst);
                    op.dup = false;
                } else {
                    let cur: Vec<u32> = op.allowed.iter().copied().collect();
                    self.violate(
                        "W4-second-instance",
                        format!("stream instance #{inst} created for id {id:?} which already runs instance(s) {cur:?}"),
                        at,
                        pos,
                    );
                }
            }
        }
    }

    fn on_out(&mut self, at: usize, pos: usize, msg: &Out) {
        if self.closed || self.ended {
            let what = if self.closed { "a Close" } else { "the end of the output stream" };
            self.violate("W1-output-after-close", format!("server emitted {msg:?} after {what}"), at, pos);
            return;
        }
        match msg {
            Out::Close(code, reason) => {
                self.closed = true;
                self.closes.push((*code, reason.clone()));
                match self.expect.take() {
                    Some(Expect::Close(want, rule)) => {
                        if *code != want {
                            self.expect = Some(Expect::Close(want, rule));
                            self.fail_expect(&format!("Close({code}, {reason:?})"), at, pos);
                        }
                    }
                    Some(_) => {}
                    None => {
                        if !self.w1_only && !self.relaxed {
                            self.notes.insert(format!("close_without_protocol_cause:{code}"));
                        }
                    }
                }
            }
            Out::Text(t) => self.on_text(at, pos, t),
        }
    }

    fn on_text(&mut self, at: usize, pos: usize, t: &str) {
        if self.w1_only {
            return;
        }
        let v: J = match serde_json::from_str(t) {
            Ok(v) => v,
            Err(e) => {
                self.violate("server-message-not-json", format!("server sent text that is not JSON: {t:?}: {e}"), at, pos);
                return;
            }
        };
        let ty = v["type"].as_str().unwrap_or("").to_string();
        // an immediate obligation is pending: only the matching reaction is acceptable
        match (&self.expect, ty.as_str()) {
            (Some(Expect::Refuse(_)), "connection_error") => {
                self.expect = None;
                self.notes.insert("legacy_refusal_by_connection_error".into());
                return;
            }
            (Some(_), _) => {
                self.fail_expect(&format!("the message {}", vh_core::run::truncate(t, 200)), at, pos);
            }
            (None, _) => {}
        }
        let gtws = self.proto == Proto::Gtws;
        match ty.as_str() {
            "connection_ack" => {
                self.acks += 1;
                if self.acks > 1 {
                    self.violate("W5-second-ack", "a second connection_ack was sent".into(), at, pos);
                } else if self.init != InitSt::Pending {
                    self.violate(
                        "W5-ack-without-init",
                        format!("connection_ack sent while init state is {:?}", self.init),
                        at,
                        pos,
                    );
                }
                self.init = InitSt::Acked;
                self.ack_due = false;
            }
            "connection_error" => {
                if gtws {
                    self.notes.insert("gtws_sent_connection_error".into());
                }
            }
            "ka" | "ping" => {}
            "pong" => self.pongs += 1,
            "next" | "data" => {
                if (ty == "next") != gtws {
                    self.violate(
                        "W2-wrong-message-type",
                        format!("{} uses message type {:?} for results, server sent {ty:?}", self.proto.name(), if gtws { "next" } else { "data" }),
                        at,
                        pos,
                    );
                }
                self.on_result(at, pos, &v, t);
            }
            "error" => {
                let id = v["id"].as_str().unwrap_or("").to_string();
                match self.ops.remove(&id) {
                    None => self.violate(
                        "W2-message-for-dead-id",
                        format!("error for id {id:?} which is not a live operation: {t}"),
                        at,
                        pos,
                    ),
                    Some(_) => {
                        self.finished_ids.insert(id.clone());
                        self.notes.insert("error_message_used".into());
                        if !gtws {
                            // the legacy document does not say whether a complete follows GQL_ERROR
                            self.echo_ok.insert(id, 1);
                        }
                    }
                }
            }
            "complete" => {
                let id = v["id"].as_str().unwrap_or("").to_string();
                if let Some(op) = self.ops.get(&id).cloned() {
                    match op.kind {
                        OpKind::Query if op.results != 1 => self.violate(
                            "query-op",
                            format!("complete({id}) for a query operation after {} results (exactly one expected)", op.results),
                            at,
                            pos,
                        ),
                        OpKind::Invalid if op.results == 0 => self.violate(
                            "invalid-op",
                            format!("complete({id}) for an invalid document without delivering its errors"),
                            at,
                            pos,
                        ),
                        _ => {}
                    }
                    self.ops.remove(&id);
                    self.finished_ids.insert(id);
                } else if self.echo_ok.get(&id).copied().unwrap_or(0) > 0 {
                    self.echo_ok.remove(&id);
                    self.notes.insert("complete_echo_after_client_complete".into());
                } else {
                    let why = if self.finished_ids.contains(&id) {
                        "was already completed (second complete)"
                    } else {
                        "is not a live operation"
                    };
                    self.violate("W3-complete-for-dead-id", format!("complete({id:?}) but that id {why}"), at, pos);
                }
            }
            other => {
                self.notes.insert(format!("unknown_server_message_type:{other}"));
            }
        }
    }

    fn on_result(&mut self, at: usize, pos: usize, v: &J, t: &str) {
        let id = v["id"].as_str().unwrap_or("").to_string();
        let Some(op) = self.ops.get_mut(&id) else {
            let why = if self.finished_ids.contains(&id) || self.echo_ok.contains_key(&id) {
                "was completed before (output after complete)"
            } else {
                "is not a live operation"
            };
            let rule = if why.starts_with("was") { "W3-output-after-complete" } else { "W2-message-for-dead-id" };
            self.violate(rule, format!("result for id {id:?} but that id {why}: {t}"), at, pos);
            return;
        };
        let payload = &v["payload"];
        let has_errors = payload["errors"].as_array().map(|a| !a.is_empty()).unwrap_or(false);
        op.results += 1;
        match op.kind {
            OpKind::Query => {
                if op.results > 1 || has_errors || payload["data"]["value"] != json!(10) {
                    let n = op.results;
                    self.violate("query-op", format!("query operation {id:?}: result #{n} is not the single expected result: {t}"), at, pos);
                }
            }
            OpKind::Invalid => {
                if !has_errors {
                    self.violate("invalid-op", format!("invalid document {id:?} produced a result without errors: {t}"), at, pos);
                } else {
                    self.notes.insert("validation_error_as_result_message".into());
                }
            }
            OpKind::Stream(k) => {
                let item = &payload["data"][k.to_string()];
                let (Some(inst), Some(seq)) = (item["inst"].as_u64(), item["seq"].as_u64()) else {
                    self.violate("W2-unattributable-result", format!("result under id {id:?} does not carry (inst, seq): {t}"), at, pos);
                    return;
                };
                let (inst, seq) = (inst as u32, seq as u32);
                if !op.allowed.contains(&inst) {
                    let cur: Vec<u32> = op.allowed.iter().copied().collect();
                    self.violate(
                        "W2-result-from-stale-instance",
                        format!("result under id {id:?} comes from instance #{inst}, live instance(s) are {cur:?}"),
                        at,
                        pos,
                    );
                    return;
                }
                if op.allowed.len() > 1 {
                    // legacy duplicate start: the first instance that emits is the one that stays
                    op.allowed.clear();
                    op.allowed.insert(inst);
                }
                let st = self.insts.entry(inst).or_default();
                let prev = st.delivered;
                let yielded = st.yielded;
                if seq > prev {
                    st.delivered = seq;
                }
                if seq <= prev {
                    self.violate("W2-seq-not-increasing", format!("instance #{inst}: seq {seq} delivered after seq {prev}"), at, pos);
                } else if seq != prev + 1 {
                    self.violate("W2-event-lost", format!("instance #{inst}: seq {seq} delivered after seq {prev}; the events in between are lost"), at, pos);
                } else if seq > yielded {
                    self.violate("W2-result-never-yielded", format!("instance #{inst}: seq {seq} delivered but the stream yielded only {yielded}"), at, pos);
                }
            }
        }
    }

    fn on_quiescent(&mut self, at: usize, pos: usize) {
        if self.w1_only {
            self.expect = None;
            return;
        }
        if self.expect.is_some() {
            let obs = if self.closed {
                "a different close"
            } else if self.ended {
                "the end of the stream"
            } else {
                "no reaction (the connection stays open)"
            };
            self.fail_expect(obs, at, pos);
        }
        if self.relaxed || self.closed || self.ended {
            return;
        }
        if self.pings > self.pongs {
            self.violate("W6-ping-without-pong", format!("{} ping(s) consumed, {} pong(s) sent", self.pings, self.pongs), at, pos);
            self.pongs = self.pings;
        }
        if self.ack_due && self.acks == 0 {
            self.violate("ack-missing", "on_connection_init resolved successfully but no connection_ack was sent".into(), at, pos);
            self.ack_due = false;
        }
        let ids: Vec<String> = self.ops.keys().cloned().collect();
        for id in ids {
            let op = self.ops[&id].clone();
            match op.kind {
                OpKind::Query => {
                    self.violate("query-op", format!("query operation {id:?} did not finish (one result, then complete) by quiescence; results so far {}", op.results), at, pos);
                    self.ops.remove(&id);
                }
                OpKind::Invalid => {
                    self.violate("invalid-op", format!("invalid document {id:?}: operation not terminated by quiescence; results so far {}", op.results), at, pos);
                    self.ops.remove(&id);
                }
                OpKind::Stream(_) => {
                    if op.allowed.is_empty() {
                        self.notes.insert("live_operation_without_instance_at_quiescence".into());
                    }
                    if op.allowed.len() == 1 {
                        let i = *op.allowed.iter().next().unwrap();
                        let st = self.insts.entry(i).or_default().clone();
                        if st.yielded != st.delivered {
                            self.violate(
                                "W2-event-lost",
                                format!("instance #{i} (id {id:?}) yielded {} events but only {} were delivered while the operation is live and the socket open", st.yielded, st.delivered),
                                at,
                                pos,
                            );
                            self.insts.get_mut(&i).unwrap().delivered = st.yielded;
                        }
                        if st.ended {
                            self.violate(
                                "W3-complete-missing",
                                format!("instance #{i} (id {id:?}) ended but no complete({id}) was sent"),
                                at,
                                pos,
                            );
                            self.ops.remove(&id);
                        }
                    }
                }
            }
        }
        let pending: Vec<(u32, String)> = self
            .insts
            .iter()
            .filter(|(_, s)| s.must_drop.is_some() && !s.dropped)
            .map(|(i, s)| (*i, s.must_drop.clone().unwrap()))
            .collect();
        for (i, id) in pending {
            self.violate(
                "drop-on-client-complete",
                format!("client completed/stopped id {id:?} but stream instance #{i} is still alive at quiescence"),
                at,
                pos,
            );
            self.insts.get_mut(&i).unwrap().must_drop = None;
        }
    }
}

// ---------------------------------------------------------------- self-test

/// Hand-written traces, each breaking exactly one rule (plus two conforming
/// ones). Returns (name, monitor behaved as required). Run at start-up so that
/// a monitor that cannot reject anything makes the check inconclusive.
pub fn selftest() -> Vec<(&'static str, bool)> {
    fn text(pos: usize, v: J) -> Ev {
        Ev::Out { pos, msg: Out::Text(v.to_string()) }
    }
    fn inp(pos: usize, n: usize, msg: CMsg) -> Vec<Ev> {
        vec![Ev::In { pos, n, sym: "x".into(), msg, text: None }, Ev::Recv { pos, n }]
    }
    fn sub(id: &str) -> CMsg {
        CMsg::Subscribe { id: id.into(), kind: OpKind::Stream(id.chars().next().unwrap()) }
    }
    fn next(p: Proto, pos: usize, id: &str, inst: u32, seq: u32) -> Ev {
        let ty = if p == Proto::Gtws { "next" } else { "data" };
        text(pos, json!({"type": ty, "id": id, "payload": {"data": {id: {"inst": inst, "seq": seq}}}}))
    }
    fn acked(p: Proto) -> Vec<Ev> {
        let mut v = inp(1, 0, CMsg::Init);
        v.push(Ev::InitResolved { pos: 1, ok: true });
        v.push(text(1, json!({"type": "connection_ack"})));
        v.push(Ev::Quiescent { pos: 1 });
        let _ = p;
        v
    }
    fn live_a(p: Proto) -> Vec<Ev> {
        let mut v = acked(p);
        v.extend(inp(2, 1, sub("a")));
        v.push(Ev::Started { pos: 2, inst: 1, kind: 'a' });
        v.push(Ev::Quiescent { pos: 2 });
        v
    }
    fn check(p: Proto, evs: Vec<Ev>, want: Option<&str>) -> bool {
        let mut m = Monitor::new(p);
        m.catch_up(&evs);
        match want {
            None => m.violations.is_empty(),
            Some(rule) => m.violations.first().map(|v| v.rule == rule).unwrap_or(false),
        }
    }
    let g = Proto::Gtws;
    let l = Proto::Legacy;
    let mut out = vec![];
    let q = |pos| Ev::Quiescent { pos };

    // conforming sessions
    let mut t = live_a(g);
    t.push(Ev::Yielded { pos: 3, inst: 1, seq: 1 });
    t.push(next(g, 3, "a", 1, 1));
    t.push(q(3));
    t.push(Ev::StreamEnd { pos: 4, inst: 1 });
    t.push(text(4, json!({"type": "complete", "id": "a"})));
    t.push(Ev::Dropped { pos: 4, inst: 1 });
    t.push(q(4));
    out.push(("good-gtws", check(g, t, None)));
    let mut t = live_a(l);
    t.extend(inp(3, 2, CMsg::Complete { id: "a".into() }));
    t.push(Ev::Dropped { pos: 3, inst: 1 });
    t.push(text(3, json!({"type": "complete", "id": "a"})));
    t.push(q(3));
    t.extend(inp(4, 3, CMsg::Terminate));
    t.push(Ev::OutEnd { pos: 4 });
    t.push(q(4));
    out.push(("good-legacy", check(l, t, None)));

    // W1
    let mut t = acked(g);
    t.extend(inp(2, 1, CMsg::Init));
    t.push(Ev::Out { pos: 2, msg: Out::Close(4429, "x".into()) });
    t.push(text(2, json!({"type": "pong"})));
    out.push(("W1", check(g, t, Some("W1-output-after-close"))));
    // W2 dead id
    let mut t = acked(g);
    t.push(next(g, 2, "a", 1, 1));
    out.push(("W2-dead-id", check(g, t, Some("W2-message-for-dead-id"))));
    // W2 stale instance
    let mut t = live_a(g);
    t.push(next(g, 3, "a", 7, 1));
    out.push(("W2-stale", check(g, t, Some("W2-result-from-stale-instance"))));
    // W2 seq repeats
    let mut t = live_a(g);
    t.push(Ev::Yielded { pos: 3, inst: 1, seq: 1 });
    t.push(next(g, 3, "a", 1, 1));
    t.push(next(g, 3, "a", 1, 1));
    out.push(("W2-seq", check(g, t, Some("W2-seq-not-increasing"))));
    // W2 lost event
    let mut t = live_a(g);
    t.push(Ev::Yielded { pos: 3, inst: 1, seq: 1 });
    t.push(q(3));
    out.push(("W2-lost", check(g, t, Some("W2-event-lost"))));
    // W3 second complete
    let mut t = live_a(l);
    t.push(text(3, json!({"type": "complete", "id": "a"})));
    t.push(text(3, json!({"type": "complete", "id": "a"})));
    out.push(("W3-second-complete", check(l, t, Some("W3-complete-for-dead-id"))));
    // W3 output after complete
    let mut t = live_a(l);
    t.push(text(3, json!({"type": "complete", "id": "a"})));
    t.push(next(l, 3, "a", 1, 1));
    out.push(("W3-after-complete", check(l, t, Some("W3-output-after-complete"))));
    // W3 stream ended, no complete
    let mut t = live_a(g);
    t.push(Ev::StreamEnd { pos: 3, inst: 1 });
    t.push(q(3));
    out.push(("W3-complete-missing", check(g, t, Some("W3-complete-missing"))));
    // W4
    let mut t = inp(1, 0, CMsg::Init);
    t.push(Ev::Started { pos: 1, inst: 1, kind: 'a' });
    out.push(("W4", check(l, t, Some("W4-instance-before-ack"))));
    // W5
    let mut t = acked(g);
    t.push(text(2, json!({"type": "connection_ack"})));
    out.push(("W5", check(g, t, Some("W5-second-ack"))));
    // W6
    let mut t = acked(g);
    t.extend(inp(2, 1, CMsg::Ping));
    t.push(q(2));
    out.push(("W6", check(g, t, Some("W6-ping-without-pong"))));
    // close codes
    let mut t = inp(1, 0, sub("a"));
    t.push(Ev::Out { pos: 1, msg: Out::Close(1011, "x".into()) });
    out.push(("4401", check(g, t, Some("close-4401-subscribe-before-ack"))));
    let mut t = inp(1, 0, sub("a"));
    t.push(Ev::Out { pos: 1, msg: Out::Close(4401, "Unauthorized".into()) });
    t.push(Ev::OutEnd { pos: 1 });
    t.push(q(1));
    out.push(("4401-good", check(g, t, None)));
    let mut t = live_a(g);
    t.extend(inp(3, 2, sub("a")));
    t.push(q(3));
    out.push(("4409", check(g, t, Some("close-4409-duplicate-id"))));
    let mut t = acked(g);
    t.extend(inp(2, 1, CMsg::Invalid));
    t.push(Ev::Out { pos: 2, msg: Out::Close(1002, "x".into()) });
    out.push(("4400", check(g, t, Some("close-4400-invalid-message"))));
    let mut t = acked(g);
    t.extend(inp(2, 1, CMsg::Init));
    t.push(Ev::OutEnd { pos: 2 });
    out.push(("4429", check(g, t, Some("close-4429-second-init"))));
    // legacy refusals
    let mut t = inp(1, 0, sub("a"));
    t.push(Ev::Started { pos: 1, inst: 1, kind: 'a' });
    out.push(("legacy-start-before-ack", check(l, t, Some("legacy-start-before-ack-refused"))));
    let mut t = acked(l);
    t.extend(inp(2, 1, CMsg::Init));
    t.push(q(2));
    out.push(("legacy-second-init", check(l, t, Some("legacy-second-init-refused"))));
    let mut t = acked(l);
    t.extend(inp(2, 1, CMsg::Terminate));
    t.push(text(2, json!({"type": "ka"})));
    out.push(("legacy-terminate", check(l, t, Some("legacy-terminate-ends-stream"))));
    // legacy duplicate start: both instances emit
    let mut t = live_a(l);
    t.extend(inp(3, 2, sub("a")));
    t.push(Ev::Started { pos: 3, inst: 2, kind: 'a' });
    t.push(q(3));
    t.push(Ev::Yielded { pos: 4, inst: 2, seq: 1 });
    t.push(next(l, 4, "a", 2, 1));
    t.push(Ev::Yielded { pos: 4, inst: 1, seq: 1 });
    t.push(next(l, 4, "a", 1, 1));
    out.push(("legacy-dup-both-emit", check(l, t, Some("W2-result-from-stale-instance"))));
    // client complete, instance stays alive
    let mut t = live_a(g);
    t.extend(inp(3, 2, CMsg::Complete { id: "a".into() }));
    t.push(q(3));
    out.push(("drop-on-complete", check(g, t, Some("drop-on-client-complete"))));
    // only W1 after a keep-alive expiry
    let mut t = live_a(g);
    t.push(Ev::Env { pos: 3, sym: "timer".into(), label: "timer".into() });
    t.push(Ev::Out { pos: 3, msg: Out::Close(3008, "timeout".into()) });
    t.push(Ev::OutEnd { pos: 3 });
    t.push(q(3));
    out.push(("timer-good", check(g, t, None)));
    out
}
